"""Spec side of C08: the Laue-class invariants of a fourth-rank elastic tensor in the standard setting
(principal axis z, two-fold axis x where present, unique axis y for monoclinic).

For each of the nine systems the generators are orthogonal 3x3 matrices over Q(sqrt 3); their action on the 21
independent components c_IJ is a 21x21 matrix G with  (G c)_{IJ} = sum R_ia R_jb R_kc R_ld c_{abcd}.
A tensor is invariant iff (G - 1) c = 0 for every generator.
"""
import itertools
import sympy as sp

S3 = sp.sqrt(3)
H = sp.Rational(1, 2)


def rot_z(c, s):
    return sp.Matrix([[c, -s, 0], [s, c, 0], [0, 0, 1]])


TWO_X = sp.diag(1, -1, -1)
TWO_Y = sp.diag(-1, 1, -1)
TWO_Z = sp.diag(-1, -1, 1)
FOUR_Z = rot_z(0, 1)
THREE_Z = rot_z(-H, S3 / 2)
SIX_Z = rot_z(H, S3 / 2)
THREE_111 = sp.Matrix([[0, 0, 1], [1, 0, 0], [0, 1, 0]])

GENERATORS = {
    "triclinic": [],
    "monoclinic": [TWO_Y],
    "orthorhombic": [TWO_Z, TWO_X],
    "tetragonal7": [FOUR_Z],
    "tetragonal6": [FOUR_Z, TWO_X],
    "trigonal7": [THREE_Z],
    "trigonal6": [THREE_Z, TWO_X],
    "hexagonal": [SIX_Z, TWO_X],
    "cubic": [FOUR_Z, THREE_111],
}
EXPECTED_DIM = {"triclinic": 21, "monoclinic": 13, "orthorhombic": 9, "tetragonal7": 7, "tetragonal6": 6, "trigonal7": 7,
                "trigonal6": 6, "hexagonal": 5, "cubic": 3}

VOIGT = {1: (1, 1), 2: (2, 2), 3: (3, 3), 4: (2, 3), 5: (1, 3), 6: (1, 2)}
PAIRS = [(i, j) for i in range(1, 7) for j in range(i, 7)]          # order of the 21 symbols c11, c12, ... c66
NAMES = ["c%d%d" % p for p in PAIRS]


def voigt_of(i, j):
    for k, (a, b) in VOIGT.items():
        if (a, b) == (min(i, j), max(i, j)):
            return k


def comp_index(a, b, c, d):
    I, J = voigt_of(a, b), voigt_of(c, d)
    return PAIRS.index((min(I, J), max(I, J)))


def action(R):
    """21x21 sympy matrix of the rotation R acting on (c11, c12, ..., c66)"""
    G = sp.zeros(21, 21)
    for row, (I, J) in enumerate(PAIRS):
        (i, j), (k, l) = VOIGT[I], VOIGT[J]
        for a, b, c, d in itertools.product((1, 2, 3), repeat=4):
            w = R[i - 1, a - 1] * R[j - 1, b - 1] * R[k - 1, c - 1] * R[l - 1, d - 1]
            if w != 0:
                G[row, comp_index(a, b, c, d)] += w
    return G.applyfunc(sp.nsimplify).applyfunc(sp.expand)


_cache = {}


def invariance_rows(system):
    """stacked (G - 1) over the generators: list of rows (each a list of 21 sympy numbers in Q(sqrt3))"""
    if system not in _cache:
        rows = []
        for R in GENERATORS[system]:
            assert sp.simplify(R * R.T - sp.eye(3)) == sp.zeros(3, 3)
            M = action(R) - sp.eye(21)
            for r in range(21):
                row = [sp.expand(M[r, c]) for c in range(21)]
                if any(x != 0 for x in row):
                    rows.append(row)
        _cache[system] = rows
    return _cache[system]


def exact_rank(rows):
    if not rows:
        return 0
    M = sp.Matrix(rows)
    return M.rank(iszerofunc=lambda x: sp.simplify(x) == 0)


def invariant_basis(system):
    """basis of the invariant subspace as a list of 21-vectors (sympy numbers)"""
    rows = invariance_rows(system)
    if not rows:
        return [[1 if i == j else 0 for j in range(21)] for i in range(21)]
    return [list(v) for v in sp.Matrix(rows).nullspace(simplify=True)]
