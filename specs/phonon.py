"""Spec side of C01/C02: the per-mode vibrational free energy of the property statement, differentiated
symbolically (sympy) and translated to z3 terms.

  f(V,T) = H w(V)/2 + K T ln(1 - exp(-H w(V)/(K T)))          H = hc in Ry cm, K = k_B in Ry/K, w in cm^-1
  gamma  = -dln w/dln V  (=> w' = -gamma w / V),   g1 = V dgamma/dV  (=> gamma' = g1 / V)
  P = -df/dV,  A = V d2f/dV2 - P,  dP/dT = -d2f/dTdV

exp(H w/(K T)) is replaced by the symbol E (= Exp(Q), Q = H w /(K T)), so the result is a rational function
of (V, T, H, K, w, gamma, g1, E) that z3 can compare with the code's integrand in QF_NRA.
"""
import sympy as sp
import z3

V, T, H, K, g1, E, Wsym, Gsym = sp.symbols("V T H K g1 E w gamma", positive=True)
_w = sp.Function("wf")(V)
_g = sp.Function("gf")(V)


def _close(expr):
    expr = expr.subs(sp.Derivative(_w, V), -_g * _w / V)
    expr = expr.subs(sp.Derivative(_g, V), g1 / V)
    return expr


def _finish(expr):
    expr = expr.subs({_w: Wsym, _g: Gsym})
    Q = H * Wsym / (K * T)
    expr = expr.subs(sp.exp(-Q), 1 / E).subs(sp.exp(Q), E)
    expr = sp.together(expr)
    assert not expr.has(sp.exp) and not expr.has(sp.Derivative), expr
    return expr


def derive():
    f_zp = H * _w / 2
    f_th = K * T * sp.log(1 - sp.exp(-H * _w / (K * T)))
    out = {}
    for name, f in (("zp", f_zp), ("th", f_th)):
        fV = _close(sp.diff(f, V))
        fVV = _close(sp.diff(fV, V))
        fVV = _close(fVV)
        P = -fV
        A = V * fVV - P
        out["P_" + name] = _finish(P)
        out["A_" + name] = _finish(A)
    fTV = _close(sp.diff(sp.diff(f_th, T), V))
    out["dPdT"] = _finish(-fTV)          # zero-point part has no T dependence
    out["f_th"] = f_th
    out["f_zp"] = f_zp
    return out


_CACHE = {}


def spec_exprs():
    if not _CACHE:
        _CACHE.update(derive())
    return _CACHE


def to_z3(expr, env):
    """sympy rational expression -> z3 real term; env maps sympy symbols to z3 terms"""
    if expr.is_Symbol:
        return env[expr]
    if expr.is_Integer:
        return z3.RealVal(int(expr))
    if expr.is_Rational:
        return z3.RealVal("%d/%d" % (expr.p, expr.q))
    if expr.is_Add:
        args = [to_z3(a, env) for a in expr.args]
        r = args[0]
        for a in args[1:]:
            r = r + a
        return r
    if expr.is_Mul:
        num, den = None, None
        for a in expr.args:
            if a.is_Pow and a.exp.is_Integer and a.exp < 0:
                t = to_z3(sp.Pow(a.base, -a.exp), env)
                den = t if den is None else den * t
            else:
                t = to_z3(a, env)
                num = t if num is None else num * t
        if num is None:
            num = z3.RealVal(1)
        return num if den is None else num / den
    if expr.is_Pow and expr.exp.is_Integer:
        b = to_z3(expr.base, env)
        n = int(expr.exp)
        r = b
        for _ in range(abs(n) - 1):
            r = r * b
        return r if n > 0 else 1 / r
    raise ValueError("cannot translate %r" % (expr,))


def mpmath_check(n=20, seed=0):
    """numerical re-check of the symbolic derivation (thorough tier): finite differences of f with mpmath at
    random points against the closed forms.  Returns the max relative deviation."""
    import mpmath as mp, random
    mp.mp.dps = 60
    rnd = random.Random(seed)
    ex = spec_exprs()
    worst = mp.mpf(0)
    for _ in range(n):
        V0 = mp.mpf(rnd.uniform(50, 500)); T0 = mp.mpf(rnd.uniform(5, 3000))
        w0 = mp.mpf(rnd.uniform(30, 1500)); ga = mp.mpf(rnd.uniform(-1, 3)); q1 = mp.mpf(rnd.uniform(-2, 2))
        Hn = mp.mpf("9.11267050551e-6"); Kn = mp.mpf("6.33362e-6")   # magnitudes only matter for conditioning

        def w(v):   # ln w = ln w0 - ga ln(v/V0) - q1/2 ln^2(v/V0):  gamma = ga + q1 ln(v/V0),  V dgamma/dV = q1
            x = mp.log(v / V0)
            return w0 * mp.e ** (-ga * x - q1 / 2 * x * x)

        def fzp(v, t): return Hn * w(v) / 2
        def fth(v, t): return Kn * t * mp.log(1 - mp.e ** (-Hn * w(v) / (Kn * t)))
        Ev = mp.e ** (Hn * w0 / (Kn * T0))
        env = {V: V0, T: T0, H: Hn, K: Kn, Wsym: w0, Gsym: ga, g1: q1, E: Ev}
        for nm, f in (("zp", fzp), ("th", fth)):
            Pn = -mp.diff(lambda v: f(v, T0), V0)
            An = V0 * mp.diff(lambda v: f(v, T0), V0, 2) - Pn
            for key, val in (("P_" + nm, Pn), ("A_" + nm, An)):
                sv = mp.mpf(sp.N(ex[key].subs(env), 50))
                worst = max(worst, abs(sv - val) / (abs(val) + mp.mpf("1e-300")))
        dn = -mp.diff(lambda v: mp.diff(lambda t: fth(v, t), T0), V0)
        sv = mp.mpf(sp.N(ex["dPdT"].subs(env), 50))
        worst = max(worst, abs(sv - dn) / (abs(dn) + mp.mpf("1e-300")))
    return float(worst)
