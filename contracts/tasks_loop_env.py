"""Abstract state for the loop rule on cij.core.tasks.PhononContributionTaskList.resolve (work-list with de-duplication).

Tasks are identified by the equivalence class of their parameters (calc type + normalised strains / key + strain field, compared by the real
PhononContributionTaskParams.__eq__; that this relation is an equivalence and that `create` maps equal (strain, key) to equal parameters are the obligations
C04.task_params_equality_contract / C04.L2.*; numpy.allclose is treated as transitive: A-ALLCLOSE).  Sorts Strain, Key, Cls are uninterpreted:

  CLS(strain, key) : Cls          the class PhononContributionTaskParams.create(strain, key) falls into
  NDEP(c) >= 0, DEPS(c, j), DEPK(c, j)   the j-th entry of PhononContributionTask(...).get_dependencies() of a task of class c (0 <= j < NDEP(c))
  RANK(c) >= 0 with RANK(CLS(DEPS(c, j), DEPK(c, j))) < RANK(c)     the well-founded rank of C04.L1 (discharged there on the real get_dependencies)

Contract stubs used while the function's own statements run on this state:
  list of symbolic length (`q`): pop() from the end, append(), len(); the pending entry's third field is None or a task index
  task list (`tasks`): append, len, index, and iteration ONLY inside `next((t for t in tasks if <test on t>), default)` = first element passing the test
  nx.DiGraph(): add_node / add_edge recorded as relations; nx.topological_sort(g) (A-NX): a bijection of the nodes placing a before b for every edge a -> b
  itertools.product([x], keys, [None]) / list(...) for the initial work list
"""
import ast
import z3
from vf import core, looprule, symnp
from vf.symnp import SB
from contracts.evec_env import SInt

I = z3.IntSort()
Strain, Key, Cls = z3.DeclareSort("Strain"), z3.DeclareSort("Key"), z3.DeclareSort("Cls")
CLS = z3.Function("CLS", Strain, Key, Cls)
NDEP = z3.Function("NDEP", Cls, I)
DEPS = z3.Function("DEPS", Cls, I, Strain)
DEPK = z3.Function("DEPK", Cls, I, Key)
RANK = z3.Function("RANK", Cls, I)
KEYS = z3.Function("KEYS", I, Key)              # the request list
STRAIN0 = z3.Const("strain0", Strain)
NREQ = z3.Int("R")


def depcls(c, j):
    return CLS(DEPS(c, j), DEPK(c, j))


class State:
    """functions describing the loop state; `clone` gives the post-state holder the stubs update"""

    def __init__(self, tag):
        f = lambda name, *sorts: z3.Function("%s_%s" % (name, tag), *sorts)
        self.L, self.N = z3.Int("L_" + tag), z3.Int("N_" + tag)
        self.QS, self.QK, self.QD = f("QS", I, Strain), f("QK", I, Key), f("QD", I, I)
        self.TS, self.TK = f("TS", I, Strain), f("TK", I, Key)
        self.EDGE, self.NODE = f("EDGE", I, I, z3.BoolSort()), f("NODE", I, z3.BoolSort())
        # ghost
        self.QJ, self.QR = f("QJ", I, I), f("QR", I, I)
        self.WD, self.AD = f("WD", I, I, I), f("AD", I, I, I)
        self.WR, self.AR = f("WR", I, I), f("AR", I, I)

    def tcls(self, t):
        return CLS(self.TS(t), self.TK(t))


class Live:
    """the mutable view the executed statements work on: every component is a python closure over z3 terms"""

    def __init__(self, st):
        self.L, self.N = st.L, st.N
        self.QS, self.QK, self.QD = (lambda p: st.QS(p)), (lambda p: st.QK(p)), (lambda p: st.QD(p))
        self.TS, self.TK = (lambda t: st.TS(t)), (lambda t: st.TK(t))
        self.EDGE, self.NODE = (lambda a, b: st.EDGE(a, b)), (lambda a: st.NODE(a))
        self.events = []          # what the statements did, in order (for the ghost update)
        self.bounds = []          # side obligations (pop from a non-empty list, indices in range)
        self.facts = []           # facts contributed by stub contracts (first-match search)
        self.schemas = []
        self.bulk = None
        self.search_done = False

    def tcls(self, t):
        return CLS(self.TS(t), self.TK(t))


LIVE = [None]


def live():
    return LIVE[0]


class AbsStrain:
    def __init__(self, z):
        self.z = z


class AbsKey:
    def __init__(self, z):
        self.z = z


class AbsParams:
    def __init__(self, cls, candidate=None):
        self.cls, self.candidate = cls, candidate          # candidate: the generic index k of a first-match search over the task list

    def _cmp(self, o, neg):
        if not isinstance(o, AbsParams):
            return NotImplemented
        z = (self.cls != o.cls) if neg else (self.cls == o.cls)
        k = self.candidate if self.candidate is not None else o.candidate
        if k is not None:
            return SearchBool(z, k)
        return SB(z)

    def __eq__(self, o):
        return self._cmp(o, False)

    def __ne__(self, o):
        return self._cmp(o, True)

    __hash__ = None


class SearchBool:
    """truth value of the test of a first-match search, evaluated on the generic candidate k: its contract is  found <=> some element passes;  k = first such"""

    def __init__(self, z, k):
        self.z, self.k = z, k

    def __bool__(self):
        lv = live()
        if lv.search_done:
            raise core.OutsideSubset("more than one test per candidate in a first-match search")
        lv.search_done = True
        k, z = self.k, self.z
        found = z3.Bool("found!%d" % len(lv.events))
        phi = lambda t: z3.substitute(z, (k, t))
        N = lv.N
        lv.facts += [z3.Implies(found, z3.And(k >= 0, k < N, z))]
        lv.schemas.append((1, lambda t: z3.Implies(z3.And(t >= 0, t < N, z3.Or(z3.Not(found), t < k)), z3.Not(phi(t)))))
        lv.events.append(("search", found, k))
        return symnp.truth(found)


class ParamsStub:
    """PhononContributionTaskParams: create(strain, key) -> the class of the pair"""

    @staticmethod
    def create(strain, key):
        if not isinstance(strain, AbsStrain) or not isinstance(key, AbsKey):
            raise core.OutsideSubset("PhononContributionTaskParams.create(%r, %r)" % (strain, key))
        return AbsParams(CLS(strain.z, key.z))


class AbsTask:
    """a task object: either freshly constructed (index None until appended) or element `index` of the task list"""

    def __init__(self, strain, key, index=None, candidate=False):
        self.strain, self.key, self.index, self.candidate = strain, key, index, candidate

    @property
    def cls(self):
        return CLS(self.strain.z, self.key.z)

    @property
    def task_params(self):
        return AbsParams(self.cls, candidate=self.index if self.candidate else None)

    @property
    def calc_type(self):
        return "calc_type(%s)" % self.cls

    @property
    def params(self):
        return "params(%s)" % self.cls

    def get_dependencies(self):
        c = self.cls
        return DepSeq(c)


def TaskStub(strain, key, calculator=None):
    if not isinstance(strain, AbsStrain) or not isinstance(key, AbsKey):
        raise core.OutsideSubset("PhononContributionTask(%r, %r)" % (strain, key))
    live().events.append(("new_task", strain.z, key.z))
    return AbsTask(strain, key)


class DepSeq:
    """get_dependencies(): NDEP(c) pairs (strain, key); iterating it runs the loop body ONCE for a generic entry j and the work list records the bulk append"""

    def __init__(self, c):
        self.c = c

    def __iter__(self):
        lv = live()
        if lv.bulk is not None:
            raise core.OutsideSubset("nested iteration over dependency lists")
        j = z3.Int("jdep!%d" % len(lv.events))
        lv.bulk = {"c": self.c, "j": j, "appends": []}
        symnp.NO_FORK[0] += 1
        try:
            yield (AbsStrain(DEPS(self.c, j)), AbsKey(DEPK(self.c, j)))
        finally:
            symnp.NO_FORK[0] -= 1
        b, lv.bulk = lv.bulk, None
        if len(b["appends"]) != 1:
            raise core.OutsideSubset("the loop over the dependencies performs %d work-list appends per entry (one expected)" % len(b["appends"]))
        s_, k_, d_ = b["appends"][0]
        # work list grows by NDEP(c) entries: position L + i holds the i-th dependency (the generic entry with j := i)
        L0, c = lv.L, self.c
        n = NDEP(c)
        oldS, oldK, oldD = lv.QS, lv.QK, lv.QD
        sub = lambda t, i: z3.substitute(t, (j, i))
        lv.QS = lambda p, oldS=oldS, L0=L0, n=n: z3.If(z3.And(p >= L0, p < L0 + n), sub(s_, p - L0), oldS(p))
        lv.QK = lambda p, oldK=oldK, L0=L0, n=n: z3.If(z3.And(p >= L0, p < L0 + n), sub(k_, p - L0), oldK(p))
        lv.QD = lambda p, oldD=oldD, L0=L0, n=n: z3.If(z3.And(p >= L0, p < L0 + n), sub(d_, p - L0), oldD(p))
        lv.L = L0 + n
        lv.events.append(("push_deps", c, L0, d_))


class WorkList:
    """`q`"""

    def pop(self, *a):
        if a:
            raise core.OutsideSubset("work list pop(%r)" % (a,))
        lv = live()
        lv.bounds.append(("pop() from a non-empty work list", lv.L >= 1))
        p = lv.L - 1
        s_, k_, d_ = lv.QS(p), lv.QK(p), lv.QD(p)
        lv.L = p
        lv.events.append(("pop", p, s_, k_, d_))
        dep = None if symnp.truth(d_ == -1) else SInt(d_)
        return (AbsStrain(s_), AbsKey(k_), dep)

    def append(self, item):
        lv = live()
        if not (isinstance(item, tuple) and len(item) == 3 and isinstance(item[0], AbsStrain) and isinstance(item[1], AbsKey)):
            raise core.OutsideSubset("work list entry %r" % (item,))
        d = z3.IntVal(-1) if item[2] is None else SInt.of(item[2])
        if lv.bulk is not None:
            lv.bulk["appends"].append((item[0].z, item[1].z, d))
            return
        L0 = lv.L
        oldS, oldK, oldD = lv.QS, lv.QK, lv.QD
        lv.QS = lambda p, o=oldS: z3.If(p == L0, item[0].z, o(p))
        lv.QK = lambda p, o=oldK: z3.If(p == L0, item[1].z, o(p))
        lv.QD = lambda p, o=oldD: z3.If(p == L0, d, o(p))
        lv.L = L0 + 1
        lv.events.append(("push_one", L0, item[0].z, item[1].z, d))

    def extend(self, items):
        for item in items:
            self.append(item)

    def __bool__(self):
        return symnp.truth(live().L > 0)

    def __len__(self):
        raise looprule.Unavailable("len() of the work list must be a Python int")

    def __iter__(self):
        raise core.OutsideSubset("iteration over the work list")


class TaskList:
    """`tasks`"""

    def append(self, task):
        lv = live()
        if lv.bulk is not None or not isinstance(task, AbsTask) or task.index is not None:
            raise core.OutsideSubset("tasks.append(%r)" % (task,))
        N0 = lv.N
        oS, oK = lv.TS, lv.TK
        lv.TS = lambda t, o=oS: z3.If(t == N0, task.strain.z, o(t))
        lv.TK = lambda t, o=oK: z3.If(t == N0, task.key.z, o(t))
        lv.N = N0 + 1
        task.index = N0
        lv.events.append(("append_task", N0))

    def index(self, task):
        if not isinstance(task, AbsTask) or task.index is None:
            raise core.OutsideSubset("tasks.index(%r)" % (task,))
        return SInt(task.index)

    def __getitem__(self, k):
        lv = live()
        z = SInt.of(k)
        lv.bounds.append(("task index %s within [0, N)" % z, z3.And(z >= 0, z < lv.N)))
        return AbsTask(AbsStrain(lv.TS(z)), AbsKey(lv.TK(z)), index=z)

    def __iter__(self):
        """first-match search (checked syntactically by the harness: the only iteration over the task list is the generator handed to next()): ONE generic candidate
        element at a fresh index k is offered; the test evaluated on it becomes the contract of the search (SearchBool)"""
        lv = live()
        if lv.bulk is not None or lv.search_done:
            raise core.OutsideSubset("iteration over the task list outside a single first-match search")
        k = z3.Int("k!%d" % len(lv.events))
        yield AbsTask(AbsStrain(lv.TS(k)), AbsKey(lv.TK(k)), index=k, candidate=True)

    def __len__(self):
        raise looprule.Unavailable("len() of the task list must be a Python int")


class Graph:
    def add_node(self, a):
        lv = live()
        z = SInt.of(a)
        o = lv.NODE
        lv.NODE = lambda x, o=o: z3.Or(o(x), x == z)
        lv.events.append(("add_node", z))

    def add_edge(self, a, b):
        lv = live()
        za, zb = SInt.of(a), SInt.of(b)
        o = lv.EDGE
        lv.EDGE = lambda x, y, o=o: z3.Or(o(x, y), z3.And(x == za, y == zb))
        lv.events.append(("add_edge", za, zb))


class SymOrder:
    """result of nx.topological_sort: positions ORD(g), g in [0, N)"""

    def __init__(self, graph):
        self.graph = graph

    def __iter__(self):
        lv = live()
        g = z3.Int("g!ord")
        lv.events.append(("iterate_order", g))
        symnp.NO_FORK[0] += 1
        try:
            yield SInt(ORD(g))
        finally:
            symnp.NO_FORK[0] -= 1


ORD = z3.Function("ORD", I, I)
POS = z3.Function("POS", I, I)


class NxStub:
    DiGraph = Graph

    @staticmethod
    def topological_sort(graph):
        if not isinstance(graph, Graph):
            raise core.OutsideSubset("topological_sort(%r)" % (graph,))
        live().events.append(("toposort",))
        return SymOrder(graph)


GREQ = z3.Int("g!req")


class ReqSeq:
    """the request list `keys` (symbolic length R); iterating it (a comprehension that builds the initial work list) offers ONE generic request KEYS(g)"""

    def __iter__(self):
        lv = live()
        lv.events.append(("iterate_requests",))
        symnp.NO_FORK[0] += 1
        try:
            yield AbsKey(KEYS(GREQ))
        finally:
            symnp.NO_FORK[0] -= 1

    def __len__(self):
        raise looprule.Unavailable("len() of the request list must be a Python int")


class Product:
    def __init__(self, args):
        self.args = args


class ItertoolsStub:
    @staticmethod
    def product(*args):
        if len(args) == 3 and isinstance(args[0], list) and len(args[0]) == 1 and isinstance(args[0][0], AbsStrain) and isinstance(args[1], ReqSeq) and args[2] == [None]:
            return Product(args)
        raise core.OutsideSubset("itertools.product%r" % (args,))


def list_stub(x=()):
    if isinstance(x, Product):
        lv = live()
        s0 = x.args[0][0].z
        lv.QS = lambda p: s0
        lv.QK = lambda p: KEYS(p)
        lv.QD = lambda p: z3.IntVal(-1)
        lv.L = NREQ
        lv.events.append(("init_queue",))
        return WorkList()
    return list(x)


def enumerate_stub(x, start=0):
    if isinstance(x, TaskList):
        if start != 0:
            raise core.OutsideSubset("enumerate(tasks, %r)" % (start,))
        return ((SInt(t.index), t) for t in x)
    return enumerate(x, start)


def generic_initial_queue(v):
    """a real one-element list [(strain0, KEYS(g), None)] produced by a comprehension over the request list"""
    return isinstance(v, list) and len(v) == 1 and isinstance(v[0], tuple) and len(v[0]) == 3 and isinstance(v[0][0], AbsStrain) and isinstance(v[0][1], AbsKey) \
        and v[0][2] is None and z3.eq(v[0][0].z, STRAIN0) and z3.eq(v[0][1].z, KEYS(GREQ))


def len_stub(x):
    if isinstance(x, WorkList):
        return SInt(live().L)
    if isinstance(x, TaskList):
        return SInt(live().N)
    return len(x)


def search_sites(loop_body, tasks_name):
    """syntactic side condition of TaskList.__iter__: every iteration over the task list in the loop body is `next((t for t in tasks if <test>), <default>)` whose element
    is the loop variable.  Returns the list of test expressions (source text)."""
    tests = []
    parents = {}
    for st in loop_body:
        for n in ast.walk(st):
            for c in ast.iter_child_nodes(n):
                parents[c] = n
    for st in loop_body:
        for n in ast.walk(st):
            its = []
            if isinstance(n, (ast.For, ast.AsyncFor)):
                its = [(n.iter, n)]
            elif isinstance(n, (ast.ListComp, ast.SetComp, ast.GeneratorExp, ast.DictComp)):
                its = [(g.iter, n) for g in n.generators]
            for it, owner in its:
                enum = isinstance(it, ast.Call) and isinstance(it.func, ast.Name) and it.func.id == "enumerate" and len(it.args) == 1 and isinstance(it.args[0], ast.Name) \
                    and it.args[0].id == tasks_name
                if (isinstance(it, ast.Name) and it.id == tasks_name) or enum:
                    ok = isinstance(owner, ast.GeneratorExp) and len(owner.generators) == 1 and len(owner.generators[0].ifs) == 1 and isinstance(owner.elt, ast.Name)
                    tgt = owner.generators[0].target if ok else None
                    if ok and enum:
                        ok = isinstance(tgt, ast.Tuple) and len(tgt.elts) == 2 and all(isinstance(e, ast.Name) for e in tgt.elts) and owner.elt.id in (tgt.elts[0].id, tgt.elts[1].id)
                    elif ok:
                        ok = isinstance(tgt, ast.Name) and owner.elt.id == tgt.id
                    call = parents.get(owner)
                    ok = ok and isinstance(call, ast.Call) and isinstance(call.func, ast.Name) and call.func.id == "next" and call.args and call.args[0] is owner
                    if not ok:
                        raise core.OutsideSubset("the task list is iterated outside a first-match search: %s" % ast.unparse(owner)[:80])
                    tests.append(ast.unparse(owner.generators[0].ifs[0]))
    return tests
