"""Abstract state for the loop rule on PhononContributionTaskList.calculate and for the real PhononContributionTaskResults look-ups it performs.

Tasks are classes of their parameters (contracts/tasks_loop_env.py).  A shear task of class c asks for two groups of results:
  group 1:  strain S1(c),          keys K1(c, j), 0 <= j < NK1(c)        (calculator.strain,         get_modulus_keys())
  group 2:  strain S2(c),          keys K2(c, j), 0 <= j < NK2(c)        (calculator.strain_rotated, get_modulus_keys_rotated())
D1(c, j) = CLS(S1(c), K1(c, j)), D2(c, j) = CLS(S2(c), K2(c, j)) are the classes of its dependencies (that get_dependencies() lists exactly these pairs is checked on the
real classes for the 15 shear keys).  Values live in an uninterpreted sort Val; a dictionary of looked-up results is an array Int -> Val (position j = j-th key of the group):

  non-shear task:  isothermal value NST(c), adiabatic value NSS(c)                       (contract stubs of the C01/C02 contributions: functions of the class)
  shear task:      isothermal value SHT(c, d1, d2), adiabatic value SHS(c, d1, d2)       (the solver of C03 is a function of the key, the strain and the two dictionaries)
  canonical value: VALT(c) = NST(c) | SHT(c, CAN1(c), CAN2(c)),   CAN1(c)[j] = VALT(D1(c, j)) ...   (well-founded: RANK decreases along D1 / D2)

The two result stores are class-keyed maps (HAS, GET); PhononContributionTaskResults' real __setitem__ / __getitem__ / get_results_by_strain_keys run on them:
`self.data[params] = value` is recorded, `self.data.items()` offers ONE generic stored item to the first-match search `next(v for p, v in items if p == params)`.
"""
import ast
import z3
from vf import core, looprule, symnp
from vf.symnp import SB
from contracts.evec_env import SInt
from contracts.tasks_loop_env import Strain, Key, Cls, CLS, AbsStrain, AbsKey, I

Val = z3.DeclareSort("Val")
Tok = z3.ArraySort(I, Val)
DEF = z3.Const("NoVal", Val)
ISSHEAR = z3.Function("ISSHEAR", Cls, z3.BoolSort())
S1, S2 = z3.Function("S1", Cls, Strain), z3.Function("S2", Cls, Strain)
NK1, NK2 = z3.Function("NK1", Cls, I), z3.Function("NK2", Cls, I)
K1, K2 = z3.Function("K1", Cls, I, Key), z3.Function("K2", Cls, I, Key)
NST, NSS = z3.Function("NST", Cls, Val), z3.Function("NSS", Cls, Val)
SHT, SHS = z3.Function("SHT", Cls, Tok, Tok, Val), z3.Function("SHS", Cls, Tok, Tok, Val)
VALT, VALS = z3.Function("VALT", Cls, Val), z3.Function("VALS", Cls, Val)
CAN1, CAN2 = z3.Function("CAN1", Cls, Tok), z3.Function("CAN2", Cls, Tok)


def D1(c, j):
    return CLS(S1(c), K1(c, j))


def D2(c, j):
    return CLS(S2(c), K2(c, j))


def value_axioms():
    c, j = z3.Const("c_", Cls), z3.Int("j_")
    return [z3.ForAll([c], z3.And(NK1(c) >= 0, NK2(c) >= 0)),
            z3.ForAll([c], z3.If(ISSHEAR(c), z3.And(VALT(c) == SHT(c, CAN1(c), CAN2(c)), VALS(c) == SHS(c, CAN1(c), CAN2(c))), z3.And(VALT(c) == NST(c), VALS(c) == NSS(c)))),
            z3.ForAll([c, j], CAN1(c)[j] == z3.If(z3.And(j >= 0, j < NK1(c)), VALT(D1(c, j)), DEF)),
            z3.ForAll([c, j], CAN2(c)[j] == z3.If(z3.And(j >= 0, j < NK2(c)), VALT(D2(c, j)), DEF))]


class Live:
    def __init__(self, hasT, getT, hasS, getS):
        self.has = {"T": hasT, "S": hasS}
        self.get = {"T": getT, "S": getS}
        self.events, self.facts, self.schemas, self.bounds = [], [], [], []
        self.search_done = False
        self.generic = None            # (group, class, j) while a key sequence is being iterated
        self.on_generic = None         # hook: facts about the generic key index are added to the active path facts


LIVE = [None]


def live():
    return LIVE[0]


class ValTok:
    def __init__(self, z):
        self.z = z


class AbsParams:
    """stands in for PhononContributionTaskParams while the real methods of the results class run"""

    def __init__(self, cls, candidate=None):
        self.cls, self.candidate = cls, candidate

    @staticmethod
    def create(strain, key):
        if not isinstance(strain, AbsStrain) or not isinstance(key, AbsKey):
            raise core.OutsideSubset("PhononContributionTaskParams.create(%r, %r)" % (strain, key))
        return AbsParams(CLS(strain.z, key.z))

    def _cmp(self, o, neg):
        if not isinstance(o, AbsParams):
            return NotImplemented
        z = (self.cls != o.cls) if neg else (self.cls == o.cls)
        cand = self.candidate or o.candidate
        if cand is not None:
            return StoreSearch(z, cand, o.cls if self.candidate else self.cls)
        return SB(z)

    def __eq__(self, o):
        return self._cmp(o, False)

    def __ne__(self, o):
        return self._cmp(o, True)

    __hash__ = None


class StoreSearch:
    """test of the first-match search over a result store, evaluated on the generic stored item: found <=> the store has the class looked for"""

    def __init__(self, z, cand, wanted):
        self.z, self.cand, self.wanted = z, cand, wanted

    def __bool__(self):
        lv = live()
        which, x, _vt = self.cand
        if lv.search_done:
            raise core.OutsideSubset("more than one test per candidate in a store look-up")
        lv.search_done = True
        found = lv.has[which](self.wanted)
        lv.events.append(("lookup", which, self.wanted))
        lv.facts.append(z3.Implies(found, x == self.wanted))
        ok = symnp.truth(found)
        if ok:
            self.cand[2].z = lv.get[which](self.wanted)          # the value that goes with the first matching key
        return ok


class AbsStore:
    """the `data` dictionary of a PhononContributionTaskResults"""

    def __init__(self, which):
        self.which = which

    def __setitem__(self, key, value):
        lv = live()
        if not isinstance(key, AbsParams) or not isinstance(value, ValTok):
            raise core.OutsideSubset("result store entry %r -> %r" % (key, value))
        c0, v0 = key.cls, value.z
        oh, og = lv.has[self.which], lv.get[self.which]
        lv.has[self.which] = lambda c, oh=oh: z3.Or(oh(c), c == c0)
        lv.get[self.which] = lambda c, og=og: z3.If(c == c0, v0, og(c))
        lv.events.append(("store", self.which, c0, v0))

    def items(self):
        lv = live()
        lv.search_done = False
        x = z3.Const("x!%d" % len(lv.events), Cls)
        vt = ValTok(None)
        yield (AbsParams(x, candidate=(self.which, x, vt)), vt)

    def __iter__(self):
        raise core.OutsideSubset("iteration over a result store")

    def __len__(self):
        raise looprule.Unavailable("len() of a result store")


class KeySeq:
    """get_modulus_keys() / get_modulus_keys_rotated() of a shear task (group 1 / 2), or the request list (group 0): iterating offers one generic key"""

    def __init__(self, group, c=None):
        self.group, self.c = group, c

    def term(self, j):
        from contracts.tasks_loop_env import KEYS
        return {0: lambda: KEYS(j), 1: lambda: K1(self.c, j), 2: lambda: K2(self.c, j)}[self.group]()

    def count(self):
        from contracts.tasks_loop_env import NREQ
        return {0: lambda: NREQ, 1: lambda: NK1(self.c), 2: lambda: NK2(self.c)}[self.group]()

    def __iter__(self):
        lv = live()
        if lv.generic is not None:
            raise core.OutsideSubset("nested iteration over key lists")
        j = z3.Int("j!%d" % len(lv.events))
        lv.generic = (self.group, self.c, j)
        lv.events.append(("iterate_keys", self.group, self.c, j))
        if lv.on_generic:
            lv.on_generic(self.group, self.c, j)
        try:
            yield AbsKey(self.term(j))
        finally:
            lv.generic = None

    def __len__(self):
        raise looprule.Unavailable("len() of a key list")


class CalcType:
    def __init__(self, c):
        self.c = c

    def _is_shear(self, other):
        name = getattr(other, "name", None)
        if name == "SHEAR":
            return ISSHEAR(self.c)
        if name in ("LONGITUDINAL", "OFF_DIAGONAL"):
            raise core.OutsideSubset("comparison of a task's calc type with %s" % name)
        raise core.OutsideSubset("comparison of a task's calc type with %r" % (other,))

    def __eq__(self, other):
        return SB(self._is_shear(other))

    def __ne__(self, other):
        return SB(z3.Not(self._is_shear(other)))

    def __hash__(self):
        raise core.OutsideSubset("a task's calc type used as a dictionary / set key")


class ShearCalc:
    def __init__(self, c):
        self.c = c

    @property
    def strain(self):
        return AbsStrain(S1(self.c))

    @property
    def strain_rotated(self):
        return AbsStrain(S2(self.c))

    def get_modulus_keys(self):
        return KeySeq(1, self.c)

    def get_modulus_keys_rotated(self):
        return KeySeq(2, self.c)


def dict_token(d, group, c):
    """a dictionary built by a map over a key list of symbolic length (one generic entry) -> (array term, the key term of the generic entry, j)"""
    if not isinstance(d, dict) or len(d) != 1:
        raise core.OutsideSubset("dictionary of looked-up results: %r" % (d,))
    (k, v), = d.items()
    if not isinstance(k, AbsKey) or not isinstance(v, ValTok):
        raise core.OutsideSubset("dictionary of looked-up results has entry %r -> %r" % (k, v))
    js = [e[3] for e in live().events if e[0] == "iterate_keys" and e[1] == group and z3.eq(e[2], c)]
    if not js:
        raise core.OutsideSubset("dictionary not built from the key list of group %d" % group)
    j = js[-1]
    n = NK1(c) if group == 1 else NK2(c)
    jj = z3.Int("jj")
    arr = z3.Lambda([jj], z3.If(z3.And(jj >= 0, jj < n), z3.substitute(v.z, (j, jj)), DEF))
    return arr, k.z, j


class CalcTask:
    """element of self.data: the task of class c"""

    def __init__(self, c):
        self.c = c
        self.calculator = ShearCalc(c)

    @property
    def calc_type(self):
        return CalcType(self.c)

    @property
    def task_params(self):
        return AbsParams(self.c)

    def _value(self, sh, ns, what):
        lv = live()
        if symnp.truth(ISSHEAR(self.c)):
            if not hasattr(self, "modulus_results") or not hasattr(self, "modulus_results_rotated"):
                raise AssertionError("REFUTE: the %s value of a shear task is asked for before its dependency results were assigned" % what)
            t1, k1, j1 = dict_token(self.modulus_results, 1, self.c)
            t2, k2, j2 = dict_token(self.modulus_results_rotated, 2, self.c)
            lv.bounds.append(("the dictionaries handed to the shear solver are keyed by get_modulus_keys() / get_modulus_keys_rotated()", z3.And(k1 == K1(self.c, j1), k2 == K2(self.c, j2))))
            lv.events.append(("shear_value", what, self.c))
            return ValTok(sh(self.c, t1, t2))
        lv.events.append(("nonshear_value", what, self.c))
        return ValTok(ns(self.c))

    def get_modulus_isothermal(self):
        return self._value(SHT, NST, "isothermal")

    def get_modulus_adiabatic(self):
        return self._value(SHS, NSS, "adiabatic")


class DataSeq:
    """self.data after resolve(): N tasks, position g holds the task ORD(g)"""

    def __len__(self):
        raise looprule.Unavailable("len() of the task list")

    def __iter__(self):
        raise looprule.Unavailable("iteration over the task list outside the loop under the rule")


def map_shape(func):
    """syntactic side condition of KeySeq.__iter__ inside get_results_by_strain_keys: the method is an element-wise map key -> self[create(strain, key)] into a fresh
    dictionary (a for loop whose body only assigns locals and results[key], or a dictionary comprehension without filter)"""
    import inspect, textwrap
    tree = ast.parse(textwrap.dedent(inspect.getsource(func))).body[0]
    loops = [n for n in ast.walk(tree) if isinstance(n, (ast.For, ast.DictComp, ast.ListComp, ast.GeneratorExp, ast.While))]
    if len(loops) != 1:
        raise core.OutsideSubset("get_results_by_strain_keys has %d loops / comprehensions" % len(loops))
    lp = loops[0]
    if isinstance(lp, ast.DictComp):
        if len(lp.generators) != 1 or lp.generators[0].ifs:
            raise core.OutsideSubset("dictionary comprehension with a filter / several generators")
        return "dictionary comprehension"
    if isinstance(lp, ast.For) and not lp.orelse:
        for st in lp.body:
            ok = isinstance(st, ast.Assign) and len(st.targets) == 1 and (isinstance(st.targets[0], ast.Name) or (
                isinstance(st.targets[0], ast.Subscript) and isinstance(st.targets[0].value, ast.Name)))
            if not ok:
                raise core.OutsideSubset("loop body of get_results_by_strain_keys is not a sequence of plain assignments: %s" % ast.unparse(st)[:60])
        return "for loop of assignments"
    raise core.OutsideSubset("get_results_by_strain_keys is not an element-wise map")
