"""Real numpy with symbolic scalars inside object arrays (partial-concrete runs of shear.py / tasks.py).

`NumpyProxy(real)` forwards every attribute to real numpy except the handful of functions that would branch on, or
cannot hold, symbolic values:
  isclose / allclose / abs  on Sc           -> symbolic conditions (forked by symnp.Paths) / exact-equality decision
  zeros                     (symbolic mode) -> object array, so that symbolic entries can be stored
  einsum('...ii->...i', a)  on object array -> writable diagonal view
  sum                       on object array -> python-level sum (keeps Sc)
"""
import numpy as _np
import z3
from vf import symnp, smt, core
from vf.symnp import Sc, SB


def has_sym(x):
    if isinstance(x, Sc):
        return True
    if isinstance(x, _np.ndarray) and x.dtype == object:
        return any(isinstance(v, Sc) for v in x.ravel().tolist())
    if isinstance(x, (tuple, list)):
        return any(has_sym(v) for v in x)
    return False


class _DiagView:
    def __init__(self, base):
        self.base = base

    def __setitem__(self, key, value):
        if key is not Ellipsis:
            raise core.OutsideSubset("diag view assignment with key %r" % (key,))
        value = _np.asarray(value, dtype=object)
        n = self.base.shape[-1]
        v = _np.broadcast_to(value, self.base.shape[:-1])
        for i in range(n):
            self.base[..., i, i] = v[..., i]


class NumpyProxy:
    def __init__(self, real=_np, symbolic_zeros=False, facts=()):
        self._real = real
        self._symbolic_zeros = symbolic_zeros
        self._facts = list(facts)

    def __getattr__(self, name):
        return getattr(self._real, name)

    # -- closeness
    def isclose(self, a, b, rtol=1e-05, atol=1e-08, equal_nan=False):
        if isinstance(a, Sc) or isinstance(b, Sc):
            az, bz = symnp.term(a), symnp.term(b)
            absb = z3.If(bz >= 0, bz, -bz)
            d = az - bz
            lim = symnp.rat(atol) + symnp.rat(rtol) * absb
            return SB(z3.And(d <= lim, -d <= lim))
        return self._real.isclose(a, b, rtol=rtol, atol=atol, equal_nan=equal_nan)

    def allclose(self, a, b, rtol=1e-05, atol=1e-08, equal_nan=False):
        if isinstance(a, Sc) or isinstance(b, Sc):
            return bool(self.isclose(a, b, rtol=rtol, atol=atol))
        if has_sym(a) or has_sym(b):
            return self._same(a, b)
        return self._real.allclose(a, b, rtol=rtol, atol=atol, equal_nan=equal_nan)

    def _same(self, a, b):
        """arrays of symbolic expressions are `close` iff they are equal as functions of the symbols (decided by the
        solver under the recorded facts); expressions that differ for generic values are not close"""
        try:
            A = _np.asarray(a, dtype=object)
            B = _np.asarray(b, dtype=object)
            A, B = _np.broadcast_arrays(A, B)
        except Exception:
            return False
        eqs = []
        for x, y in zip(A.ravel().tolist(), B.ravel().tolist()):
            eqs.append(symnp.term(x) == symnp.term(y))
        r = smt.prove(z3.And(*eqs) if eqs else z3.BoolVal(True), self._facts, timeout_ms=3000, fallback=False)
        return r.status == core.PROVED

    def abs(self, a):
        if isinstance(a, Sc):
            return Sc(z3.If(a.z >= 0, a.z, -a.z))
        return self._real.abs(a)

    absolute = fabs = abs

    def all(self, a, *args, **kw):
        if isinstance(a, SB):
            return a
        return self._real.all(a, *args, **kw)

    any = all

    # -- containers
    def zeros(self, shape, dtype=None, **kw):
        if self._symbolic_zeros and dtype is None:
            a = self._real.empty(shape, dtype=object)
            a[...] = 0.0
            return a
        return self._real.zeros(shape, dtype=dtype, **kw) if dtype is not None else self._real.zeros(shape, **kw)

    def einsum(self, spec, *ops, **kw):
        if len(ops) == 1 and isinstance(ops[0], _np.ndarray) and ops[0].dtype == object and spec.replace(" ", "") == "...ii->...i":
            return _DiagView(ops[0])
        return self._real.einsum(spec, *ops, **kw)

    def sum(self, a, axis=None, **kw):
        if isinstance(a, _np.ndarray) and a.dtype == object and axis is not None and not kw:
            moved = _np.moveaxis(a, axis, 0)
            tot = moved[0]
            for k in range(1, moved.shape[0]):
                tot = tot + moved[k]
            return tot
        return self._real.sum(a, axis=axis, **kw)
