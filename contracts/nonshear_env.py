"""Symbolic environment for cij/core/phonon_contribution/nonshear.py (shared by C01, C02, C12, C13).

The real classes/functions are imported from /repo; for the duration of a run the module globals `numpy`,
`units` and `h_div_k` are rebound to stubs (in the checker process only) and restored afterwards.
"""
import contextlib, importlib, types
import z3
from vf import symnp, core
from vf.symnp import SymArr, Sc, Dim, SymNumpy

# physical constants as symbols: HK = hc/k_B [cm K], K_RY = k_B [Ry/K], H_RY = hc [Ry cm]; HK*K_RY = H_RY is
# checked numerically against independent CODATA values (obligation C01.constants)
HK, K_RY, H_RY = z3.Reals("HK K_RY H_RY")
CONST_FACTS = [HK > 0, K_RY > 0, H_RY > 0, HK * K_RY == H_RY]


def constant_globals(m):
    """module-level float globals of nonshear.py whose value is hc [Ry cm], k_B [Ry/K] or hc/k_B [cm K] as the module's own unit registry converts them (a refactoring
    may convert them once at import instead of in every property body): name -> the symbol the contract uses for that constant"""
    try:
        u = m.units
        real = {"H_RY": (u.Quantity(m._h, u.J * u.m).to(u.rydberg * u.cm).magnitude, H_RY), "K_RY": (u.Quantity(m._k, u.eV / u.K).to(u.rydberg / u.K).magnitude, K_RY),
                "HK": (u.Quantity(m._h / m._k, u.J * u.m / u.eV * u.K).to(u.cm * u.K).magnitude, HK)}
    except Exception:
        return {}
    out = {}
    for name, val in list(vars(m).items()):
        if isinstance(val, float) and name not in ("_h", "_k", "h_div_k"):
            for v, sym in real.values():
                if v != 0 and abs(val - v) <= 1e-12 * abs(v):
                    out[name] = Sc(sym)
    return out


class _Unit:
    def __init__(self, exps):
        self.exps = {k: v for k, v in exps.items() if v}

    def __mul__(self, o):
        d = dict(self.exps)
        for k, v in o.exps.items():
            d[k] = d.get(k, 0) + v
        return _Unit(d)

    def __truediv__(self, o):
        d = dict(self.exps)
        for k, v in o.exps.items():
            d[k] = d.get(k, 0) - v
        return _Unit(d)

    def key(self):
        return tuple(sorted(self.exps.items()))


class _Quantity:
    def __init__(self, stub, value, unit):
        self.stub, self.value, self.unit = stub, value, unit

    def to(self, unit):
        k = (self.stub.name_of(self.value), self.unit.key(), unit.key())
        if k not in self.stub.table:
            raise core.OutsideSubset("unit conversion %r is not part of the contract" % (k,))
        return types.SimpleNamespace(magnitude=Sc(self.stub.table[k]))


class UnitsStub:
    """pint registry stub: only the three conversions the module performs are known; each yields a named constant"""

    def __init__(self, mod):
        self.mod = mod
        for n in ("J", "m", "eV", "K", "rydberg", "cm"):
            setattr(self, n, _Unit({n: 1}))
        U = lambda **kw: _Unit(kw).key()
        self.table = {
            ("_h/_k", U(J=1, m=1, eV=-1, K=1), U(cm=1, K=1)): HK,
            ("_h", U(J=1, m=1), U(rydberg=1, cm=1)): H_RY,
            ("_k", U(eV=1, K=-1), U(rydberg=1, K=-1)): K_RY,
        }

    def name_of(self, value):
        if value is self.mod._h or value == self.mod._h:
            return "_h"
        if value is self.mod._k or value == self.mod._k:
            return "_k"
        if value == self.mod._h / self.mod._k:
            return "_h/_k"
        raise core.OutsideSubset("unit conversion of an unknown value %r" % (value,))

    def Quantity(self, value, unit):
        return _Quantity(self, value, unit)


@contextlib.contextmanager
def patched(mod, **globs):
    """install contract stubs as module globals for the duration of a run.  When the replaced value is a function or a class,
    every other reference to that same object that the package holds at module level -- a name bound by `from x import f` in
    another cij module, an entry of a module-level dispatch dict / list, a functools.partial around it -- is redirected too:
    references bound earlier would otherwise bypass the stub."""
    import functools as _ft, sys as _sys, types as _types
    old = {k: mod.__dict__.get(k, _MISSING) for k in globs}
    undo = []
    targets = {id(v): globs[k] for k, v in old.items()
               if isinstance(v, (_types.FunctionType, type)) and v is not globs[k]}
    originals = {id(v): v for v in old.values() if id(v) in targets}

    def redirect(x):
        if id(x) in targets and x is originals[id(x)]:
            return targets[id(x)], True
        if isinstance(x, _ft.partial) and id(x.func) in targets and x.func is originals[id(x.func)]:
            return _ft.partial(targets[id(x.func)], *x.args, **x.keywords), True
        return x, False
    if targets:
        for name, m in list(_sys.modules.items()):
            if m is None or not (name == "cij" or name.startswith("cij.")) or not hasattr(m, "__dict__"):
                continue
            for gname, gval in list(m.__dict__.items()):
                if m is mod and gname in globs:
                    continue
                new, hit = redirect(gval)
                if hit:
                    undo.append((m.__dict__, gname, gval))
                    m.__dict__[gname] = new
                elif isinstance(gval, dict) and not gname.startswith("__"):
                    for k2, v2 in list(gval.items()):
                        new, hit = redirect(v2)
                        if hit:
                            undo.append((gval, k2, v2))
                            gval[k2] = new
                elif isinstance(gval, list):
                    for i2, v2 in enumerate(list(gval)):
                        new, hit = redirect(v2)
                        if hit:
                            undo.append((gval, i2, v2))
                            gval[i2] = new
    mod.__dict__.update(globs)
    try:
        yield
    finally:
        for k, v in old.items():
            if v is _MISSING:
                mod.__dict__.pop(k, None)
            else:
                mod.__dict__[k] = v
        for container, key, val in reversed(undo):
            container[key] = val


_MISSING = object()


@contextlib.contextmanager
def class_attr(cls, name, value):
    old = cls.__dict__.get(name, _MISSING)
    setattr(cls, name, value)
    try:
        yield
    finally:
        if old is _MISSING:
            delattr(cls, name)
        else:
            setattr(cls, name, old)


class Env:
    """symbolic inputs of the phonon-contribution classes"""

    def __init__(self):
        symnp.ATOMS.clear()
        self.nt, self.ntv, self.nq, self.np = Dim("nt"), Dim("ntv"), Dim("nq"), Dim("np")
        nt, ntv, nq, np_ = self.nt, self.ntv, self.nq, self.np
        pos = lambda idx, v: v > 0
        self.V = SymArr.atom("V", (ntv,), pos)
        self.T = SymArr.atom("T", (nt,), lambda idx, v: v >= 0)
        self.W = SymArr.atom("omega", (ntv, nq, np_), lambda idx, v: z3.Implies(z3.Not(z3.And(idx[1] == 0, idx[2] < 3)), v > 0))
        self.G = SymArr.atom("gamma", (ntv, nq, np_))
        self.G1 = SymArr.atom("vdgdv", (ntv, nq, np_))
        self.w = SymArr.atom("wq", (nq,), pos)
        self.e0 = SymArr.atom("e_i", (ntv,), pos)
        self.equal_e = False    # longitudinal components are built with e_i = e_j (tasks.py passes the same column twice)
        self.e1 = SymArr.atom("e_j", (ntv,), lambda idx, v: z3.And(v > 0, v == self.e0.elem(idx)) if self.equal_e else v > 0)
        self.P = SymArr.atom("Ptot", (nt, ntv))
        self.Pst = SymArr.atom("Pstatic", (ntv,))
        self.Cv = SymArr.atom("Cv", (nt, ntv), pos)
        self.na = z3.Int("na")
        self.na_r = z3.Real("rna")          # na as a real number; np = 3*na both as integers and as reals
        self.facts = list(CONST_FACTS) + [self.na >= 1, self.np.n == 3 * self.na, self.na_r >= 1, self.np.nr == 3 * self.na_r]
        self.nonshear = importlib.import_module("cij.core.phonon_contribution.nonshear")

    def calculator(self):
        e = self
        qha = types.SimpleNamespace(volume_base=types.SimpleNamespace(pressures=e.P, heat_capacity=e.Cv))
        return types.SimpleNamespace(
            qha_calculator=qha, nv=None, np=None, nq=None, na=Sc(e.na_r),
            v_array=e.V, t_array=e.T, freq_array=e.W, mode_gamma=[e.G1, e.G, e.G * e.G],
            qha_input=types.SimpleNamespace(weights=_NoIter()), static_p_array=e.Pst)

    @contextlib.contextmanager
    def active(self):
        """module globals rebound to the stubs; q_weights (python-level list iteration over a data size) replaced
        by its contract `returns the weight column as an array of shape (nq,)`, verified separately at sizes 1..8"""
        m = self.nonshear
        L = m.LongitudinalElasticModulusPhononContribution
        self._orig = dict(numpy=m.numpy, units=m.units, h_div_k=m.h_div_k, q_weights=L.__dict__["q_weights"])
        consts = constant_globals(m)           # module-level floats that ARE one of the three converted constants (computed at import): the same symbols
        self._orig.update({k: getattr(m, k) for k in consts})
        with patched(m, numpy=SymNumpy(), units=UnitsStub(m), h_div_k=Sc(HK), **consts), \
                class_attr(L, "q_weights", property(lambda s, w=self.w: w)):
            yield

    @contextlib.contextmanager
    def native(self):
        """the unpatched module (for native replays requested while the stubs are active)"""
        m = self.nonshear
        L = m.LongitudinalElasticModulusPhononContribution
        o = getattr(self, "_orig", None)
        if o is None:
            yield
            return
        with patched(m, **{k: v for k, v in o.items() if k != "q_weights"}), class_attr(L, "q_weights", o["q_weights"]):
            yield

    def make(self, kind):
        m = self.nonshear
        cls = {"longitudinal": m.LongitudinalElasticModulusPhononContribution,
               "off_diagonal": m.OffDiagonalElasticModulusPhononContribution}[kind]
        return cls(self.calculator(), (self.e0, self.e1))

    # ---- spec-side building blocks (from the property statement)
    def mask(self, q, m):
        return z3.And(q == 0, m >= 0, m < 3)

    def mode_sum(self, lead_shape, body):
        """sum_q w_q sum_m [not Gamma-acoustic] body(lead idx, q, m) / sum_q w_q   as an array of shape lead_shape"""
        nq, np_ = self.nq, self.np
        full = SymArr(tuple(lead_shape) + (nq, np_),
                      lambda idx: z3.If(self.mask(idx[-2], idx[-1]), z3.RealVal(0), body(idx[:-2], idx[-2], idx[-1])))
        inner = symnp.make_sum(full, len(lead_shape) + 1)
        k = len(lead_shape)
        wb = SymArr(tuple(lead_shape) + (nq,), lambda idx: self.w.elem((idx[-1],)))
        num = symnp.make_sum(inner * wb, k)
        den = symnp.make_sum(self.w, 0)
        return num / den


class _NoIter:
    def __iter__(self):
        raise core.OutsideSubset("python-level iteration over the q-point list (size is data); q_weights is under a "
                                 "separate size-enumerated contract")


def duck_of(cls, **attrs):
    """an object that is `self` for the real methods of `cls` without running its __init__: the given attributes shadow
    whatever the class defines under those names (properties included), everything else -- helper methods a refactoring
    may introduce -- resolves to the real class.  Plain functions given as attributes are called without self, as they
    would be on an instance attribute."""
    import types as _types
    ns = {}
    for k, v in attrs.items():
        ns[k] = staticmethod(v) if isinstance(v, (_types.FunctionType, _types.LambdaType, _types.BuiltinFunctionType)) else v

    def __setattr__(self, name, value):
        d = getattr(type(self), name, None)
        if hasattr(type(d), "__set__") or isinstance(d, property):
            setattr(type(self), name, value)
        else:
            object.__setattr__(self, name, value)
    ns["__setattr__"] = __setattr__
    ns["__init__"] = lambda self, *a, **k: None
    if "__getattr__" in cls.__dict__ or any("__getattr__" in b.__dict__ for b in cls.__mro__[1:-1]):
        real_getattr, busy = cls.__getattr__, set()

        def __getattr__(self, name):
            # a delegating __getattr__ (self.qha_calculator.<name>) must not recurse when its delegate is absent too
            if name in busy:
                raise AttributeError(name)
            busy.add(name)
            try:
                return real_getattr(self, name)
            except RecursionError:
                raise AttributeError(name)
            finally:
                busy.discard(name)
        ns["__getattr__"] = __getattr__
    sub = type("DuckOf" + cls.__name__, (cls,), ns)
    return object.__new__(sub)
