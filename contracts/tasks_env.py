"""Harness for cij/core/tasks.py (C02, C04): the REAL scheduler and the REAL shear solver run with the non-shear
contribution classes replaced -- in the checker process, inside tasks' namespace -- by contract stubs whose
isothermal and adiabatic results are distinct symbolic atoms indexed by (type, strain pair).
"""
import contextlib, importlib, types
import numpy
import z3
from vf.symnp import Sc
from contracts.nonshear_env import patched

_atoms = {}


def atom(kind, which, e):
    """one real symbol per (contribution type, which value, strain-fraction pair)"""
    key = (kind, which, tuple(round(float(x), 10) for x in numpy.ravel(e[0])), tuple(round(float(x), 10) for x in numpy.ravel(e[1])))
    if key not in _atoms:
        _atoms[key] = z3.Real("%s_%s_%d" % (kind, which, len(_atoms)))
    return Sc(_atoms[key])


class _Stub:
    kind = "?"

    def __init__(self, calculator, e):
        self.calculator, self.e = calculator, e
        LOG.append((self.kind, tuple(numpy.ravel(e[0])), tuple(numpy.ravel(e[1]))))

    @property
    def value_isothermal(self):
        return atom(self.kind, "T", self.e)

    @property
    def value_adiabatic(self):
        return atom(self.kind, "S", self.e)


class LongStub(_Stub):
    kind = "L"


class OffStub(_Stub):
    kind = "O"


LOG = []


@contextlib.contextmanager
def stubbed():
    tasks = importlib.import_module("cij.core.tasks")
    with patched(tasks, LongitudinalElasticModulusPhononContribution=LongStub,
                 OffDiagonalElasticModulusPhononContribution=OffStub):
        yield tasks


def run_tasks(strain, keys):
    """resolve + calculate on the real PhononContributionTaskList; returns (task list, isothermal dict, adiabatic dict)"""
    with stubbed() as tasks:
        tl = tasks.PhononContributionTaskList(types.SimpleNamespace())
        tl.resolve(numpy.asarray(strain, dtype=float), list(keys))
        tl.calculate()
        return tl, tl.get_isothermal_results(), tl.get_adiabatic_results()


def all_keys():
    from cij.util import c_
    return [c_(i, j) for i in range(1, 7) for j in range(i, 7)]


def uses_only(term, which):
    """all stub atoms occurring in a z3 term are of kind `which` ('T' or 'S')"""
    from vf.symnp import subterms
    names = [x.decl().name() for x in subterms(term, lambda x: z3.is_const(x) and x.decl().kind() == z3.Z3_OP_UNINTERPRETED)]
    return all(("_%s_" % which) in n for n in names if n[:2] in ("L_", "O_")), names
