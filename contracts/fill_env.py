"""Harness for cij/util/fill.py (C08, C09, C14): the REAL fill_cij is executed with its module global `numpy`
rebound (checker process only) to a proxy that records -- and, for the symbolic runs, replaces -- the call to
numpy.linalg.lstsq and the vanishing-column test numpy.allclose."""
import importlib, types
import numpy
import pandas
import z3
from vf import core, symnp
from vf.symnp import Sc, SB
from contracts.nonshear_env import patched
from contracts.np_proxy import NumpyProxy, has_sym

SYSTEMS = ["triclinic", "monoclinic", "orthorhombic", "tetragonal7", "tetragonal6", "trigonal7", "trigonal6", "hexagonal", "cubic"]
NAMES = ["c%d%d" % (i, j) for i in range(1, 7) for j in range(i, 7)]


def fill_module():
    return importlib.import_module("cij.util.fill")


class _LinalgRec:
    def __init__(self, owner, real):
        self.owner, self.real = owner, real

    def lstsq(self, a, b, rcond="warn"):
        self.owner.calls.append({"a": a, "b": b, "rcond": rcond})
        if self.owner.lstsq_stub is not None:
            return self.owner.lstsq_stub(a, b, rcond)
        return self.real.lstsq(a, b, rcond=rcond)

    def __getattr__(self, name):
        return getattr(self.real, name)


class FillNumpy(NumpyProxy):
    """real numpy + recording of lstsq / allclose; optional symbolic stubs"""

    def __init__(self, lstsq_stub=None, allclose_stub=None):
        super().__init__(numpy)
        self.calls = []
        self.allclose_calls = []
        self.lstsq_stub = lstsq_stub
        self.allclose_stub = allclose_stub
        self.linalg = _LinalgRec(self, numpy.linalg)

    def allclose(self, a, b, rtol=1e-05, atol=1e-08, equal_nan=False):
        self.allclose_calls.append({"a": a, "b": b, "atol": atol, "rtol": rtol})
        if self.allclose_stub is not None:
            return self.allclose_stub(a, b, atol)
        return numpy.allclose(a, b, rtol=rtol, atol=atol, equal_nan=equal_nan)

    def any(self, a, *args, **kw):
        if isinstance(a, numpy.ndarray) and a.dtype == object:
            items = a.ravel().tolist()
            if any(isinstance(x, SB) for x in items):
                # python semantics of any(): evaluate in order, stop at the first true element (forks via Paths)
                for x in items:
                    if bool(x):
                        return True
                return False
        if isinstance(a, SB):
            return bool(a)
        return numpy.any(a, *args, **kw)

    def sum(self, a, axis=None, **kw):
        return NumpyProxy.sum(self, a, axis=axis, **kw)


def run_real(df, system, cwd=None, **kw):
    """real fill_cij with real numerics, recording the lstsq call. Returns (proxy, ('return', df) | ('raise', exc))"""
    m = fill_module()
    proxy = FillNumpy()
    with patched(m, numpy=proxy):
        try:
            out = ("return", m.fill_cij(df, system, **kw))
        except Warning as e:
            out = ("raise", e)
        except Exception as e:
            out = ("error", e)
    return proxy, out


def relation_matrix(system):
    """the relation rows as the code builds them: lstsq's `a` below the supplied-value rows (captured from a real run
    with one supplied column)"""
    df = pandas.DataFrame({"c11": [1.0]})
    proxy, out = run_real(df, system, ignore_rank=True, ignore_residuals=True)
    if not proxy.calls:
        return numpy.zeros((0, 21)), numpy.zeros((0, 1))
    a, b = proxy.calls[0]["a"], proxy.calls[0]["b"]
    return numpy.asarray(a[1:], dtype=float), numpy.asarray(b[1:], dtype=float)


# ------------------------------------------------------------------------------------------ symbolic runs
RANK = z3.Real("RANK")


def sym_frame(columns, nvol, extra=()):
    """DataFrame with object dtype whose modulus columns hold symbolic scalars b_<col>_<v>"""
    data = {}
    for col in extra:
        data[col] = numpy.array([Sc(z3.Real("%s_%d" % (col, v))) for v in range(nvol)], dtype=object)
    for col in columns:
        data[col] = numpy.array([Sc(z3.Real("b_%s_%d" % (col, v))) for v in range(nvol)], dtype=object)
    return pandas.DataFrame(data)


def symbolic_run(system, columns, nvol=1, dropped=(), extra=(), order=None, max_paths=64, **kw):
    """real fill_cij on a symbolic table; lstsq replaced by its contract stub (solution X, rank RANK symbolic).
    `dropped`: the set of output columns for which the vanishing test is to answer True.
    Returns list of dicts {pc, kind, value|exc, proxy, df_in, X}"""
    m = fill_module()
    cols = list(extra) + list(columns)
    if order:
        cols = order
    X = numpy.array([[Sc(z3.Real("x_%s_%d" % (n, v))) for v in range(nvol)] for n in NAMES], dtype=object)
    results = []

    def thunk():
        df = sym_frame(columns, nvol, extra)[cols]
        def lstsq_stub(a, b, rcond):
            return X, numpy.array([], dtype=object), Sc(RANK), None

        def allclose_stub(a, b, atol):
            # identify which output column is being tested by its first element
            for name in list(df_holder["df"].columns) + NAMES:
                pass
            return _which_column(a, X, df, dropped)
        proxy = FillNumpy(lstsq_stub=lstsq_stub, allclose_stub=allclose_stub)
        df_holder["df"] = df
        with patched(m, numpy=proxy):
            try:
                out = ("return", m.fill_cij(df, system, **kw))
            except Warning as e:
                out = ("raise", e)
        return out, proxy, df
    df_holder = {}
    paths = symnp.Paths([RANK >= 0, RANK <= 21], max_paths=max_paths)
    for pc, (out, proxy, df) in paths.run(thunk):
        results.append({"pc": pc, "kind": out[0], "value": out[1], "proxy": proxy, "df_in": sym_frame(columns, nvol, extra)[cols],
                        "X": X, "columns_in": list(cols)})   # fill_cij adds columns to the caller's frame in place: keep a pristine copy
    return results


def _which_column(a, X, df, dropped):
    """the vanishing test is applied to one column of the table: answer True iff that column is in `dropped`.
    Columns are recognised by object identity of their first entry (solution row or pass-through column)."""
    arr = numpy.asarray(a, dtype=object).ravel()
    first = arr[0] if arr.size else None
    for k, name in enumerate(NAMES):
        if isinstance(first, Sc) and first.z.eq(X[k][0].z):
            return name in dropped
    for col in df.columns:
        v = df[col].to_numpy()[0]
        if isinstance(first, Sc) and isinstance(v, Sc) and first.z.eq(v.z):
            return ("col:" + str(col)) in dropped
    return False
