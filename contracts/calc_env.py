"""End-to-end harness: the real cij.core.calculator.Calculator on the shipped example data (akimotoite: trigonal7 with
c14, c15; diopside: monoclinic with c15, c25, c35, c46) or on re-presented / synthetic copies of them, built in a
temporary directory that is removed afterwards.  Used by the bounded stand-ins of C05, C06, C12, C13, C15."""
import copy, os, shutil, tempfile, warnings
import numpy
import yaml
from vf import core

EXAMPLES = {"akimotoite": ("input01", "input02"), "diopside": ("input01", "input02")}
_cache = {}


def example_dir(name):
    return os.path.join(core.REPO, "examples", name)


def load_settings(name):
    with open(os.path.join(example_dir(name), "settings.yaml")) as fp:
        return yaml.safe_load(fp)


def deep_update(d, u):
    for k, v in (u or {}).items():
        if isinstance(v, dict) and isinstance(d.get(k), dict):
            deep_update(d[k], v)
        else:
            d[k] = v
    return d


class Case:
    """a prepared input directory; build() constructs the real Calculator"""

    def __init__(self, example="akimotoite", settings=None, input01_text=None, elast_text=None):
        self.example = example
        self.dir = tempfile.mkdtemp(prefix="cijcase_")
        f1, f2 = EXAMPLES[example]
        src = example_dir(example)
        self.settings = deep_update(load_settings(example), settings)
        self.settings["qha"]["input"], self.settings["elast"]["input"] = "input01", "input02"
        t1 = input01_text if input01_text is not None else open(os.path.join(src, f1)).read()
        t2 = elast_text if elast_text is not None else open(os.path.join(src, f2)).read()
        with open(os.path.join(self.dir, "input01"), "w") as fp:
            fp.write(t1)
        with open(os.path.join(self.dir, "input02"), "w") as fp:
            fp.write(t2)
        with open(os.path.join(self.dir, "settings.yaml"), "w") as fp:
            yaml.safe_dump(self.settings, fp)
        self.calc = None

    def build(self):
        from cij.core.calculator import Calculator
        with warnings.catch_warnings(), numpy.errstate(all="ignore"):
            warnings.simplefilter("ignore")
            self.calc = Calculator(os.path.join(self.dir, "settings.yaml"))
        return self.calc

    def close(self):
        shutil.rmtree(self.dir, ignore_errors=True)

    def __enter__(self):
        return self

    def __exit__(self, *a):
        self.close()


def quiet(fn, *a, **k):
    with warnings.catch_warnings(), numpy.errstate(all="ignore"):
        warnings.simplefilter("ignore")
        return fn(*a, **k)
