"""End-to-end harness: the real cij.core.calculator.Calculator on the shipped example data (akimotoite: trigonal7 with
c14, c15; diopside: monoclinic with c15, c25, c35, c46) or on re-presented / synthetic copies of them, built in a
temporary directory that is removed afterwards.  Used by the bounded stand-ins of C05, C06, C12, C13, C15."""
import copy, os, shutil, tempfile, warnings
import numpy
import yaml
from vf import core

EXAMPLES = {"akimotoite": ("input01", "input02"), "diopside": ("input01", "input02")}
_cache = {}


def example_dir(name):
    return os.path.join(core.REPO, "examples", name)


def load_settings(name):
    with open(os.path.join(example_dir(name), "settings.yaml")) as fp:
        return yaml.safe_load(fp)


def deep_update(d, u):
    for k, v in (u or {}).items():
        if isinstance(v, dict) and isinstance(d.get(k), dict):
            deep_update(d[k], v)
        else:
            d[k] = v
    return d


class Case:
    """a prepared input directory; build() constructs the real Calculator"""

    def __init__(self, example="akimotoite", settings=None, input01_text=None, elast_text=None):
        self.example = example
        self.dir = tempfile.mkdtemp(prefix="cijcase_")
        f1, f2 = EXAMPLES[example]
        src = example_dir(example)
        self.settings = deep_update(load_settings(example), settings)
        self.settings["qha"]["input"], self.settings["elast"]["input"] = "input01", "input02"
        t1 = input01_text if input01_text is not None else open(os.path.join(src, f1)).read()
        t2 = elast_text if elast_text is not None else open(os.path.join(src, f2)).read()
        with open(os.path.join(self.dir, "input01"), "w") as fp:
            fp.write(t1)
        with open(os.path.join(self.dir, "input02"), "w") as fp:
            fp.write(t2)
        with open(os.path.join(self.dir, "settings.yaml"), "w") as fp:
            yaml.safe_dump(self.settings, fp)
        self.calc = None

    def build(self):
        from cij.core.calculator import Calculator
        with warnings.catch_warnings(), numpy.errstate(all="ignore"):
            warnings.simplefilter("ignore")
            self.calc = Calculator(os.path.join(self.dir, "settings.yaml"))
        return self.calc

    def close(self):
        shutil.rmtree(self.dir, ignore_errors=True)

    def __enter__(self):
        return self

    def __exit__(self, *a):
        self.close()


def quiet(fn, *a, **k):
    with warnings.catch_warnings(), numpy.errstate(all="ignore"):
        warnings.simplefilter("ignore")
        return fn(*a, **k)


# ---------------------------------------------------------------------------------------------------------------------------------------------
# synthetic-but-physical data sets (generic on purpose: modes are NOT listed in ascending frequency and branches cross between volumes, weights are not integers,
# static columns and lattice ratios vary with volume, the q list may start off Gamma)
GPA = 14710.507848260711      # 1 Ry/bohr^3 in GPa


def synthetic_texts(seed=0, nv=8, nq=3, na=2, system="orthorhombic", lattice=True, gamma_first=True):
    """-> (input01 text, input02 text, description dict).  E(V) quadratic in Eulerian strain (B0 ~ 200 GPa), power-law modes with mode-dependent Grueneisen parameters"""
    import io as _io
    from cij.io.traditional import qha_input as qi
    rnd = numpy.random.RandomState(seed)
    V0 = 560.0
    V = numpy.linspace(625.0, 495.0, nv)
    f = ((V0 / V) ** (2.0 / 3.0) - 1.0) / 2.0
    B = 200.0 / GPA
    E = -50.0 + 4.5 * V0 * B * f ** 2 * (1.0 + 1.2 * f)
    npm = 3 * na
    w0 = rnd.uniform(120.0, 900.0, size=(nq, npm))
    g = rnd.uniform(0.6, 2.4, size=(nq, npm))
    coords = [(0.0, 0.0, 0.0)] + [tuple(numpy.round(rnd.uniform(0.05, 0.5, size=3), 4)) for _ in range(nq - 1)]
    if not gamma_first:
        coords[0] = (0.125, 0.125, 0.125)
    if gamma_first:
        w0[0, :3] = 0.0
    weights = [float(numpy.round(rnd.uniform(0.5, 6.0), 3)) for _ in range(nq)]
    vols = []
    for i in range(nv):
        qps = [qi.QPointData(coords[q], [float(w0[q, m] * (V[i] / V0) ** (-g[q, m])) for m in range(npm)]) for q in range(nq)]
        vols.append(qi.VolumeData(0.0, float(V[i]), float(E[i]), qps))
    data = qi.QHAInputData(nv, nq, npm, 1, na, [(coords[q], weights[q]) for q in range(nq)], vols)
    import tempfile as _tf
    d = _tf.mkdtemp(prefix="cijsyn_")
    try:
        qi.write_energy(os.path.join(d, "i1"), data)
        t1 = open(os.path.join(d, "i1")).read()
    finally:
        shutil.rmtree(d, ignore_errors=True)
    comps = {"orthorhombic": ["c11", "c22", "c33", "c12", "c13", "c23", "c44", "c55", "c66"], "cubic": ["c11", "c12", "c44"],
             "trigonal7": ["c11", "c33", "c12", "c13", "c44", "c14", "c15"], "monoclinic": ["c11", "c22", "c33", "c12", "c13", "c23", "c44", "c55", "c66", "c15", "c25", "c35", "c46"]}[system]
    base = {"c11": 460.0, "c22": 430.0, "c33": 380.0, "c12": 160.0, "c13": 110.0, "c23": 95.0, "c44": 115.0, "c55": 105.0, "c66": 150.0, "c14": -15.0, "c15": 25.0, "c25": 12.0, "c35": -9.0,
            "c46": 7.0}
    slope = {k: float(rnd.uniform(2.5, 5.5)) for k in base}
    lines = ["V_0 N cellmass synthetic", "%.8f %d %.3f" % (V0, nv, 180.5 + seed), "V " + " ".join(comps)]
    for i in range(nv):
        lines.append("%.8f " % V[i] + " ".join("%.4f" % (base[k] * (1.0 + slope[k] * f[i])) for k in comps))
    if lattice:
        lines.append(" lattice_a lattice_b lattice_c ")
        r = numpy.array([1.0, 1.12, 0.93])
        for i in range(nv):
            ratio = r * (1.0 + numpy.array([0.15, -0.1, -0.05]) * f[i])
            a = (V[i] / numpy.prod(ratio)) ** (1.0 / 3.0) * ratio
            lines.append(" ".join("%.6f" % x for x in a))
    t2 = "\n".join(lines) + "\n"
    return t1, t2, {"V": V.tolist(), "nq": nq, "na": na, "system": system, "lattice": lattice, "gamma_first": gamma_first, "weights": weights}


def synthetic_case(seed=0, settings=None, **kw):
    """a Case on a synthetic data set (settings of the akimotoite example re-targeted: small grids, lsq_poly)"""
    system = kw.get("system", "orthorhombic")
    t1, t2, desc = synthetic_texts(seed, **kw)
    base = {"qha": {"settings": {"NT": 6, "DT": 300, "DT_SAMPLE": 300, "NTV": 21, "DELTA_P": 2.0, "DELTA_P_SAMPLE": 2.0, "T_MIN": 0, "P_MIN": 0, "order": 3, "volume_ratio": 1.2}},
            "elast": {"settings": {"mode_gamma": {"interpolator": "lsq_poly", "order": 3}, "symmetry": {"system": system}}}}
    c = Case("akimotoite", deep_update(base, settings), input01_text=t1, elast_text=t2)
    c.description = desc
    return c
