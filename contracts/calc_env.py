"""End-to-end harness: the real cij.core.calculator.Calculator on the shipped example data (akimotoite: trigonal7 with
c14, c15; diopside: monoclinic with c15, c25, c35, c46) or on re-presented / synthetic copies of them, built in a
temporary directory that is removed afterwards.  Used by the bounded stand-ins of C05, C06, C12, C13, C15."""
import copy, os, shutil, tempfile, warnings
import numpy
import yaml
from vf import core

EXAMPLES = {"akimotoite": ("input01", "input02"), "diopside": ("input01", "input02")}
_cache = {}


def example_dir(name):
    return os.path.join(core.REPO, "examples", name)


def load_settings(name):
    with open(os.path.join(example_dir(name), "settings.yaml")) as fp:
        return yaml.safe_load(fp)


def deep_update(d, u):
    for k, v in (u or {}).items():
        if isinstance(v, dict) and isinstance(d.get(k), dict):
            deep_update(d[k], v)
        else:
            d[k] = v
    return d


class Case:
    """a prepared input directory; build() constructs the real Calculator"""

    def __init__(self, example="akimotoite", settings=None, input01_text=None, elast_text=None, omit=()):
        self.example = example
        self.dir = tempfile.mkdtemp(prefix="cijcase_")
        f1, f2 = EXAMPLES[example]
        src = example_dir(example)
        self.settings = deep_update(load_settings(example), settings)
        self.settings["qha"]["input"], self.settings["elast"]["input"] = "input01", "input02"
        for path in omit:          # key paths the user's file does not spell out (the packaged defaults have to supply them)
            node = self.settings
            for key in path[:-1]:
                node = node.get(key, {})
            node.pop(path[-1], None)
        t1 = input01_text if input01_text is not None else open(os.path.join(src, f1)).read()
        t2 = elast_text if elast_text is not None else open(os.path.join(src, f2)).read()
        with open(os.path.join(self.dir, "input01"), "w") as fp:
            fp.write(t1)
        with open(os.path.join(self.dir, "input02"), "w") as fp:
            fp.write(t2)
        with open(os.path.join(self.dir, "settings.yaml"), "w") as fp:
            yaml.safe_dump(self.settings, fp)
        self.calc = None

    def build(self):
        from cij.core.calculator import Calculator
        with warnings.catch_warnings(), numpy.errstate(all="ignore"):
            warnings.simplefilter("ignore")
            self.calc = Calculator(os.path.join(self.dir, "settings.yaml"))
        return self.calc

    def close(self):
        shutil.rmtree(self.dir, ignore_errors=True)

    def __enter__(self):
        return self

    def __exit__(self, *a):
        self.close()
        # a calculator is a cycle of few objects holding large arrays (3 GB for the diopside example): the generational collector does not get to it for a
        # long time, and forty cases in one run grew to 35 GB -- collect when a case is closed
        import gc
        gc.collect()


def quiet(fn, *a, **k):
    with warnings.catch_warnings(), numpy.errstate(all="ignore"):
        warnings.simplefilter("ignore")
        return fn(*a, **k)


# ---------------------------------------------------------------------------------------------------------------------------------------------
# synthetic-but-physical data sets (generic on purpose: modes are NOT listed in ascending frequency and branches cross between volumes, weights are not integers,
# static columns and lattice ratios vary with volume, the q list may start off Gamma)
GPA = 14710.507848260711      # 1 Ry/bohr^3 in GPa


def synthetic_texts(seed=0, nv=8, nq=3, na=2, system="orthorhombic", lattice=True, gamma_first=True, static_order="descending", static_nv=None, flat_modes=False):
    """-> (input01 text, input02 text, description dict).  E(V) quadratic in Eulerian strain (B0 ~ 200 GPa), power-law modes with mode-dependent Grueneisen parameters"""
    import io as _io
    from cij.io.traditional import qha_input as qi
    rnd = numpy.random.RandomState(seed)
    V0 = 560.0
    V = numpy.linspace(625.0, 495.0, nv)
    f = ((V0 / V) ** (2.0 / 3.0) - 1.0) / 2.0
    B = 200.0 / GPA
    E = -50.0 + 4.5 * V0 * B * f ** 2 * (1.0 + 1.2 * f)
    npm = 3 * na
    w0 = rnd.uniform(120.0, 900.0, size=(nq, npm))
    g = rnd.uniform(0.6, 2.4, size=(nq, npm))
    if flat_modes:
        # branches that do not move with volume (gamma = 0) or hardly (gamma = 2e-6): positive frequencies like any other
        g[nq - 1, npm - 1] = 0.0
        g[0, npm - 2] = 2e-6
    coords = [(0.0, 0.0, 0.0)] + [tuple(numpy.round(rnd.uniform(0.05, 0.5, size=3), 4)) for _ in range(nq - 1)]
    if not gamma_first:
        coords[0] = (0.125, 0.125, 0.125)
    if gamma_first:
        w0[0, :3] = 0.0
    weights = [float(numpy.round(rnd.uniform(0.5, 6.0), 3)) for _ in range(nq)]
    vols = []
    for i in range(nv):
        qps = [qi.QPointData(coords[q], [float(w0[q, m] * (V[i] / V0) ** (-g[q, m])) for m in range(npm)]) for q in range(nq)]
        vols.append(qi.VolumeData(0.0, float(V[i]), float(E[i]), qps))
    data = qi.QHAInputData(nv, nq, npm, 1, na, [(coords[q], weights[q]) for q in range(nq)], vols)
    import tempfile as _tf
    d = _tf.mkdtemp(prefix="cijsyn_")
    try:
        qi.write_energy(os.path.join(d, "i1"), data)
        t1 = open(os.path.join(d, "i1")).read()
    finally:
        shutil.rmtree(d, ignore_errors=True)
    comps = {"orthorhombic": ["c11", "c22", "c33", "c12", "c13", "c23", "c44", "c55", "c66"], "cubic": ["c11", "c12", "c44"],
             "trigonal7": ["c11", "c33", "c12", "c13", "c44", "c14", "c15"], "monoclinic": ["c11", "c22", "c33", "c12", "c13", "c23", "c44", "c55", "c66", "c15", "c25", "c35", "c46"]}[system]
    base = {"c11": 460.0, "c22": 430.0, "c33": 380.0, "c12": 160.0, "c13": 110.0, "c23": 95.0, "c44": 115.0, "c55": 105.0, "c66": 150.0, "c14": -15.0, "c15": 25.0, "c25": 12.0, "c35": -9.0,
            "c46": 7.0}
    slope = {k: float(rnd.uniform(2.5, 5.5)) for k in base}
    # the static table has its own volumes (static_nv of them, in the order static_order): it need not be tabulated at the phonon volumes nor listed the same way
    Vs = V if static_nv is None else numpy.linspace(630.0, 490.0, static_nv)
    order = list(range(len(Vs)))
    if static_order == "ascending":
        order = order[::-1]
    elif static_order == "shuffled":
        order = list(rnd.permutation(len(Vs)))
    Vs = Vs[order]
    fs = ((V0 / Vs) ** (2.0 / 3.0) - 1.0) / 2.0
    lines = ["V_0 N cellmass synthetic", "%.8f %d %.3f" % (V0, len(Vs), 180.5 + seed), "V " + " ".join(comps)]
    table = {"V": [float("%.8f" % v) for v in Vs], "columns": {k: [] for k in comps}, "lattice": []}
    for i in range(len(Vs)):
        vals = ["%.4f" % (base[k] * (1.0 + slope[k] * fs[i] + 2.0 * slope[k] * fs[i] ** 2 - 30.0 * fs[i] ** 3)) for k in comps]
        for k, x in zip(comps, vals):
            table["columns"][k].append(float(x))
        lines.append("%.8f " % Vs[i] + " ".join(vals))
    if lattice:
        lines.append(" lattice_a lattice_b lattice_c ")
        r = numpy.array([1.0, 1.12, 0.93])
        c1, c2 = numpy.array([0.15, -0.1, -0.05]), numpy.array([0.5, 0.2, -0.7])
        if lattice == "pseudo_cubic":
            # nearly, but not, cubic: the three axial strain fractions differ by a few 1e-4 (distinct strain classes that a sloppy comparison would merge)
            r, c1, c2 = numpy.array([1.0, 1.0008, 0.9994]), numpy.array([0.0016, 0.0, -0.0016]), numpy.array([0.0, 0.001, -0.001])
        if lattice == "auxetic":
            # negative linear compressibility: the first axis LENGTHENS under compression, its strain fraction is negative (about -0.47, 0.63, 0.83)
            r, c1, c2 = numpy.array([1.0, 1.12, 0.93]), numpy.array([2.4, -0.9, -1.5]), numpy.array([0.5, 0.2, -0.7])
        for i in range(len(Vs)):
            ratio = r * (1.0 + c1 * fs[i] + c2 * fs[i] ** 2)
            a = (Vs[i] / numpy.prod(ratio)) ** (1.0 / 3.0) * ratio
            row = [("%.10f" if lattice == "pseudo_cubic" else "%.6f") % x for x in a]
            table["lattice"].append([float(x) for x in row])
            lines.append(" ".join(row))
    t2 = "\n".join(lines) + "\n"
    return t1, t2, {"V": V.tolist(), "nq": nq, "na": na, "system": system, "lattice": lattice, "gamma_first": gamma_first, "flat_modes": flat_modes, "weights": weights, "static_order": static_order,
                    "table": table}


def synthetic_case(seed=0, settings=None, omit=(), **kw):
    """a Case on a synthetic data set (settings of the akimotoite example re-targeted: small grids, lsq_poly); omit: key paths the user's file does NOT spell out"""
    system = kw.get("system", "orthorhombic")
    t1, t2, desc = synthetic_texts(seed, **kw)
    base = {"qha": {"settings": {"NT": 6, "DT": 300, "DT_SAMPLE": 300, "NTV": 21, "DELTA_P": 2.0, "DELTA_P_SAMPLE": 2.0, "T_MIN": 0, "P_MIN": 0, "order": 3, "volume_ratio": 1.2}},
            "elast": {"settings": {"mode_gamma": {"interpolator": "lsq_poly", "order": 3}, "symmetry": {"system": system}}}}
    c = Case("akimotoite", deep_update(base, settings), input01_text=t1, elast_text=t2, omit=omit)
    c.description = desc
    return c


# ---------------------------------------------------------------------------------------------------------------------------------------------
# interleaving battery: two calculations in one process that COLLIDE on everything a careless cache could be keyed by, against each of them alone in a fresh process
def snapshot(calc, reverse=False):
    """every array-valued result of a Calculator that the properties talk about, as plain numpy arrays (reverse: read in the opposite order)"""
    out = {}
    for which in (("modulus_adiabatic", "modulus_isothermal") if reverse else ("modulus_isothermal", "modulus_adiabatic")):
        for k, v in getattr(calc, which).items():
            out["tv.%s.%r" % (which, k)] = numpy.array(v, dtype=float, copy=True)
        for k, v in getattr(calc.pressure_base, which).items():
            out["tp.%s.%r" % (which, k)] = numpy.array(v, dtype=float, copy=True)
    for base, tag in (((calc.pressure_base, "tp"), (calc.volume_base, "tv")) if reverse else ((calc.volume_base, "tv"), (calc.pressure_base, "tp"))):
        for n in ("bulk_modulus_voigt", "bulk_modulus_reuss", "bulk_modulus_voigt_reuss_hill", "shear_modulus_voigt", "shear_modulus_reuss", "shear_modulus_voigt_reuss_hill",
                  "primary_velocities", "secondary_velocities"):
            out["%s.%s" % (tag, n)] = numpy.array(getattr(base, n), dtype=float, copy=True)
    out["v_array"], out["t_array"] = numpy.array(calc.v_array, dtype=float), numpy.array(calc.qha_calculator.t_array, dtype=float)
    return out


def _collision_pair(seed):
    """texts of two data sets A, B with the same file names, shapes, volume end points and count, component SET and q-point coordinates, but different interior volumes,
    another column order of the static table and different values"""
    a1, a2, da = synthetic_texts(seed, nv=8, nq=3, na=2, system="orthorhombic")
    b1, b2, db = synthetic_texts(seed + 100, nv=8, nq=3, na=2, system="orthorhombic")
    # B: interior volumes moved (end points and count kept) -- rewrite both files consistently through the package's own reader / writer
    import io as _io, re as _re
    VA = numpy.array(da["V"])
    VB = VA.copy()
    VB[1:-1] = VA[1:-1] + numpy.array([4.0, -3.0, 5.0, -2.0, 3.5, -4.5])[:len(VA) - 2]
    for old, new in zip(VA, VB):
        b1 = b1.replace("V= %12.6f" % old, "V= %12.6f" % new)
        b2 = b2.replace("%.8f " % old, "%.8f " % new, 1)
    lines = b2.split("\n")
    hdr = lines[2].split()
    perm = [0] + list(numpy.random.RandomState(seed).permutation(len(hdr) - 1) + 1)
    for i in range(2, 3 + len(VB)):
        f = lines[i].split()
        lines[i] = " ".join(f[j] for j in perm)
    return (a1, a2), (b1, "\n".join(lines))


_SUB = r'''
import sys, pickle, warnings, numpy
sys.path.insert(0, %(verif)r)
warnings.simplefilter("ignore")
from contracts import calc_env
from cij.core.calculator import Calculator
with numpy.errstate(all="ignore"):
    c = Calculator(sys.argv[1])
    snap = calc_env.snapshot(c, reverse=True)          # the other read order: results must not depend on what was read before
    import os, tempfile
    d = tempfile.mkdtemp(prefix="cijalone_")
    os.chdir(d)
    c.write_output()
    snap["__files__"] = {f: open(os.path.join(d, f), "rb").read() for f in sorted(os.listdir(d))}
    pickle.dump(snap, open(sys.argv[2], "wb"))
    import shutil
    os.chdir("/")
    shutil.rmtree(d, ignore_errors=True)
'''

_BATTERY = {}


def interleaving_battery(seed=3):
    """-> {"reproduced": bool, ...}; cached per checker process (and per /repo copy)"""
    import pickle, subprocess, sys as _sys
    key = (core.REPO, seed)
    if key in _BATTERY:
        return _BATTERY[key]
    (a1, a2), (b1, b2) = _collision_pair(seed)
    st = {"qha": {"settings": {"NT": 5, "DT": 350, "DT_SAMPLE": 350, "NTV": 15, "DELTA_P": 3.0, "DELTA_P_SAMPLE": 3.0, "T_MIN": 0, "P_MIN": 0, "order": 3, "volume_ratio": 1.2}},
          "elast": {"settings": {"mode_gamma": {"interpolator": "lsq_poly", "order": 3}, "symmetry": {"system": "orthorhombic"}}},
          "output": {"pressure_base": ["cij", "cij_t", "bm_VRH", "vs"], "volume_base": ["p", "G_V"]}}
    A, B = Case("akimotoite", st, input01_text=a1, elast_text=a2), Case("akimotoite", st, input01_text=b1, elast_text=b2)
    # A spells out non-default nested settings and overrides an output unit; B leaves every nested setting it can to the packaged defaults and uses plain keywords
    sa = {"qha": {"input": "input01", "settings": dict(st["qha"]["settings"], volume_ratio=1.25, order=4)},
          "elast": {"input": "input02", "settings": {"mode_gamma": {"interpolator": "lsq_poly", "order": 3}, "symmetry": {"system": "orthorhombic"}}},
          "output": {"pressure_base": ["cij_t", "cij", {"keyword": "bm_VRH", "unit": "kbar"}, "vs"], "volume_base": [{"keyword": "p", "unit": "kbar"}, "G_V"]}}
    # (both use the least-squares interpolator of the same order on volume lists with equal end points and count: whatever is kept per "grid" collides)
    sb = {"qha": {"input": "input01", "settings": {k: v for k, v in st["qha"]["settings"].items() if k not in ("volume_ratio", "order", "T_MIN", "P_MIN")}},
          "elast": {"input": "input02", "settings": {"symmetry": {"system": "orthorhombic"}}},
          "output": {"pressure_base": ["cij", "cij_t", "bm_VRH", "vs"], "volume_base": ["p", "G_V"]}}
    for case, sett in ((A, sa), (B, sb)):
        with open(os.path.join(case.dir, "settings.yaml"), "w") as fp:
            yaml.safe_dump(sett, fp)
    res = {"reproduced": False}
    try:
        env = dict(os.environ, PYTHONPATH=os.pathsep.join([core.REPO, core.HERE] + [p for p in os.environ.get("PYTHONPATH", "").split(os.pathsep) if p]), PYTHONWARNINGS="ignore")
        procs = []
        for tag, case in (("A", A), ("B", B)):
            out = os.path.join(case.dir, "alone.pkl")
            procs.append((tag, out, subprocess.Popen([_sys.executable, "-c", _SUB % {"verif": core.HERE}, os.path.join(case.dir, "settings.yaml"), out], env=env,
                                                     stdout=subprocess.PIPE, stderr=subprocess.PIPE, text=True)))
        with warnings.catch_warnings(), numpy.errstate(all="ignore"):
            warnings.simplefilter("ignore")
            cwd = os.getcwd()
            ca = A.build()
            ra1 = snapshot(ca)
            cb = B.build()
            rb1 = snapshot(cb)
            ra2 = snapshot(ca)                       # the first calculator read again after the second one was built
            files = {}
            try:
                for tag, case, c in (("A", A, ca), ("B", B, cb)):
                    wd = os.path.join(case.dir, "out")
                    os.mkdir(wd)
                    os.chdir(wd)
                    c.write_output()
                    files[tag] = {f: open(os.path.join(wd, f), "rb").read() for f in sorted(os.listdir(wd))}
                    if not files[tag]:
                        res = {"reproduced": True, "history": "the process was started (and the package imported) in another directory; calculation %s writes its output after a chdir into %s" % (tag, wd),
                               "observed": "no file appears in the current working directory", "expected": "the tables of the calculation in the directory it is run in"}
                        raise StopIteration
            finally:
                os.chdir(cwd)
            ra3, rb3 = snapshot(ca), snapshot(cb)    # ... and after both wrote their output
            ca2 = A.build()
            ra4 = snapshot(ca2)                      # a fresh calculator on A's files, late in the process
        alone = {}
        for tag, out, p in procs:
            so, se = p.communicate(timeout=900)
            if p.returncode != 0:
                res = {"reproduced": True, "observed": "calculation %s alone in a fresh process fails: %s" % (tag, se[-300:])}
                raise StopIteration
            alone[tag] = pickle.load(open(out, "rb"))
        alone_files = {tag: alone[tag].pop("__files__") for tag in alone}
        for tag in ("A", "B"):
            if files[tag] != alone_files[tag]:
                bad = sorted(f for f in set(files[tag]) | set(alone_files[tag]) if files[tag].get(f) != alone_files[tag].get(f))
                res = {"reproduced": True, "history": "output files of calculation %s written in a process that also ran the other calculation vs written by %s alone in a fresh process" % (tag, tag),
                       "observed": "files differ: %s" % bad[:6], "expected": "byte-identical files"}
                raise StopIteration

        def differs(x, y):
            if set(x) != set(y):
                return "result names differ: %s" % sorted(set(x) ^ set(y))[:4]
            for k in sorted(x):
                if x[k].shape != y[k].shape or not numpy.array_equal(x[k], y[k], equal_nan=True):
                    return "%s differs (max |diff| %.3g)" % (k, float(numpy.nanmax(numpy.abs(x[k] - y[k]))) if x[k].shape == y[k].shape else float("nan"))
            return None
        for label, x, y in (("calculation A read again after calculation B was built in the same process", ra2, ra1),
                            ("calculation A read after both calculations wrote their output", ra3, ra1), ("calculation B read after writing", rb3, rb1),
                            ("calculation A in a process that ran nothing else", alone["A"], ra1), ("calculation B (built after A in one process) vs B alone in a fresh process", rb1, alone["B"]),
                            ("a second calculator on A's files, built after B and after writing", ra4, ra1)):
            d = differs(x, y)
            if d:
                res = {"reproduced": True, "history": label, "observed": d, "expected": "bit-identical results",
                       "data": "two synthetic orthorhombic sets with equal file names, shapes, volume end points, component set and q-points; different interior volumes, column order and values"}
                break
        else:
            res = {"reproduced": False, "evaluations": 6, "note": "two colliding synthetic calculations interleaved in one process (A, B, A again, writes, A rebuilt) agree bit for bit with "
                   "each calculation alone in a fresh process (%d arrays each)" % len(ra1)}
    except StopIteration:
        pass
    except Exception as e:
        res = {"reproduced": True, "observed": "interleaved calculations raise %r" % (e,)}
    finally:
        A.close()
        B.close()
    _BATTERY[key] = res
    return res
