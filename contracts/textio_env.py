"""Contracts for the text readers/writers (C17).

1. Line templates of a writer, extracted from its AST on every run: f-strings, "%..." % x and sep.join(<template> for ...)
   become sequences of literal text and formatted fields; a field's format spec becomes the regular language of ALL
   strings CPython can produce for it (A-PRINTF):   [width][.prec]f -> " *" then -?digits.digits{prec} (finite values: contract precondition);
   [width]d -> " *" then -?digits.  The pad is over-approximated by any number of blanks (the lemma is proved for a superset
   of the lines the writer can emit).
2. A pairing run: the real writer writes a sentinel data set, the real reader reads it back with `re.search` recorded, so that
   every (pattern, searched line) pair the reader really performs is known; the searched line is then generalised to the
   language of its template and the regex lemma (vf/regauto.py) is proved for that whole language.
"""
import ast, os, re, inspect, textwrap
from vf import core


# --------------------------------------------------------------------------------------- field languages
def field_language(spec, nat_ints=False):
    """(pad regex, token regex) for a printf / format() spec such as '12.6f', '10.4f', '4d'.
    nat_ints: the contract's precondition that integer fields are counts (>= 0)"""
    m = re.fullmatch(r"(\d*)(?:\.(\d+))?([fd])", spec)
    if not m:
        raise core.OutsideSubset("format spec %r is not [width][.prec]f|d" % spec)
    width, prec, typ = m.group(1), m.group(2), m.group(3)
    if typ == "d":
        if prec is not None:
            raise core.OutsideSubset("format spec %r" % spec)
        tok = r"[0-9]+" if nat_ints else r"-?[0-9]+"
    else:
        p = 6 if prec is None else int(prec)
        tok = r"-?[0-9]+\.[0-9]{%d}" % p if p > 0 else r"-?[0-9]+"      # finite values (precondition of the writer's contract)
    return (" *" if width else ""), tok


class Lit:
    def __init__(self, text): self.text = text
    def __repr__(self): return "Lit(%r)" % self.text


class Field:
    def __init__(self, spec, expr): self.spec, self.expr = spec, expr
    def __repr__(self): return "Field(%s <- %s)" % (self.spec, self.expr)


class Rep:
    def __init__(self, sep, parts, over): self.sep, self.parts, self.over = sep, parts, over
    def __repr__(self): return "Rep(%r, %s for .. in %s)" % (self.sep, self.parts, self.over)


def _printf_parts(fmt, args):
    """'%10.6f %10.6f' % (a, b) -> parts"""
    parts, pos, k = [], 0, 0
    for m in re.finditer(r"%(?:(%)|([-+ 0#]*)(\d*)(?:\.(\d+))?([a-zA-Z]))", fmt):
        if m.start() > pos:
            parts.append(Lit(fmt[pos:m.start()]))
        pos = m.end()
        if m.group(1):
            parts.append(Lit("%"))
            continue
        if m.group(2):
            raise core.OutsideSubset("printf flags %r" % m.group(2))
        spec = m.group(3) + ("." + m.group(4) if m.group(4) is not None else "") + m.group(5)
        parts.append(Field(spec, args[k] if args is not None and k < len(args) else "arg%d" % k))
        k += 1
    if pos < len(fmt):
        parts.append(Lit(fmt[pos:]))
    return parts


def template_of(node):
    """parts for a string-valued expression, or None when it is not one of the recognised shapes"""
    if isinstance(node, ast.Constant) and isinstance(node.value, str):
        return [Lit(node.value)]
    if isinstance(node, ast.JoinedStr):
        parts = []
        for v in node.values:
            if isinstance(v, ast.Constant):
                parts.append(Lit(v.value))
            elif isinstance(v, ast.FormattedValue):
                if v.conversion != -1:
                    return None
                if v.format_spec is None:
                    return None
                fs = v.format_spec
                if not (isinstance(fs, ast.JoinedStr) and all(isinstance(x, ast.Constant) for x in fs.values)):
                    return None
                parts.append(Field("".join(x.value for x in fs.values), ast.unparse(v.value)))
            else:
                return None
        return parts
    if isinstance(node, ast.BinOp) and isinstance(node.op, ast.Mod) and isinstance(node.left, ast.Constant) and isinstance(node.left.value, str):
        right = node.right
        args = None
        if isinstance(right, ast.Tuple):
            args = [ast.unparse(x) for x in right.elts]
        else:
            args = [ast.unparse(right)]
        n = len(re.findall(r"%(?!%)", node.left.value))
        if args is not None and len(args) != n:
            args = None                                       # e.g. (*coords, weight)
        return _printf_parts(node.left.value, args)
    if isinstance(node, ast.Call) and isinstance(node.func, ast.Attribute) and node.func.attr == "join" \
            and isinstance(node.func.value, ast.Constant) and isinstance(node.func.value.value, str) and len(node.args) == 1 \
            and isinstance(node.args[0], (ast.GeneratorExp, ast.ListComp)):
        inner = template_of(node.args[0].elt)
        if inner is None:
            return None
        return [Rep(node.func.value.value, inner, ast.unparse(node.args[0].generators[0].iter))]
    return None


def templates_of_function(fn):
    """every recognisable line template in the function's current source: [(lineno, parts)]"""
    src = textwrap.dedent(inspect.getsource(fn))
    tree = ast.parse(src)
    out = []

    class V(ast.NodeVisitor):
        def generic_visit(self, node):
            if isinstance(node, (ast.JoinedStr, ast.BinOp, ast.Call)):
                t = template_of(node)
                if t is not None and any(isinstance(p, (Field, Rep)) for p in t):
                    out.append((getattr(node, "lineno", 0), t))
                    return
            ast.NodeVisitor.generic_visit(self, node)
    V().visit(tree)
    return out


def spec_regex(parts, reps=None, groups=True, strip=False, nat_ints=False):
    """the regular language of a template as a regex (capturing each field token when groups), and the number of fields.
    reps: number of repetitions for each Rep part (list, consumed in order)."""
    reps = list(reps or [])
    flat = []
    for p in parts:
        if isinstance(p, Rep):
            k = reps.pop(0)
            for i in range(k):
                if i:
                    flat.append(Lit(p.sep))
                flat += p.parts
        else:
            flat.append(p)
    if any(isinstance(p, Rep) for p in flat):
        raise core.OutsideSubset("nested repetition in a line template")
    out, nf = "", 0
    for i, p in enumerate(flat):
        if isinstance(p, Lit):
            t = p.text
            if strip and i == 0:
                t = t.lstrip()
            if strip and i == len(flat) - 1:
                t = t.rstrip()
            out += re.escape(t)
        else:
            pad, tok = field_language(p.spec, nat_ints)
            if strip and i == 0:
                pad = ""
            out += pad + ("(%s)" % tok if groups else "(?:%s)" % tok)
            nf += 1
    return out, nf, [p for p in flat if isinstance(p, Field)]


def match_template(templates, line):
    """the (unique) template whose language contains the concrete line (without its newline): (parts, reps) or None"""
    hits = []
    body = line.rstrip("\n")
    for lineno, parts in templates:
        nrep = sum(isinstance(p, Rep) for p in parts)
        if nrep > 1:
            continue
        for k in ([None] if nrep == 0 else range(1, 13)):
            rx, nf, _ = spec_regex(parts, [k] if nrep else [], groups=False)
            if re.fullmatch(rx, body):
                hits.append((lineno, parts, [k] if nrep else []))
                break
    if len(hits) == 1:
        return hits[0]
    if not hits:
        return None
    # several templates describe the line (e.g. a bare float): they must describe the same language
    langs = {spec_regex(p, r, groups=False)[0] for _, p, r in hits}
    if len(langs) == 1:
        return hits[0]
    raise core.OutsideSubset("line %r fits several different templates (source lines %s)" % (body, [h[0] for h in hits]))


# --------------------------------------------------------------------------------------- recorded searches
class RecordingRe:
    """stands in for the `re` module inside the reader: records (pattern, string, matched?) of every search"""

    def __init__(self):
        self.calls = []

    def search(self, pattern, string, flags=0):
        m = re.search(pattern, string, flags)
        self.calls.append((pattern, str(string), m is not None, flags))
        return m

    def __getattr__(self, name):
        if name in ("match", "fullmatch", "findall", "finditer", "split", "sub", "compile"):
            raise core.OutsideSubset("re.%s in a reader" % name)
        return getattr(re, name)
