"""Frame (modifies / reads) contracts of the package's functions, shared by all properties.

A property proved for one call of a function on symbolic arguments transfers to every call in every history only if the function IS a function of
its arguments: it writes nothing that outlives the call except what its contract names (the instance's own lazily computed results), keeps no
process-wide memo, updates no object it received in place, and reads no ambient state.  These are the frame conditions of the contracts; they are
discharged per anchored file by the conservative AST effect analysis vf/frames.py (E5) against the allowances below, which are part of the contracts
(each names the function or module, the effect, and why it belongs to the specification).
"""
import json, os, re
from vf import core, frames

# ambient reads that are part of a function's specification
ALLOWED_AMBIENT = {
    ("util/fill.py", "fill_cij"): "a path to a relations file may be given in place of a system name: the file system is consulted for exactly that path",
    ("cli/extract.py", "load_data"): "contract of the command: the variable's table is looked up by name in the working directory",
    ("cli/geotherm.py", "load_data"): "contract of the command: the variable's table is looked up by name in the working directory",
}
# loops over sets whose bodies commute (each iteration writes its own cell / key with a value independent of the order)
ALLOWED_SET_ITERATION = {
    ("core/calculator.py", "Calculator._calculate_compliances"): "writes elastic_moduli[:, :, i-1, j-1] for the two index orders of ONE key with the same array: distinct cells, same value",
    ("io/config/config.py", "update_config"): "each iteration writes only output_dict[k] for its own key (loop rule proved in C16)",
    ("util/compliance.py", "reverse_moduli"): "same two-cell symmetric assignment as _calculate_compliances",
}
# in-place updates of objects received from the caller that are part of the function's specification (or rebinding of immutables)
ALLOWED_WRITES = {
    ("core/phonon_contribution/nonshear.py", "clear_gamma_point"): "contract: zeroes the Gamma-acoustic slots of ITS ARGUMENT in place (callers pass a private copy, C01)",
    ("core/mode_gamma.py", "lstsq_polyfit"): "`order += 1` rebinds an integer parameter (immutable): no object is written",
    ("util/fill.py", "fill_cij"): "writes the solved columns into the table it was given (the returned frame may be the input object); values of non-modulus columns are untouched (C08/C09)",
    ("misc/evec_disp2eig.py", "evec_disp2eig"): "works on numpy.copy(a)",
    ("cli/static.py", "main"): "`df = df.iloc[::step, :]` is a fresh frame of the callback's own table; the unit conversions write its columns",
}
# module-level clauses of the same contracts: they hold for whichever function of the module performs the step, so that extracting a helper
# does not change the verdict.  (pattern on the analysis' finding text, reason)
ALLOWED_AMBIENT_MODULE = {
    "util/fill.py": (r"^file-system probe Path\(\w+\)\.is_file\(\)", ALLOWED_AMBIENT[("util/fill.py", "fill_cij")]),
    "cli/extract.py": (r"^glob at line", ALLOWED_AMBIENT[("cli/extract.py", "load_data")]),
    "cli/geotherm.py": (r"^glob at line", ALLOWED_AMBIENT[("cli/geotherm.py", "load_data")]),
}
ALLOWED_WRITES_MODULE = {
    "util/fill.py": (r"^item assignment into (\w+), which is bound to parameter \1 ", ALLOWED_WRITES[("util/fill.py", "fill_cij")]),
}


STATE_KINDS = ("write", "memo", "global")      # shared or borrowed state is written: a frame condition fails, but whether any RESULT depends on a call history is a run-time matter


def frame_findings(rel):
    """-> (number of functions, hard findings, state findings) of one file of the package (path relative to cij/)"""
    path = os.path.join(core.REPO, "cij", rel)
    reps = frames.analyse(path)
    hard, state = [], []
    for q, r in reps.items():
        for kind, what in r.findings():
            if kind == "ambient" and (rel, q) in ALLOWED_AMBIENT:
                continue
            if kind == "ambient" and rel in ALLOWED_AMBIENT_MODULE and re.search(ALLOWED_AMBIENT_MODULE[rel][0], what):
                continue
            if kind == "write" and rel in ALLOWED_WRITES_MODULE and re.search(ALLOWED_WRITES_MODULE[rel][0], what):
                continue
            if kind == "set-iteration" and (rel, q) in ALLOWED_SET_ITERATION:
                continue
            if kind == "write" and (rel, q) in ALLOWED_WRITES and ("parameter" in what or "in-place" in what or "item assignment" in what):
                continue
            (state if kind in STATE_KINDS else hard).append("%s: %s: %s" % (q, kind, what))
    return len(reps), hard, state


def frame_result(rel):
    """the frame obligation of one file.  Ambient reads / set iteration outside the contract refute it outright.  State written outside the frame (a module- or class-level
    container, a memo keyed by a file NAME, an in-place update of a borrowed object) makes the frame condition fail as well, but such state is harmless exactly when no result
    depends on an earlier call -- which no static rule decides (a memo whose key contains everything the result depends on and whose values callers cannot change is a legitimate
    optimisation).  Those findings are therefore UNDECIDED here and handed to the history batteries (fall-back of the obligation): a history that changes a result refutes the
    obligation with that history as the failing input; otherwise it is recorded as not discharged / bounded for this run."""
    path = os.path.join(core.REPO, "cij", rel)
    if not os.path.exists(path):
        return core.unknown("frames", "%s no longer exists" % rel)
    n, hard, state = frame_findings(rel)
    if hard:
        return core.refuted("frames", "%s: %s" % (rel, "; ".join((hard + state)[:6])), witness_id="frame:%s:%s" % (rel, hard[0][:60]))
    if state:
        return core.unknown("frames", "%s: state outside the frame: %s" % (rel, "; ".join(state[:6])))
    return core.proved("frames", "%s: %d functions write nothing reachable from module level / class bodies / mutable defaults, keep no memo of file contents, update no borrowed object in "
                                 "place, read no ambient state beyond their contract, and iterate no set outside the commuting loops" % (rel, n))


# history batteries: native runs of the real code in which a second call / object / calculation collides with the first one on everything a careless cache could be keyed by
def _battery_shear():
    import importlib
    from props import C03
    shear = importlib.import_module("cij.core.phonon_contribution.shear")
    for key in [k for k in C03.all_keys() if k.is_shear]:
        r = C03.native_history(shear, key)
        if r.get("reproduced"):
            return dict(r, key=repr(key))
    return {"reproduced": False}


def _battery_voigt():
    """the same label asked through both algebras in both orders, every spelling twice"""
    from cij.util import voigt
    C, E = voigt.ModulusRepresentation, voigt.StrainRepresentation
    v2s = {1: (1, 1), 2: (2, 2), 3: (3, 3), 4: (2, 3), 5: (1, 3), 6: (1, 2)}
    for first in ("C", "E"):
        for I in range(1, 7):
            for J in range(1, 7):
                lab = "%d%d" % (I, J)
                order = ((C, "C"), (E, "E")) if first == "C" else ((E, "E"), (C, "C"))
                for cls, tag in order:
                    for spelled in (lab, int(lab)):
                        try:
                            got = cls.create(spelled)
                        except Exception:
                            got = None
                        if tag == "C":
                            want = tuple(sorted((I, J)))
                            ok = got is not None and tuple(got.voigt) == want
                        else:
                            ok = (got is None) if not (I <= 3 and J <= 3) else (got is not None and tuple(got.standard) == tuple(sorted((I, J))))
                        if not ok:
                            return {"reproduced": True, "history": "label %r asked as %s after the other algebra saw it" % (spelled, "modulus" if tag == "C" else "strain"), "observed": repr(got)}
    return {"reproduced": False}


def _battery_config():
    import importlib
    from props import C16
    r = C16.apply_default_histories(importlib.import_module("cij.io.config.config"))
    return {"reproduced": r.status == core.REFUTED, "observed": r.detail[:400]} if r.status != core.PROVED else {"reproduced": False}


def _battery_fill():
    from props import C13
    r = C13.static_columns()
    return dict(r.replay or {}, reproduced=True, observed=r.detail[:400]) if r.status == core.REFUTED else {"reproduced": False}


HISTORY = {"core/phonon_contribution/shear.py": [_battery_shear], "util/voigt.py": [_battery_voigt], "io/config/config.py": [_battery_config], "util/fill.py": [_battery_fill],
           "io/traditional/elast_dat.py": [_battery_fill]}


def history_fallback(rel):
    """per-file batteries first, then two colliding calculations interleaved in one process against each alone in a fresh process (contracts/calc_env.interleaving_battery)"""
    from contracts import calc_env
    n = 0
    for b in HISTORY.get(rel, []):
        r = b()
        n += 1
        if r.get("reproduced"):
            return r
    r = calc_env.interleaving_battery()
    if r.get("reproduced"):
        return r
    return {"reproduced": False, "evaluations": n + 6, "note": "history batteries agree with the history-free results: %d file-specific, and two colliding synthetic calculations interleaved in one "
            "process vs each alone in a fresh process" % n}


def anchored_python_files(pid):
    out = []
    with open(os.path.join(core.HERE, "properties.jsonl")) as fp:
        for line in fp:
            p = json.loads(line)
            if p["id"] == pid:
                for f in p["anchors"]["files"]:
                    if f.startswith("cij/") and f.endswith(".py") and not f.endswith("__init__.py") and "/plot/" not in f:
                        out.append(f[len("cij/"):])
    return out


def add(s, pid, extra=()):
    """one frame obligation per Python file the property is anchored in"""
    files = list(dict.fromkeys(anchored_python_files(pid) + list(extra)))
    for rel in files:
        s.oblige("%s.frame[%s]" % (pid, rel), lambda rel=rel: frame_result(rel), ["cij/" + rel + " (frame conditions of every function)"], kind="frame",
                 fallback=lambda rel=rel: history_fallback(rel))
    if files:
        s.assume("E5: the frame analysis is conservative but unsound for setattr / exec / C extensions / aliasing it does not track; LazyProperty caching on the instance "
                 "and logging are not shared state")
    return files
