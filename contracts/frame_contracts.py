"""Frame (modifies / reads) contracts of the package's functions, shared by all properties.

A property proved for one call of a function on symbolic arguments transfers to every call in every history only if the function IS a function of
its arguments: it writes nothing that outlives the call except what its contract names (the instance's own lazily computed results), keeps no
process-wide memo, updates no object it received in place, and reads no ambient state.  These are the frame conditions of the contracts; they are
discharged per anchored file by the conservative AST effect analysis vf/frames.py (E5) against the allowances below, which are part of the contracts
(each names the function or module, the effect, and why it belongs to the specification).
"""
import json, os, re
from vf import core, frames

# ambient reads that are part of a function's specification
ALLOWED_AMBIENT = {
    ("util/fill.py", "fill_cij"): "a path to a relations file may be given in place of a system name: the file system is consulted for exactly that path",
    ("cli/extract.py", "load_data"): "contract of the command: the variable's table is looked up by name in the working directory",
    ("cli/geotherm.py", "load_data"): "contract of the command: the variable's table is looked up by name in the working directory",
}
# loops over sets whose bodies commute (each iteration writes its own cell / key with a value independent of the order)
ALLOWED_SET_ITERATION = {
    ("core/calculator.py", "Calculator._calculate_compliances"): "writes elastic_moduli[:, :, i-1, j-1] for the two index orders of ONE key with the same array: distinct cells, same value",
    ("io/config/config.py", "update_config"): "each iteration writes only output_dict[k] for its own key (loop rule proved in C16)",
    ("util/compliance.py", "reverse_moduli"): "same two-cell symmetric assignment as _calculate_compliances",
}
# in-place updates of objects received from the caller that are part of the function's specification (or rebinding of immutables)
ALLOWED_WRITES = {
    ("core/phonon_contribution/nonshear.py", "clear_gamma_point"): "contract: zeroes the Gamma-acoustic slots of ITS ARGUMENT in place (callers pass a private copy, C01)",
    ("core/mode_gamma.py", "lstsq_polyfit"): "`order += 1` rebinds an integer parameter (immutable): no object is written",
    ("util/fill.py", "fill_cij"): "writes the solved columns into the table it was given (the returned frame may be the input object); values of non-modulus columns are untouched (C08/C09)",
    ("misc/evec_disp2eig.py", "evec_disp2eig"): "works on numpy.copy(a)",
    ("cli/static.py", "main"): "`df = df.iloc[::step, :]` is a fresh frame of the callback's own table; the unit conversions write its columns",
}
# module-level clauses of the same contracts: they hold for whichever function of the module performs the step, so that extracting a helper
# does not change the verdict.  (pattern on the analysis' finding text, reason)
ALLOWED_AMBIENT_MODULE = {
    "util/fill.py": (r"^file-system probe Path\(\w+\)\.is_file\(\)", ALLOWED_AMBIENT[("util/fill.py", "fill_cij")]),
    "cli/extract.py": (r"^glob at line", ALLOWED_AMBIENT[("cli/extract.py", "load_data")]),
    "cli/geotherm.py": (r"^glob at line", ALLOWED_AMBIENT[("cli/geotherm.py", "load_data")]),
}
ALLOWED_WRITES_MODULE = {
    "util/fill.py": (r"^item assignment into (\w+), which is bound to parameter \1 ", ALLOWED_WRITES[("util/fill.py", "fill_cij")]),
}


def frame_result(rel):
    """the frame obligation of one file of the package (path relative to cij/)"""
    path = os.path.join(core.REPO, "cij", rel)
    if not os.path.exists(path):
        return core.unknown("frames", "%s no longer exists" % rel)
    reps = frames.analyse(path)
    bad = []
    for q, r in reps.items():
        for kind, what in r.findings():
            if kind == "ambient" and (rel, q) in ALLOWED_AMBIENT:
                continue
            if kind == "ambient" and rel in ALLOWED_AMBIENT_MODULE and re.search(ALLOWED_AMBIENT_MODULE[rel][0], what):
                continue
            if kind == "write" and rel in ALLOWED_WRITES_MODULE and re.search(ALLOWED_WRITES_MODULE[rel][0], what):
                continue
            if kind == "set-iteration" and (rel, q) in ALLOWED_SET_ITERATION:
                continue
            if kind == "write" and (rel, q) in ALLOWED_WRITES and ("parameter" in what or "in-place" in what or "item assignment" in what):
                continue
            bad.append("%s: %s: %s" % (q, kind, what))
    if bad:
        return core.refuted("frames", "%s: %s" % (rel, "; ".join(bad[:6])), witness_id="frame:%s:%s" % (rel, bad[0][:60]))
    return core.proved("frames", "%s: %d functions write nothing reachable from module level / class bodies / mutable defaults, keep no process-wide memo, update no borrowed object in "
                                 "place, read no ambient state beyond their contract, and iterate no set outside the commuting loops" % (rel, len(reps)))


def anchored_python_files(pid):
    out = []
    with open(os.path.join(core.HERE, "properties.jsonl")) as fp:
        for line in fp:
            p = json.loads(line)
            if p["id"] == pid:
                for f in p["anchors"]["files"]:
                    if f.startswith("cij/") and f.endswith(".py") and not f.endswith("__init__.py") and "/plot/" not in f:
                        out.append(f[len("cij/"):])
    return out


def add(s, pid, extra=()):
    """one frame obligation per Python file the property is anchored in"""
    files = list(dict.fromkeys(anchored_python_files(pid) + list(extra)))
    for rel in files:
        s.oblige("%s.frame[%s]" % (pid, rel), lambda rel=rel: frame_result(rel), ["cij/" + rel + " (frame conditions of every function)"], kind="frame")
    if files:
        s.assume("E5: the frame analysis is conservative but unsound for setattr / exec / C extensions / aliasing it does not track; LazyProperty caching on the instance "
                 "and logging are not shared state")
    return files
