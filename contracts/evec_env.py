"""Symbolic state for the loop rule on cij.misc.evec_sort.evec_sort: lists and square matrices of SYMBOLIC dimension n.

Entries of the overlap matrix live in an uninterpreted sort Cx (real or complex numbers alike) with ZERO and ABS : Cx -> Real,
ABS(ZERO) = 0, ABS >= 0.  Items of the list to be sorted live in an uninterpreted sort Item.  Contract stubs of the numpy
functions the function calls:

  numpy.array(x)            the matrix of a list of vectors (identity on the abstraction)
  numpy.conj(x), x.T        flags on the operand
  a @ b                     conj(base) @ target.T  ->  the overlap matrix M0 (an uninterpreted Int x Int -> Cx function; the
                            dominance precondition speaks about ABS(M0)); target-with-base swapped gives M0's conjugate transpose;
                            any other product is a fresh unrelated matrix (so the proof fails for it)
  numpy.abs(m)              entry-wise ABS
  numpy.argmax(a)           flat index of a maximal entry, first one in row-major order (a ghost pair (r, c))
  numpy.unravel_index(k,s)  (r, c) when s is the shape of the matrix k was taken from
"""
import z3
from vf import core, looprule
from vf.symnp import SB

Cx = z3.DeclareSort("Cx")
Item = z3.DeclareSort("Item")
ZERO = z3.Const("ZERO", Cx)
NONE_ITEM = z3.Const("NoneItem", Item)
ABS = z3.Function("ABS", Cx, z3.RealSort())
M0 = z3.Function("M0", z3.IntSort(), z3.IntSort(), Cx)
TARGET = z3.Function("target_arr", z3.IntSort(), Item)

_fresh = [0]


def fresh(prefix, sort):
    _fresh[0] += 1
    return z3.Const("%s!%d" % (prefix, _fresh[0]), sort)


class Ctx:
    """facts produced by stub contracts and side obligations (index bounds) collected during one execution"""

    def __init__(self, n):
        self.n = n
        self.facts = []          # quantifier-free facts
        self.schemas = []        # (arity, lambda) facts quantified over indices in [0, n)
        self.bounds = []         # (description, z3 Bool) that must hold (IndexError otherwise)
        self.terms = []          # index terms introduced (for instantiation)
        self.matmuls = []        # descriptions of the products formed


CTX = [None]


def ctx():
    return CTX[0]


class SInt:
    """symbolic integer"""

    def __init__(self, z):
        self.z = z if z3.is_expr(z) else z3.IntVal(int(z))

    @staticmethod
    def of(x):
        if isinstance(x, SInt):
            return x.z
        if isinstance(x, bool) or not isinstance(x, int):
            raise core.OutsideSubset("integer expected, got %r" % (x,))
        return z3.IntVal(x)

    def __add__(self, o): return SInt(self.z + SInt.of(o))
    __radd__ = __add__
    def __sub__(self, o): return SInt(self.z - SInt.of(o))
    def __rsub__(self, o): return SInt(SInt.of(o) - self.z)

    def __mul__(self, o):
        if isinstance(o, list):
            return self.__rmul__(o)
        return SInt(self.z * SInt.of(o))

    def __rmul__(self, o):
        if isinstance(o, list):
            if len(o) != 1:
                raise core.OutsideSubset("list of length %d repeated a symbolic number of times" % len(o))
            v = o[0]
            if v is not None and not isinstance(v, ItemVal):
                raise core.OutsideSubset("list of %r repeated a symbolic number of times" % (v,))
            zv = NONE_ITEM if v is None else v.z
            return SymList(self, lambda k, zv=zv: zv)
        return SInt(SInt.of(o) * self.z)

    def __eq__(self, o): return SB(self.z == SInt.of(o))
    def __ne__(self, o): return SB(self.z != SInt.of(o))
    def __lt__(self, o): return SB(self.z < SInt.of(o))
    def __le__(self, o): return SB(self.z <= SInt.of(o))
    def __gt__(self, o): return SB(self.z > SInt.of(o))
    def __ge__(self, o): return SB(self.z >= SInt.of(o))
    def __hash__(self): return hash(self.z)
    def __index__(self): raise looprule.Unavailable("a concrete integer is needed where only the symbolic dimension is known")
    def __repr__(self): return "SInt(%s)" % self.z


class ItemVal:
    def __init__(self, z):
        self.z = z

    def __repr__(self):
        return "Item(%s)" % self.z


class SymRange:
    def __init__(self, *a):
        if len(a) == 1:
            self.lo, self.hi = z3.IntVal(0), SInt.of(a[0])
        elif len(a) == 2:
            self.lo, self.hi = SInt.of(a[0]), SInt.of(a[1])
        else:
            raise core.OutsideSubset("range with a step over a symbolic bound")

    def __iter__(self):
        raise looprule.Unavailable("iteration over a range of symbolic length outside the loop under the rule")


def sym_range(*a):
    if all(isinstance(x, int) and not isinstance(x, bool) for x in a):
        return range(*a)
    return SymRange(*a)


def sym_len(x):
    if isinstance(x, (SymList, SymVecs)):
        return x.n
    if isinstance(x, SymMat):
        return x.n
    if isinstance(x, (Ragged, RaggedCat)):
        return x.n
    if isinstance(x, Row):
        return x.length
    if isinstance(x, SymSet):
        return Card(x)
    if isinstance(x, (list, tuple)) and any(isinstance(v, GenericSInt) for v in x):
        raise core.OutsideSubset("len() of a list built by a comprehension over a sequence of symbolic length")
    return len(x)


class SymList:
    """list of Items of symbolic length n"""

    def __init__(self, n, fn):
        self.n, self.fn = n, fn

    def _idx(self, k, what):
        if isinstance(k, int) and not isinstance(k, bool):
            k = SInt(k)
        if not isinstance(k, SInt):
            raise core.OutsideSubset("list index %r" % (k,))
        ctx().bounds.append(("%s index %s within [0, n)" % (what, k.z), z3.And(k.z >= 0, k.z < self.n.z)))
        return k.z

    def __getitem__(self, k):
        z = self._idx(k, "list read")
        return ItemVal(self.fn(z))

    def __setitem__(self, k, v):
        z = self._idx(k, "list write")
        if v is None:
            zv = NONE_ITEM
        elif isinstance(v, ItemVal):
            zv = v.z
        else:
            raise core.OutsideSubset("value %r stored into the result list" % (v,))
        old = self.fn
        self.fn = lambda j, old=old, z=z, zv=zv: z3.If(j == z, zv, old(j))

    def __len__(self):
        raise looprule.Unavailable("len() of a list of symbolic length must be a Python int")

    def __iter__(self):
        raise looprule.Unavailable("iteration over a list of symbolic length")

    def __add__(self, o):
        raise looprule.Unavailable("concatenation of lists of symbolic length")


class SymVecs:
    """a list of n vectors of length n (base_evecs / target_evecs)"""

    def __init__(self, name, n, conj=False, transposed=False):
        self.name, self.n, self.conj, self.transposed = name, n, conj, transposed

    @property
    def T(self):
        return SymVecs(self.name, self.n, self.conj, not self.transposed)

    def transpose(self):
        return self.T

    def conj_(self):
        return SymVecs(self.name, self.n, not self.conj, self.transposed)

    def conjugate(self):
        return self.conj_()

    @property
    def shape(self):
        return (self.n, self.n)

    def __add__(self, o):
        raise looprule.Unavailable("concatenation of lists of symbolic length")

    def __iter__(self):
        raise looprule.Unavailable("iteration over a list of symbolic length")

    def __len__(self):
        raise looprule.Unavailable("len() of a list of symbolic length must be a Python int")

    def __matmul__(self, o):
        if not isinstance(o, SymVecs):
            raise core.OutsideSubset("matrix product with %r" % (o,))
        c = ctx()
        def d(v):
            t = v.name + (".T" if v.transposed else "")
            return "conj(%s)" % t if v.conj else t
        desc = "%s @ %s" % (d(self), d(o))
        c.matmuls.append(desc)
        key = (self.name, self.conj, self.transposed, o.name, o.conj, o.transposed)
        if key == ("base", True, False, "target", False, True):
            # m[i, j] = sum_k conj(base[i][k]) target[j][k]  -- the overlap matrix of the contract
            return SymMat(self.n, lambda i, j: M0(i, j), origin="M0")
        if key == ("target", True, False, "base", False, True):
            # conj(target) @ base.T = (conj(base) @ target.T)^H : same moduli, transposed
            h = z3.Function("M0H", z3.IntSort(), z3.IntSort(), Cx)
            c.schemas.append((2, lambda i, j: ABS(h(i, j)) == ABS(M0(j, i))))
            return SymMat(self.n, lambda i, j: h(i, j), origin="M0^H")
        other = z3.Function("M_%s" % abs(hash(key)), z3.IntSort(), z3.IntSort(), Cx)
        return SymMat(self.n, lambda i, j: other(i, j), origin=desc)


class SymMat:
    """n x n matrix over Cx"""

    def __init__(self, n, elem, origin="", real=False):
        self.n, self.elem, self.origin, self.real = n, elem, origin, real

    @property
    def shape(self):
        return (self.n, self.n)

    @property
    def T(self):
        return SymMat(self.n, lambda i, j, e=self.elem: e(j, i), origin=self.origin + ".T", real=self.real)

    def copy(self):
        return SymMat(self.n, self.elem, self.origin, self.real)

    def _ix(self, k, what):
        if isinstance(k, int) and not isinstance(k, bool):
            k = SInt(k)
        if not isinstance(k, SInt):
            raise core.OutsideSubset("matrix index %r" % (k,))
        ctx().bounds.append(("%s index %s within [0, n)" % (what, k.z), z3.And(k.z >= 0, k.z < self.n.z)))
        return k.z

    def __getitem__(self, key):
        if isinstance(key, tuple) and len(key) == 2 and all(isinstance(k, (SInt, int)) for k in key):
            i, j = self._ix(key[0], "matrix read"), self._ix(key[1], "matrix read")
            return CxVal(self.elem(i, j))
        raise core.OutsideSubset("matrix read with key %r" % (key,))

    def __setitem__(self, key, value):
        if self.real:
            raise core.OutsideSubset("assignment into |m|")
        if isinstance(value, CxVal):
            zv = value.z
        elif isinstance(value, (int, float)) and not isinstance(value, bool) and value == 0:
            zv = ZERO
        else:
            raise core.OutsideSubset("matrix entries set to %r" % (value,))
        if not (isinstance(key, tuple) and len(key) == 2):
            raise core.OutsideSubset("matrix write with key %r" % (key,))
        a, b = key
        full = slice(None, None, None)
        old = self.elem
        if a == full if isinstance(a, slice) else False:
            c = self._ix(b, "matrix column write")
            self.elem = lambda i, j, old=old, c=c, zv=zv: z3.If(j == c, zv, old(i, j))
        elif b == full if isinstance(b, slice) else False:
            r = self._ix(a, "matrix row write")
            self.elem = lambda i, j, old=old, r=r, zv=zv: z3.If(i == r, zv, old(i, j))
        elif isinstance(a, (SInt, int)) and isinstance(b, (SInt, int)):
            r, c = self._ix(a, "matrix write"), self._ix(b, "matrix write")
            self.elem = lambda i, j, old=old, r=r, c=c, zv=zv: z3.If(z3.And(i == r, j == c), zv, old(i, j))
        else:
            raise core.OutsideSubset("matrix write with key %r" % (key,))

    def __abs__(self):
        return SymMat(self.n, lambda i, j, e=self.elem: ABS(e(i, j)), origin="|%s|" % self.origin, real=True)

    def __iter__(self):
        raise looprule.Unavailable("iteration over a matrix of symbolic size")


class CxVal:
    def __init__(self, z):
        self.z = z

    def _cmp(self, o):
        raise core.OutsideSubset("ordering comparison of a matrix entry (threshold branch) is outside the contract (threshold is None)")

    __lt__ = __le__ = __gt__ = __ge__ = _cmp


class FlatIndex:
    def __init__(self, r, c, mat):
        self.r, self.c, self.mat = r, c, mat


class NumpyStub:
    """contract stubs of the numpy functions evec_sort uses; anything else is outside the subset"""

    def array(self, x, *a, **k):
        if isinstance(x, (SymVecs, SymMat)):
            return x
        if isinstance(x, Ragged):
            raise ReachedMatrix(x.name)
        raise core.OutsideSubset("numpy.array(%r)" % (x,))

    asarray = array

    def conj(self, x):
        if isinstance(x, SymVecs):
            return x.conj_()
        raise core.OutsideSubset("numpy.conj(%r)" % (x,))

    conjugate = conj

    def transpose(self, x):
        return x.T

    def abs(self, x):
        if isinstance(x, SymMat):
            return abs(x)
        raise core.OutsideSubset("numpy.abs(%r)" % (x,))

    absolute = abs

    def matmul(self, a, b):
        return a @ b

    def dot(self, a, b):
        return a @ b

    def argmax(self, a, axis=None):
        if not isinstance(a, SymMat) or axis is not None:
            raise core.OutsideSubset("numpy.argmax(%r, axis=%r)" % (a, axis))
        if not a.real:
            raise core.OutsideSubset("numpy.argmax of a (possibly complex) matrix: numpy orders complex numbers lexicographically; the contract is about |m|")
        c = ctx()
        r, cc = fresh("r", z3.IntSort()), fresh("c", z3.IntSort())
        n = a.n.z
        c.terms += [r, cc]
        c.facts += [r >= 0, r < n, cc >= 0, cc < n]
        e = a.elem
        # contract of numpy.argmax on the flattened (row-major) array: a maximal entry, the first of them
        c.schemas.append((2, lambda i, j, e=e, r=r, cc=cc: e(i, j) <= e(r, cc)))
        c.schemas.append((2, lambda i, j, e=e, r=r, cc=cc: z3.Implies(z3.Or(i < r, z3.And(i == r, j < cc)), e(i, j) < e(r, cc))))
        return FlatIndex(r, cc, a)

    def unravel_index(self, k, shape):
        if not isinstance(k, FlatIndex):
            raise core.OutsideSubset("numpy.unravel_index(%r)" % (k,))
        ok = isinstance(shape, tuple) and len(shape) == 2 and all(isinstance(d, SInt) for d in shape) and \
            all(z3.eq(d.z, k.mat.n.z) for d in shape)
        if not ok:
            raise core.OutsideSubset("numpy.unravel_index with a shape that is not the shape of the matrix the flat index was taken from")
        return (SInt(k.r), SInt(k.c))

    def __getattr__(self, name):
        raise core.OutsideSubset("numpy.%s is not among the contract stubs of the evec_sort harness" % name)


# ---------------------------------------------------------------------------------------------------------------------------
# the dimension check in front of evec_sort's loop, for lists of vectors of ARBITRARY (not necessarily square) symbolic shape
#
#   Ragged(name, n, L)      a list of n rows, row k has length L(k)       (n an SInt, L an uninterpreted Int -> Int function)
#   a + b                   RaggedCat: length a.n + b.n, row g is a's row g for g < a.n, b's row g - a.n otherwise
#   a[i:j]                  RaggedSlice (constant non-negative bounds, no step): rows min(n, i) .. min(n, j) - 1
#   for x in <ragged>       MAP RULE for comprehensions: the iterator yields ONE generic row (index g, 0 <= g < length) with branching
#                           switched off (symnp.NO_FORK), so the element expression is evaluated once, on the generic row; what it returns
#                           (a GenericSInt) stands for the family { value(g) : 0 <= g < length } and refuses every operation (comparison,
#                           arithmetic, hashing, indexing, truth) except being collected by the `set` stub, so that anything that is not an
#                           element-wise map into a set construction ends as OutsideSubset, never as a wrong verdict
#   set([...])              SymSet of listed members and families;  len(s) == 1  <=>  every member and every family value equals the first
#                           listed member;  x in s  <=>  x equals a listed member or some family value
#   numpy.array(<ragged>)   ReachedMatrix: the check let the input through


class ReachedMatrix(Exception):
    """the code went on to build the overlap matrix, i.e. the dimension check accepted the input"""


class GenericSInt:
    """value of an element-wise map at the generic index g of a sequence of symbolic length `total`"""

    def __init__(self, z, g, total):
        self.z, self.g, self.total = z, g, total

    def _no(self, *a, **k):
        raise core.OutsideSubset("a value computed from the GENERIC element of a sequence of symbolic length is used outside a set construction")

    __eq__ = __ne__ = __lt__ = __le__ = __gt__ = __ge__ = __add__ = __radd__ = __sub__ = __rsub__ = __mul__ = __rmul__ = _no
    __bool__ = __index__ = __int__ = __float__ = __hash__ = __neg__ = __abs__ = __floordiv__ = __truediv__ = __mod__ = _no

    def __repr__(self):
        return "GenericSInt(%s for 0 <= %s < %s)" % (self.z, self.g, self.total)


class Row:
    def __init__(self, length):
        self.length = length

    def __len__(self):
        raise looprule.Unavailable("len() of a row of symbolic length must be a Python int")

    def __iter__(self):
        raise core.OutsideSubset("iteration over a row of symbolic length")


class _RaggedBase:
    def rowlen(self, g):
        raise NotImplementedError

    def __iter__(self):
        from vf import symnp
        g = fresh("g", z3.IntSort())
        symnp.NO_FORK[0] += 1
        try:
            yield Row(GenericSInt(self.rowlen(g), g, self.n.z))
        finally:
            symnp.NO_FORK[0] -= 1

    def __len__(self):
        raise looprule.Unavailable("len() of a list of symbolic length must be a Python int")

    def __getitem__(self, k):
        # slices with constant non-negative bounds and no step: rows min(n, start) .. min(n, stop) - 1 of the list (Python's list slicing)
        if isinstance(k, slice) and k.step is None and all(b is None or (isinstance(b, int) and not isinstance(b, bool) and b >= 0) for b in (k.start, k.stop)):
            n = self.n.z
            lo = z3.IntVal(0) if k.start is None else z3.If(n < k.start, n, z3.IntVal(k.start))
            hi = n if k.stop is None else z3.If(n < k.stop, n, z3.IntVal(k.stop))
            return RaggedSlice(self, lo, z3.If(hi - lo < 0, z3.IntVal(0), hi - lo))
        raise core.OutsideSubset("indexing a list of vectors of symbolic shape with %r" % (k,))

    def __add__(self, o):
        if not isinstance(o, _RaggedBase):
            raise core.OutsideSubset("concatenation with %r" % (o,))
        return RaggedCat(self, o)


class Ragged(_RaggedBase):
    def __init__(self, name, n, L):
        self.name, self.n, self.L = name, n, L

    def rowlen(self, g):
        return self.L(g)


class RaggedCat(_RaggedBase):
    def __init__(self, a, b):
        self.a, self.b = a, b
        self.n = SInt(a.n.z + b.n.z)

    def rowlen(self, g):
        return z3.If(g < self.a.n.z, self.a.rowlen(g), self.b.rowlen(g - self.a.n.z))


class RaggedSlice(_RaggedBase):
    def __init__(self, base, lo, count):
        self.base, self.lo, self.n = base, lo, SInt(count)

    def rowlen(self, g):
        return self.base.rowlen(g + self.lo)


class SymSet:
    def __init__(self, items):
        self.members, self.families = [], []
        for v in items:
            if isinstance(v, GenericSInt):
                self.families.append(v)
            elif isinstance(v, SInt):
                self.members.append(v.z)
            elif isinstance(v, int) and not isinstance(v, bool):
                self.members.append(z3.IntVal(v))
            else:
                raise core.OutsideSubset("set member %r" % (v,))
        if not self.members:
            raise core.OutsideSubset("a set without a listed member")

    def all_equal_first(self):
        m0 = self.members[0]
        out = [m == m0 for m in self.members[1:]]
        for f in self.families:
            out.append(z3.ForAll([f.g], z3.Implies(z3.And(f.g >= 0, f.g < f.total), f.z == m0)))
        return z3.And(*out) if out else z3.BoolVal(True)

    def contains(self, x):
        out = [m == x for m in self.members]
        for f in self.families:
            out.append(z3.Exists([f.g], z3.And(f.g >= 0, f.g < f.total, f.z == x)))
        return z3.Or(*out)

    def __contains__(self, x):
        from vf import symnp
        return symnp.truth(self.contains(SInt.of(x)))

    def __len__(self):
        raise looprule.Unavailable("len() of a set of symbolic integers must be a Python int")

    def __iter__(self):
        raise core.OutsideSubset("iteration over a set of symbolic integers")


class Card:
    """len(<SymSet>): only the comparison with 1 has a contract"""

    def __init__(self, s):
        self.s = s

    def __eq__(self, o):
        if not (isinstance(o, int) and not isinstance(o, bool) and o == 1):
            raise core.OutsideSubset("cardinality of a symbolic set compared with %r" % (o,))
        return SB(self.s.all_equal_first())

    def __ne__(self, o):
        if not (isinstance(o, int) and not isinstance(o, bool) and o == 1):
            raise core.OutsideSubset("cardinality of a symbolic set compared with %r" % (o,))
        return SB(z3.Not(self.s.all_equal_first()))

    __hash__ = None


def sym_set(items=()):
    items = list(items) if isinstance(items, (list, tuple)) else items
    if isinstance(items, list) and any(isinstance(v, (SInt, GenericSInt)) for v in items):
        return SymSet(items)
    return set(items)
