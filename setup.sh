#!/bin/sh
# Build the overlay venv /verif/.ov offline: the repository's interpreter (/venv, python 3.12 with
# numpy/scipy/pandas/qha and the editable install of /repo) plus the verification wheels
# (z3-solver, cvc5, deal, icontract, crosshair-tool, hypothesis) from the local wheelhouse.
set -e
HERE="$(cd "$(dirname "$0")" && pwd)"
OV="$HERE/.ov"
STAMP="$OV/.ok"
if [ -f "$STAMP" ] && "$OV/bin/python" -c 'import z3, cvc5, numpy, cij' >/dev/null 2>&1; then
  exit 0
fi
rm -rf "$OV"
/venv/bin/python -m venv "$OV"
PIP_NO_INDEX=1 "$OV/bin/pip" install -q --no-index --find-links /opt/veriftools/wheels \
    z3-solver cvc5 deal icontract crosshair-tool hypothesis >/dev/null
SP="$("$OV/bin/python" -c 'import sysconfig; print(sysconfig.get_paths()["purelib"])')"
echo "import site; site.addsitedir('/venv/lib/python3.12/site-packages')" > "$SP/_base.pth"
"$OV/bin/python" -c 'import z3, cvc5, numpy, sympy, cij, os; assert os.path.realpath(cij.__file__).startswith("/repo/"), cij.__file__'
touch "$STAMP"
