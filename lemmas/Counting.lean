/-
Counting facts used by the loop rule on `evec_sort` (props/C20.py): the ghost counter `|done| = k` of the invariant.

* `exists_not_done`   : fewer than n done rows among n rows  ->  some row is not done      (premise 2: an undone row exists while k < n)
* `card_insert_done`  : marking a row that was not done increases the count by one         (premise 2: |done'| = k + 1)
* `all_done_of_card`  : n done rows among n rows  ->  every row is done                    (premise 3: at exit k = n)
-/
import Mathlib

open Finset

theorem exists_not_done (n : ℕ) (done : Fin n → Prop) [DecidablePred done]
    (h : (univ.filter done).card < n) : ∃ x, ¬ done x := by
  by_contra hc
  push Not at hc
  have hall : univ.filter done = univ := by
    apply filter_true_of_mem
    intro x _
    exact hc x
  rw [hall, card_univ, Fintype.card_fin] at h
  exact lt_irrefl _ h

theorem all_done_of_card (n : ℕ) (done : Fin n → Prop) [DecidablePred done]
    (h : (univ.filter done).card = n) : ∀ x, done x := by
  intro x
  have hall : univ.filter done = univ := by
    apply eq_univ_of_card
    rw [h, Fintype.card_fin]
  have hx : x ∈ univ.filter done := by
    rw [hall]
    exact mem_univ x
  exact (mem_filter.mp hx).2

theorem card_insert_done (n : ℕ) (done : Fin n → Prop) [DecidablePred done] (r : Fin n) (hr : ¬ done r) :
    (univ.filter (fun x => done x ∨ x = r)).card = (univ.filter done).card + 1 := by
  have hset : univ.filter (fun x => done x ∨ x = r) = insert r (univ.filter done) := by
    ext x
    simp only [mem_filter, mem_univ, true_and, mem_insert]
    tauto
  rw [hset, card_insert_of_notMem]
  simp [hr]
