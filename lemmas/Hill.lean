import Mathlib

open Matrix

section general
variable {n : Type*} [Fintype n] [DecidableEq n]

theorem cs_posdef (C : Matrix n n ℝ) (hC : C.PosDef) (x y : n → ℝ) :
    (x ⬝ᵥ y) ^ 2 ≤ (x ⬝ᵥ C.mulVec x) * (y ⬝ᵥ C⁻¹.mulVec y) := by
  have hdet : IsUnit C.det := (ne_of_gt hC.det_pos).isUnit
  have hsym : Cᵀ = C := by
    rw [← Matrix.conjTranspose_eq_transpose_of_trivial]
    exact hC.isHermitian.eq
  set w := C⁻¹.mulVec y with hw
  have hCw : C.mulVec w = y := by
    rw [hw, Matrix.mulVec_mulVec, Matrix.mul_nonsing_inv C hdet, Matrix.one_mulVec]
  have key : ∀ t : ℝ, 0 ≤ (x ⬝ᵥ C.mulVec x) * (t * t) + (-2 * (x ⬝ᵥ y)) * t + (y ⬝ᵥ w) := by
    intro t
    have h := hC.posSemidef.dotProduct_mulVec_nonneg (w - t • x)
    simp only [star_trivial] at h
    have e1 : (w - t • x) ⬝ᵥ C.mulVec (w - t • x)
        = w ⬝ᵥ C.mulVec w - t * (w ⬝ᵥ C.mulVec x) - t * (x ⬝ᵥ C.mulVec w) + t * t * (x ⬝ᵥ C.mulVec x) := by
      simp [Matrix.mulVec_sub, Matrix.mulVec_smul, sub_dotProduct, dotProduct_sub, smul_dotProduct, dotProduct_smul]
      ring
    have e2 : w ⬝ᵥ C.mulVec x = x ⬝ᵥ y := by
      rw [Matrix.dotProduct_mulVec, ← Matrix.mulVec_transpose, hsym, hCw, dotProduct_comm]
    rw [e1, hCw, e2] at h
    have e3 : w ⬝ᵥ y = y ⬝ᵥ w := dotProduct_comm _ _
    rw [e3] at h
    nlinarith [h]
  have hd := discrim_le_zero key
  unfold discrim at hd
  nlinarith [hd]

theorem quad_pos (C : Matrix n n ℝ) (hC : C.PosDef) (x : n → ℝ) (hx : x ≠ 0) : 0 < x ⬝ᵥ C.mulVec x := by
  have := hC.dotProduct_mulVec_pos hx
  simpa using this
end general

/-- pairwise arithmetic-geometric step -/
theorem pair_bound (a b c d : ℝ) (ha : 0 < a) (hb : 0 < b) (hc : 0 < c) (hd : 0 < d)
    (h1 : 9 ≤ a * b) (h2 : 9 ≤ c * d) : 18 ≤ a * d + c * b := by
  by_contra hlt
  push_neg at hlt
  have hpos : 0 < a * d + c * b := by positivity
  have hsq : (a * d + c * b) ^ 2 < 324 := by nlinarith
  have hprod : 81 ≤ (a * b) * (c * d) := by nlinarith [mul_le_mul h1 h2 (by norm_num) (by positivity)]
  nlinarith [sq_nonneg (a * d - c * b)]

/-- five positive pairs with products >= 9: (sum a)(sum b) >= 225 -/
theorem sum5_bound (a1 a2 a3 a4 a5 b1 b2 b3 b4 b5 : ℝ)
    (pa1 : 0 < a1) (pa2 : 0 < a2) (pa3 : 0 < a3) (pa4 : 0 < a4) (pa5 : 0 < a5)
    (pb1 : 0 < b1) (pb2 : 0 < b2) (pb3 : 0 < b3) (pb4 : 0 < b4) (pb5 : 0 < b5)
    (h1 : 9 ≤ a1 * b1) (h2 : 9 ≤ a2 * b2) (h3 : 9 ≤ a3 * b3) (h4 : 9 ≤ a4 * b4) (h5 : 9 ≤ a5 * b5) :
    225 ≤ (a1 + a2 + a3 + a4 + a5) * (b1 + b2 + b3 + b4 + b5) := by
  have p12 := pair_bound a1 b1 a2 b2 pa1 pb1 pa2 pb2 h1 h2
  have p13 := pair_bound a1 b1 a3 b3 pa1 pb1 pa3 pb3 h1 h3
  have p14 := pair_bound a1 b1 a4 b4 pa1 pb1 pa4 pb4 h1 h4
  have p15 := pair_bound a1 b1 a5 b5 pa1 pb1 pa5 pb5 h1 h5
  have p23 := pair_bound a2 b2 a3 b3 pa2 pb2 pa3 pb3 h2 h3
  have p24 := pair_bound a2 b2 a4 b4 pa2 pb2 pa4 pb4 h2 h4
  have p25 := pair_bound a2 b2 a5 b5 pa2 pb2 pa5 pb5 h2 h5
  have p34 := pair_bound a3 b3 a4 b4 pa3 pb3 pa4 pb4 h3 h4
  have p35 := pair_bound a3 b3 a5 b5 pa3 pb3 pa5 pb5 h3 h5
  have p45 := pair_bound a4 b4 a5 b5 pa4 pb4 pa5 pb5 h4 h5
  nlinarith

section hill

theorem sym_of_posdef (M : Matrix (Fin 6) (Fin 6) ℝ) (hM : M.PosDef) (i j : Fin 6) : M i j = M j i := by
  have h : Mᵀ = M := by
    rw [← Matrix.conjTranspose_eq_transpose_of_trivial]
    exact hM.isHermitian.eq
  have := congrFun (congrFun h j) i
  simpa using this

def uK : Fin 6 → ℝ := ![1, 1, 1, 0, 0, 0]
def d1 : Fin 6 → ℝ := ![1, -1, 0, 0, 0, 0]
def d2 : Fin 6 → ℝ := ![1, 1, -2, 0, 0, 0]
def e4 : Fin 6 → ℝ := ![0, 0, 0, 1, 0, 0]
def e5 : Fin 6 → ℝ := ![0, 0, 0, 0, 1, 0]
def e6 : Fin 6 → ℝ := ![0, 0, 0, 0, 0, 1]

theorem qf_uK (M : Matrix (Fin 6) (Fin 6) ℝ) (hM : M.PosDef) :
    uK ⬝ᵥ M.mulVec uK = M 0 0 + M 1 1 + M 2 2 + 2 * (M 0 1 + M 1 2 + M 0 2) := by
  have s10 := sym_of_posdef M hM 1 0
  have s20 := sym_of_posdef M hM 2 0
  have s21 := sym_of_posdef M hM 2 1
  simp [uK, dotProduct, Matrix.mulVec, Fin.sum_univ_succ]
  rw [s10, s20, s21]
  ring

theorem qf_d1 (M : Matrix (Fin 6) (Fin 6) ℝ) (hM : M.PosDef) :
    d1 ⬝ᵥ M.mulVec d1 = M 0 0 + M 1 1 - 2 * M 0 1 := by
  have s10 := sym_of_posdef M hM 1 0
  simp [d1, dotProduct, Matrix.mulVec, Fin.sum_univ_succ]
  rw [s10]
  ring

theorem qf_d2 (M : Matrix (Fin 6) (Fin 6) ℝ) (hM : M.PosDef) :
    d2 ⬝ᵥ M.mulVec d2 = M 0 0 + M 1 1 + 4 * M 2 2 + 2 * M 0 1 - 4 * M 0 2 - 4 * M 1 2 := by
  have s10 := sym_of_posdef M hM 1 0
  have s20 := sym_of_posdef M hM 2 0
  have s21 := sym_of_posdef M hM 2 1
  simp [d2, dotProduct, Matrix.mulVec, Fin.sum_univ_succ]
  rw [s10, s20, s21]
  ring

theorem qf_e4 (M : Matrix (Fin 6) (Fin 6) ℝ) : e4 ⬝ᵥ M.mulVec e4 = M 3 3 := by
  simp [e4, dotProduct, Matrix.mulVec, Fin.sum_univ_succ]
theorem qf_e5 (M : Matrix (Fin 6) (Fin 6) ℝ) : e5 ⬝ᵥ M.mulVec e5 = M 4 4 := by
  simp [e5, dotProduct, Matrix.mulVec, Fin.sum_univ_succ]
theorem qf_e6 (M : Matrix (Fin 6) (Fin 6) ℝ) : e6 ⬝ᵥ M.mulVec e6 = M 5 5 := by
  simp [e6, dotProduct, Matrix.mulVec, Fin.sum_univ_succ]

theorem ne_zero_of_entry (x : Fin 6 → ℝ) (i : Fin 6) (h : x i ≠ 0) : x ≠ 0 := by
  intro hx; apply h; rw [hx]; rfl

/-- Reuss bulk modulus <= Voigt bulk modulus for a positive definite 6x6 stiffness (Voigt notation, 0-based indices). -/
theorem reuss_le_voigt_bulk (C : Matrix (Fin 6) (Fin 6) ℝ) (hC : C.PosDef) :
    1 / (C⁻¹ 0 0 + C⁻¹ 1 1 + C⁻¹ 2 2 + 2 * (C⁻¹ 0 1 + C⁻¹ 1 2 + C⁻¹ 0 2))
      ≤ (C 0 0 + C 1 1 + C 2 2 + 2 * (C 0 1 + C 1 2 + C 0 2)) / 9 := by
  have hS : C⁻¹.PosDef := hC.inv
  have hne : uK ≠ 0 := ne_zero_of_entry uK 0 (by simp [uK])
  have h := cs_posdef C hC uK uK
  have pC := quad_pos C hC uK hne
  have pS := quad_pos C⁻¹ hS uK hne
  rw [qf_uK C hC] at h pC
  rw [qf_uK C⁻¹ hS] at h pS
  have huu : uK ⬝ᵥ uK = 3 := by simp [uK, dotProduct, Fin.sum_univ_succ]; norm_num
  rw [huu] at h
  rw [div_le_div_iff₀ pS (by norm_num : (0:ℝ) < 9)]
  nlinarith [h]

theorem shear_arith (α1 α2 a4 a5 a6 β1 β2 b4 b5 b6 : ℝ)
    (h1 : 0 < α1) (h2 : 0 < α2) (h4 : 0 < a4) (h5 : 0 < a5) (h6 : 0 < a6)
    (k1 : 0 < β1) (k2 : 0 < β2) (k4 : 0 < b4) (k5 : 0 < b5) (k6 : 0 < b6)
    (c1 : (2:ℝ) ^ 2 ≤ α1 * β1) (c2 : (6:ℝ) ^ 2 ≤ α2 * β2) (c4 : (1:ℝ) ^ 2 ≤ a4 * b4)
    (c5 : (1:ℝ) ^ 2 ≤ a5 * b5) (c6 : (1:ℝ) ^ 2 ≤ a6 * b6) :
    15 / (3 * β1 + β2 + 3 * b4 + 3 * b5 + 3 * b6) ≤ (3 / 4 * α1 + 1 / 4 * α2 + 3 * a4 + 3 * a5 + 3 * a6) / 15 := by
  have key := sum5_bound (3 / 4 * α1) (1 / 4 * α2) (3 * a4) (3 * a5) (3 * a6)
      (3 * β1) β2 (3 * b4) (3 * b5) (3 * b6)
      (by positivity) (by positivity) (by positivity) (by positivity) (by positivity)
      (by positivity) k2 (by positivity) (by positivity) (by positivity)
      (by nlinarith [c1]) (by nlinarith [c2]) (by nlinarith [c4]) (by nlinarith [c5]) (by nlinarith [c6])
  have hD : 0 < 3 * β1 + β2 + 3 * b4 + 3 * b5 + 3 * b6 := by positivity
  rw [div_le_div_iff₀ hD (by norm_num : (0:ℝ) < 15)]
  nlinarith [key]

theorem cs_self (M : Matrix (Fin 6) (Fin 6) ℝ) (hM : M.PosDef) (x : Fin 6 → ℝ) (c : ℝ) (hx : x ⬝ᵥ x = c) :
    c ^ 2 ≤ (x ⬝ᵥ M.mulVec x) * (x ⬝ᵥ M⁻¹.mulVec x) := by
  have := cs_posdef M hM x x
  rwa [hx] at this

/-- Reuss shear modulus <= Voigt shear modulus. -/
theorem reuss_le_voigt_shear (C : Matrix (Fin 6) (Fin 6) ℝ) (hC : C.PosDef) :
    15 / (4 * (C⁻¹ 0 0 + C⁻¹ 1 1 + C⁻¹ 2 2) - 4 * (C⁻¹ 0 1 + C⁻¹ 1 2 + C⁻¹ 0 2) + 3 * (C⁻¹ 3 3 + C⁻¹ 4 4 + C⁻¹ 5 5))
      ≤ ((C 0 0 + C 1 1 + C 2 2) - (C 0 1 + C 1 2 + C 0 2) + 3 * (C 3 3 + C 4 4 + C 5 5)) / 15 := by
  have hS : C⁻¹.PosDef := hC.inv
  have n1 : d1 ≠ 0 := ne_zero_of_entry d1 0 (by simp [d1])
  have n2 : d2 ≠ 0 := ne_zero_of_entry d2 0 (by simp [d2])
  have n4 : e4 ≠ 0 := ne_zero_of_entry e4 3 (by simp [e4])
  have n5 : e5 ≠ 0 := ne_zero_of_entry e5 4 (by simp [e5])
  have n6 : e6 ≠ 0 := ne_zero_of_entry e6 5 (by simp [e6])
  have u1 : d1 ⬝ᵥ d1 = 2 := by simp [d1, dotProduct, Fin.sum_univ_succ]; norm_num
  have u2 : d2 ⬝ᵥ d2 = 6 := by simp [d2, dotProduct, Fin.sum_univ_succ]; norm_num
  have u4 : e4 ⬝ᵥ e4 = 1 := by simp [e4, dotProduct, Fin.sum_univ_succ]
  have u5 : e5 ⬝ᵥ e5 = 1 := by simp [e5, dotProduct, Fin.sum_univ_succ]
  have u6 : e6 ⬝ᵥ e6 = 1 := by simp [e6, dotProduct, Fin.sum_univ_succ]
  have h := shear_arith _ _ _ _ _ _ _ _ _ _
    (quad_pos C hC d1 n1) (quad_pos C hC d2 n2) (quad_pos C hC e4 n4) (quad_pos C hC e5 n5) (quad_pos C hC e6 n6)
    (quad_pos C⁻¹ hS d1 n1) (quad_pos C⁻¹ hS d2 n2) (quad_pos C⁻¹ hS e4 n4) (quad_pos C⁻¹ hS e5 n5) (quad_pos C⁻¹ hS e6 n6)
    (cs_self C hC d1 2 u1) (cs_self C hC d2 6 u2) (cs_self C hC e4 1 u4) (cs_self C hC e5 1 u5) (cs_self C hC e6 1 u6)
  rw [qf_d1 C hC, qf_d2 C hC, qf_d1 C⁻¹ hS, qf_d2 C⁻¹ hS, qf_e4, qf_e5, qf_e6, qf_e4, qf_e5, qf_e6] at h
  have e1 : 3 * (C⁻¹ 0 0 + C⁻¹ 1 1 - 2 * C⁻¹ 0 1) + (C⁻¹ 0 0 + C⁻¹ 1 1 + 4 * C⁻¹ 2 2 + 2 * C⁻¹ 0 1 - 4 * C⁻¹ 0 2 - 4 * C⁻¹ 1 2)
      + 3 * C⁻¹ 3 3 + 3 * C⁻¹ 4 4 + 3 * C⁻¹ 5 5
      = 4 * (C⁻¹ 0 0 + C⁻¹ 1 1 + C⁻¹ 2 2) - 4 * (C⁻¹ 0 1 + C⁻¹ 1 2 + C⁻¹ 0 2) + 3 * (C⁻¹ 3 3 + C⁻¹ 4 4 + C⁻¹ 5 5) := by ring
  have e2 : 3 / 4 * (C 0 0 + C 1 1 - 2 * C 0 1) + 1 / 4 * (C 0 0 + C 1 1 + 4 * C 2 2 + 2 * C 0 1 - 4 * C 0 2 - 4 * C 1 2)
      + 3 * C 3 3 + 3 * C 4 4 + 3 * C 5 5
      = (C 0 0 + C 1 1 + C 2 2) - (C 0 1 + C 1 2 + C 0 2) + 3 * (C 3 3 + C 4 4 + C 5 5) := by ring
  rw [e1, e2] at h
  exact h

/-- Hill (arithmetic mean) lies between Reuss and Voigt once Reuss <= Voigt. -/
theorem hill_between (r v : ℝ) (h : r ≤ v) : r ≤ (v + r) / 2 ∧ (v + r) / 2 ≤ v := by
  constructor <;> linarith

end hill
