/-
Finite-sum lemmas used by the sum rules of vf/symnp.py (assumption register: A-SUMS).
Each reduction `SUM_d body` of the engine is `∑ j ∈ Finset.range n, body j` over the reals.

  linearity   : a factor free of the bound index moves through the sum; sums add
  congruence  : equal bodies on the index range give equal sums
  combination : a linear combination of sums over the same range is the sum of the combination
  positivity  : a sum of positive terms over a non-empty range is positive
  permutation : re-indexing by a bijection of the index range leaves the sum unchanged (C13)
  weights     : a weighted average is invariant under scaling all weights (C13)
-/
import Mathlib

open Finset

theorem sum_linearity (n : ℕ) (c : ℝ) (f : ℕ → ℝ) :
    c * ∑ j ∈ range n, f j = ∑ j ∈ range n, c * f j := by
  rw [Finset.mul_sum]

theorem sum_congruence (n : ℕ) (f g : ℕ → ℝ) (h : ∀ j, j < n → f j = g j) :
    ∑ j ∈ range n, f j = ∑ j ∈ range n, g j := by
  apply Finset.sum_congr rfl
  intro j hj
  exact h j (Finset.mem_range.mp hj)

theorem sum_combination (n : ℕ) (c₁ c₂ : ℝ) (f g : ℕ → ℝ) :
    c₁ * ∑ j ∈ range n, f j + c₂ * ∑ j ∈ range n, g j = ∑ j ∈ range n, (c₁ * f j + c₂ * g j) := by
  rw [Finset.mul_sum, Finset.mul_sum, ← Finset.sum_add_distrib]

theorem sum_zero_of_body_zero (n : ℕ) (f : ℕ → ℝ) (h : ∀ j, j < n → f j = 0) :
    ∑ j ∈ range n, f j = 0 := by
  apply Finset.sum_eq_zero
  intro j hj
  exact h j (Finset.mem_range.mp hj)

theorem sum_positivity (n : ℕ) (hn : 1 ≤ n) (f : ℕ → ℝ) (h : ∀ j, j < n → 0 < f j) :
    0 < ∑ j ∈ range n, f j := by
  apply Finset.sum_pos
  · intro j hj
    exact h j (Finset.mem_range.mp hj)
  · exact ⟨0, Finset.mem_range.mpr (by omega)⟩

theorem sum_permutation (n : ℕ) (σ : Equiv.Perm (Fin n)) (f : Fin n → ℝ) :
    ∑ j, f (σ j) = ∑ j, f j :=
  Equiv.sum_comp σ f

theorem weighted_average_scale (n : ℕ) (lam : ℝ) (hl : lam ≠ 0) (w x : ℕ → ℝ)
    (hw : ∑ j ∈ range n, w j ≠ 0) :
    (∑ j ∈ range n, (lam * w j) * x j) / (∑ j ∈ range n, lam * w j)
      = (∑ j ∈ range n, w j * x j) / (∑ j ∈ range n, w j) := by
  have h1 : ∑ j ∈ range n, (lam * w j) * x j = lam * ∑ j ∈ range n, w j * x j := by
    rw [Finset.mul_sum]
    apply Finset.sum_congr rfl
    intro j _
    ring
  have h2 : ∑ j ∈ range n, lam * w j = lam * ∑ j ∈ range n, w j := by
    rw [Finset.mul_sum]
  rw [h1, h2]
  field_simp
