"""Independent native evaluation of the C01/C02 property statement: high-precision numerical volume/temperature
derivatives (mpmath) of the vibrational free energy of a small synthetic spectrum.  Used only for replay.

Spectrum: each mode has, at grid volume V_v, frequency w, Grueneisen parameter gamma and V dgamma/dV = g1; the
local volume dependence  ln w(V') = ln w - gamma x - g1 x^2/2,  x = ln(V'/V_v)  realises exactly these values.
"""
import random
import mpmath as mp
import numpy

mp.mp.dps = 50

H_SI, C_SI, KB_SI, E_SI = mp.mpf("6.62607015e-34"), mp.mpf("299792458"), mp.mpf("1.380649e-23"), mp.mpf("1.602176634e-19")
RY_EV = mp.mpf("13.605693122990")     # CODATA 2022 Rydberg energy in eV
RY_J = RY_EV * E_SI
H_RYCM = H_SI * C_SI * 100 / RY_J      # hc in Ry cm
K_RYK = KB_SI / RY_J                   # k_B in Ry/K


def fph(Vp, T, v, data, part):
    """F_ph per cell at volume Vp near grid volume index v (weights normalised, Gamma acoustic excluded)"""
    V0 = mp.mpf(data["V"][v])
    x = mp.log(Vp / V0)
    wsum = sum(mp.mpf(w) for w in data["wq"])
    tot = mp.mpf(0)
    nq, nm = len(data["wq"]), data["omega"].shape[2]
    for q in range(nq):
        for m in range(nm):
            if q == 0 and m < 3:
                continue
            w = mp.mpf(data["omega"][v, q, m]) * mp.e ** (-mp.mpf(data["gamma"][v, q, m]) * x - mp.mpf(data["g1"][v, q, m]) * x * x / 2)
            e = H_RYCM * w
            if part in ("zp", "all"):
                tot += mp.mpf(data["wq"][q]) / wsum * e / 2
            if part in ("th", "all") and T > 0:
                tot += mp.mpf(data["wq"][q]) / wsum * K_RYK * T * mp.log(1 - mp.e ** (-e / (K_RYK * T)))
    return tot


def spec_modulus(data, kind, part="all"):
    """c[t,v] of the property statement (without the supplied pressure difference)"""
    nt, nv = len(data["T"]), len(data["V"])
    out = numpy.zeros((nt, nv))
    for t in range(nt):
        T = mp.mpf(data["T"][t])
        for v in range(nv):
            V0 = mp.mpf(data["V"][v])
            P = -mp.diff(lambda x: fph(x, T, v, data, part), V0)
            A = V0 * mp.diff(lambda x: fph(x, T, v, data, part), V0, 2) - P
            ei, ej = mp.mpf(data["e_i"][v]), mp.mpf(data["e_j"][v])
            if kind == "longitudinal":
                out[t, v] = float(A / (5 * ei * ej) + P / (3 * ei))
            else:
                out[t, v] = float(A / (15 * ei * ej))
    return out


def spec_gap(data):
    """T V (dP/dT)^2 / (9 e_i e_j C_V)"""
    nt, nv = len(data["T"]), len(data["V"])
    out = numpy.zeros((nt, nv))
    for t in range(nt):
        T = mp.mpf(data["T"][t])
        for v in range(nv):
            if T == 0:
                continue
            V0 = mp.mpf(data["V"][v])
            dpdt = -mp.diff(lambda tt: mp.diff(lambda x: fph(x, tt, v, data, "th"), V0), T)
            out[t, v] = float(T * V0 * dpdt ** 2 / (9 * mp.mpf(data["e_i"][v]) * mp.mpf(data["e_j"][v]) * mp.mpf(data["Cv"][t, v])))
    return out


def random_data(seed, nt=3, nv=2, nq=2, na=1, equal_e=False, t_layout="zero_first"):
    r = random.Random(seed)
    nm = 3 * na
    ts = sorted(r.uniform(20, 2500) for _ in range(nt))
    if t_layout == "zero_first":
        ts[0] = 0.0
    elif t_layout == "zero_inside":      # a grid that is not ascending: T = 0 is not the first point
        ts = [ts[1], 0.0] + ts[2:]
    elif t_layout == "descending":
        ts = list(reversed(ts))
    d = {"T": numpy.array(ts),
         "V": numpy.array(sorted((r.uniform(200, 900) for _ in range(nv)), reverse=True)),
         "omega": numpy.array([[[r.uniform(30, 1500) for _ in range(nm)] for _ in range(nq)] for _ in range(nv)]),
         "gamma": numpy.array([[[r.uniform(-1, 3) for _ in range(nm)] for _ in range(nq)] for _ in range(nv)]),
         "g1": numpy.array([[[r.uniform(-2, 2) for _ in range(nm)] for _ in range(nq)] for _ in range(nv)]),
         "wq": numpy.array([r.uniform(0.5, 8) for _ in range(nq)]),
         "na": na}
    d["omega"][:, 0, :3] = 0.0
    # q-point coordinates are labels: the exclusion of the three lowest modes of the FIRST listed q-point is positional (C13), whatever its coordinates
    d["qcoords"] = [((0.0, 0.0, 0.0) if (seed % 2 == 0 and q == 0) else (0.125 + 0.1 * q, 0.25, 0.375)) for q in range(nq)]
    ei = numpy.array([r.uniform(0.05, 0.9) for _ in range(nv)])
    d["e_i"] = ei
    d["e_j"] = ei.copy() if equal_e else numpy.array([r.uniform(0.05, 0.9) for _ in range(nv)])
    if seed % 2 == 1 and not equal_e:
        d["e_j"] = -d["e_j"]          # an axis that lengthens under compression (negative linear compressibility): its strain fraction is negative, e_i e_j < 0
    if seed % 2 == 1 and nq >= 2:
        d["wq"][0] = 0.0              # the first listed q-point carries no weight (its three lowest modes are still the ones excluded: the exclusion is positional)
    d["Ptot"] = numpy.array([[r.uniform(-0.01, 0.01) for _ in range(nv)] for _ in range(nt)])
    d["Pstatic"] = numpy.array([r.uniform(-0.01, 0.01) for _ in range(nv)])
    d["Cv"] = numpy.array([[r.uniform(1e-6, 1e-4) for _ in range(nv)] for _ in range(nt)])
    return d


def native_contribution(data, kind):
    """the real class from /repo on concrete arrays"""
    import types, warnings
    from cij.core.phonon_contribution import nonshear
    qha = types.SimpleNamespace(volume_base=types.SimpleNamespace(pressures=data["Ptot"], heat_capacity=data["Cv"]))
    nq = len(data["wq"])
    calc = types.SimpleNamespace(qha_calculator=qha, nv=len(data["V"]), np=3 * data["na"], nq=nq, na=data["na"],
                                 v_array=data["V"], t_array=data["T"], freq_array=data["omega"],
                                 mode_gamma=[data["g1"], data["gamma"], data["gamma"] ** 2],
                                 qha_input=types.SimpleNamespace(weights=[(tuple(c), w) for c, w in zip(data.get("qcoords", [(0.0, 0.0, 0.0)] * nq), data["wq"])]),
                                 static_p_array=data["Pstatic"])
    cls = nonshear.LongitudinalElasticModulusPhononContribution if kind == "longitudinal" else nonshear.OffDiagonalElasticModulusPhononContribution
    with warnings.catch_warnings(), numpy.errstate(all="ignore"):
        warnings.simplefilter("ignore")
        return cls(calc, (data["e_i"], data["e_j"]))


def battery(kind, what, seeds=range(2), rtol=1e-7, cases=None, nt=3, nv=2):
    """native replay: the real code vs the independent oracle on a small battery of synthetic spectra.
    what in {zero_point_contribution, thermal_contribution, value_isothermal, isothermal_to_adiabatic}.
    Returns (reproduced, record)"""
    for seed in seeds:
        for (nq, na, layout) in (cases or ((1, 1, "zero_first"), (2, 2, "no_zero"), (2, 1, "zero_inside"), (1, 2, "descending"))):
            # one of the four layouts is a SQUARE (T, V) grid: as many temperatures as volumes (an axis chosen by its length goes wrong there)
            d = random_data(seed, nt=nt, nv=(nt if layout == "no_zero" and cases is None else nv), nq=nq, na=na, equal_e=(kind == "longitudinal"), t_layout=layout)
            if nq > 8:
                d["omega"][:, 1:, :] = numpy.abs(d["omega"][:, 1:, :]) + 30.0        # a Gamma-like zero only at the first q-point
            try:
                obj = native_contribution(d, kind)
                got = numpy.asarray(getattr(obj, what), dtype=float)
            except Exception as e:  # the real code raises on a well-formed input
                return True, {"seed": seed, "nq": nq, "na": na, "t_layout": layout, "raised": repr(e)}
            if what == "zero_point_contribution":
                exp = spec_modulus(d, kind, "zp")[0]
            elif what == "thermal_contribution":
                exp = spec_modulus(d, kind, "th")
            elif what == "value_isothermal":
                exp = spec_modulus(d, kind, "all")
                if kind != "longitudinal":
                    exp = exp + d["Ptot"] - d["Pstatic"][None, :]
            else:
                exp = spec_gap(d)
            if got.shape != exp.shape or not numpy.allclose(got, exp, rtol=rtol, atol=1e-14, equal_nan=False):
                return True, {"seed": seed, "nq": nq, "na": na, "t_layout": layout, "input": ({k: (v.tolist() if hasattr(v, "tolist") else v) for k, v in d.items()} if nq <= 8 else "random_data(seed=%d, nt=%d, nv=%d, nq=%d, na=%d)" % (seed, nt, nv, nq, na)),
                              "observed": got.tolist(), "expected": exp.tolist()}
    return False, {"note": "real code agrees with the oracle on the replay battery"}


def frame_check(kind):
    """native history replay of the frame obligations: reading the total (isothermal, adiabatic) must leave the
    separately readable zero-point and thermal parts unchanged"""
    import warnings
    d = random_data(1, nq=2, na=1, equal_e=(kind == "longitudinal"))
    with warnings.catch_warnings(), numpy.errstate(all="ignore"):
        warnings.simplefilter("ignore")
        obj = native_contribution(d, kind)
        before = {n: numpy.array(getattr(obj, n), dtype=float, copy=True) for n in ("zero_point_contribution", "thermal_contribution")}
        _ = obj.value_isothermal
        _ = obj.value_adiabatic
        for n, b in before.items():
            after = numpy.asarray(getattr(obj, n), dtype=float)
            if after.shape != b.shape or not numpy.array_equal(after, b, equal_nan=True):
                return True, {"history": "read %s; read value_isothermal and value_adiabatic; read %s again" % (n, n),
                              "before": b.tolist(), "after": after.tolist()}
    return False, {"note": "parts unchanged after reading the totals"}
