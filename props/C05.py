"""C05 -- total modulus = interpolated static table + phonon part, end to end from files.

The end-to-end path runs through file readers (C17), fill_cij (C08/C09), QHA (external, numba), the interpolators (C11)
and the phonon formulas (C01-C04).  Decided here: the glue that connects them, as call-site / term obligations on the
real functions with the external routines replaced by recording contract stubs; plus a bounded end-to-end run.
"""
import importlib, itertools, types, warnings
import numpy
import z3
from vf import core, smt, symnp
from vf.symnp import SymArr, Sc, Dim, SymNumpy
from contracts.nonshear_env import patched, duck_of
from contracts.np_proxy import NumpyProxy
from contracts import calc_env

LEVEL = "other"
EXPLANATION = ("glue obligations on the real full_modulus.py / calculator.py / qha_adapter.py functions with external numerics as recording "
               "contract stubs (symbolic arrays, symbolic sizes where the body allows); bounded end-to-end comparison of Calculator with an "
               "independent recomputation on the shipped examples and re-presented copies")
FM = "full_modulus.FullThermalElasticModulus."
CA = "calculator.Calculator."
_rec = itertools.count()


def all_keys():
    from cij.util import c_
    return [c_(i, j) for i in range(1, 7) for j in range(i, 7)]


class Poly:
    def __init__(self, x, y, deg):
        self.id, self.x, self.y, self.deg = next(_rec), x, y, deg


def fit_stubs(log):
    """numpy stub with polyfit / polyval as recording uninterpreted functions; Eulerian strain as uninterpreted EPS(v0, v)"""
    EPS = z3.Function("EPS", z3.RealSort(), z3.RealSort(), z3.RealSort())

    def eulerian(v0, v):
        v0t = v0.elem(()) if symnp.is_arr(v0) else symnp.term(v0)
        log.append(("eps", v0t))
        return SymArr(v.shape, lambda idx, e=v.elem: EPS(v0t, e(idx)))

    def polyfit(x, y, deg=None, **kw):
        if kw:
            raise core.OutsideSubset("polyfit options %r" % kw)
        p = Poly(x, y, deg)
        log.append(("polyfit", p))
        return p

    def polyval(p, x):
        if not isinstance(p, Poly):
            raise core.OutsideSubset("polyval of %r" % (p,))
        f = z3.Function("PV%d" % p.id, z3.RealSort(), z3.RealSort())
        log.append(("polyval", p, x))
        return SymArr(x.shape, lambda idx, e=x.elem: f(e(idx)))
    return EPS, eulerian, SymNumpy(extra={"polyfit": polyfit, "polyval": polyval})


def run(s):
    fm = importlib.import_module("cij.core.full_modulus")
    cal = importlib.import_module("cij.core.calculator")
    qa = importlib.import_module("cij.core.qha_adapter")
    from cij.util import c_
    tier = s.tier
    keys = all_keys()
    s.trust("z3 5.1", "vf/symnp.py", "numpy.polyfit/polyval/gradient, qha (free energy, grid, eulerian strain, least squares), scipy, pandas (external)")
    s.assume("A-QHA: the installed qha package computes F, P, C_V, the volume grid and the Eulerian strain as documented (numba, external)",
             "A-NUMPY: polyfit/polyval/gradient have their documented meaning", "C01-C04 for the phonon part, C08/C09 for the filling, C17 for the readers")
    s.undecided_part("numerical correctness of QHA's F(T,V), P(T,V), C_V and grid refinement (external numba code)")
    F = fm.FullThermalElasticModulus

    # ---------------- 1. fit_modulus: cubic least squares of V*c(V) in Eulerian strain referred to the first tabulated volume
    ntab, ntv, nt = Dim("ntab"), Dim("ntv"), Dim("nt")
    Vtab = SymArr.atom("Vtab", (ntab,), lambda i, v: v > 0)
    Vgrid = SymArr.atom("Vgrid", (ntv,), lambda i, v: v > 0)
    M = SymArr.atom("Mtab", (ntab,))

    def fit_ob():
        log = []
        EPS, eul, npstub = fit_stubs(log)
        me = duck_of(F, volumes=Vtab, v_array=Vgrid)
        with patched(fm, numpy=npstub, calculate_eulerian_strain=eul):
            res = F.fit_modulus(me, M)
        fits = [x[1] for x in log if x[0] == "polyfit"]
        vals = [x for x in log if x[0] == "polyval"]
        if len(fits) != 1 or len(vals) != 1 or vals[0][1] is not fits[0]:
            return core.refuted("callsite", "fit_modulus performs %d fits / %d evaluations" % (len(fits), len(vals)), witness_id="fit-count", replay=native_fit(fm))
        p = fits[0]
        if p.deg != 3:
            return core.refuted("callsite", "static moduli are fitted with a polynomial of degree %r, a least-squares cubic is specified" % (p.deg,), witness_id="fit-degree",
                                replay=native_fit(fm))
        i, j = z3.Ints("i j")
        v0 = Vtab.elem((z3.IntVal(0),))
        checks = [("abscissae of the fit", p.x, SymArr((ntab,), lambda idx: EPS(v0, Vtab.elem(idx)))),
                  ("ordinates of the fit", p.y, SymArr((ntab,), lambda idx: Vtab.elem(idx) * M.elem(idx))),
                  ("evaluation points", vals[0][2], SymArr((ntv,), lambda idx: EPS(v0, Vgrid.elem(idx)))),
                  ("result", res, SymArr((ntv,), lambda idx: z3.Function("PV%d" % p.id, z3.RealSort(), z3.RealSort())(EPS(v0, Vgrid.elem(idx))) / Vgrid.elem(idx)))]
        tot = None
        for what, got, want in checks:
            r = symnp.prove_arrays_equal(got, want, [], tier=tier, name="fit_modulus:" + what)
            if r.status != core.PROVED:
                if r.status == core.REFUTED:
                    r.replay, r.witness_id = native_fit(fm), "fit:" + what
                return r
            tot = r
        tot.detail = "fit_modulus(m)[v] = polyval(polyfit(eps(V0,Vtab), Vtab*m, 3), eps(V0, v))/v with V0 = Vtab[0], for all table and grid sizes"
        return tot
    s.oblige("C05.fit_modulus", fit_ob, [FM + "fit_modulus"])

    # ---------------- 2. get_static_modulus: the column of the same canonical key, converted from GPa, then fitted
    def static_ob():
        from cij.util import units
        nvt = 4
        vols = [types.SimpleNamespace(volume=900.0 - 50 * v, static_elastic_modulus={k: 100.0 * (n + 1) + v for n, k in enumerate(keys)}) for v in range(nvt)]
        seen = []
        me = duck_of(F, elast_data=types.SimpleNamespace(volumes=vols), fit_modulus=lambda m: (seen.append(numpy.array(m)), "FIT%d" % len(seen))[1])
        gpa = 1e9 / (2.1798723611030e-18 / 5.29177210903e-11 ** 3)            # 1 GPa in Ry/bohr^3 from exact-SI/CODATA values
        for n, k in enumerate(keys):
            out = F.get_static_modulus(me, k)
            want = numpy.array([100.0 * (n + 1) + v for v in range(nvt)]) * gpa
            if out != "FIT%d" % len(seen) or not numpy.allclose(seen[-1], want, rtol=1e-9):
                return core.refuted("finite", "static modulus %r: fit_modulus receives %s, expected the %r column in Ry/bohr^3 %s" % (k, seen[-1], k, want),
                                    witness_id="static%r" % (k,), replay={"reproduced": True})
        return core.proved("finite", "21 keys: get_static_modulus(key) = fit_modulus(GPa->Ry/bohr^3 of the column stored under the same canonical key); 1 GPa = %.12g" % gpa)
    s.oblige("C05.get_static_modulus", static_ob, [FM + "get_static_modulus", "cij.util._from_gpa"], kind="finite")

    # ---------------- 3. total = static[v] + phonon[t,v]; static has no temperature index; nothing pre-existing is written
    for which, attr in (("isothermal", "_isothermal_phonon_contribution"), ("adiabatic", "_adiabatic_phonon_contribution")):
        def total_ob(which=which, attr=attr):
            use = [c_(1, 1), c_(2, 2), c_(1, 2), c_(4, 4), c_(1, 4)]
            ST = {k: SymArr.atom("ST%d%d" % k.voigt, (ntv,)) for k in use}
            shared = SymArr.atom("PH_shared_%s" % which, (nt, ntv))            # two keys sharing one task result share one array object
            PH = {k: (shared if k in (c_(1, 1), c_(2, 2)) else SymArr.atom("PH%s%d%d" % ((which[0],) + k.voigt), (nt, ntv))) for k in use}
            me = duck_of(F, modulus_keys=list(use), get_static_modulus=lambda k: ST[k])
            setattr(me, attr, PH)
            prop = getattr(F, "modulus_" + which)
            body = _prop_body(prop)
            holder = {}

            def thunk():
                with patched(fm, numpy=SymNumpy()):
                    holder["res"] = body(me)
                return SymNumpy().stack_list([holder["res"][k] for k in use])
            spec = SymArr((len(use), nt, ntv), lambda idx: _sel(idx[0], [ST[k].elem((idx[2],)) + PH[k].elem((idx[1], idx[2])) for k in use]))
            r = symnp.prove_code_equals(thunk, spec, [], tier=tier, name="modulus_" + which)
            if r.status == core.PROVED and set(holder["res"]) != set(use):
                return core.refuted("symnp", "modulus_%s has keys %s" % (which, list(holder["res"])), witness_id="total-keys")
            if r.status == core.REFUTED:
                r.replay, r.witness_id = native_total(fm, which), "total:" + which
            return r
        s.oblige("C05.modulus_%s_is_static_plus_phonon" % which, total_ob, [FM + "modulus_" + which])

    # ---------------- 4. axial strains
    def strains_none():
        me = duck_of(F, v_array=Vgrid, elast_data=types.SimpleNamespace(lattice_parmeters=[]))
        with patched(fm, numpy=SymNumpy()):
            r = F.get_axial_strains(me)
        return symnp.prove_arrays_equal(r, SymArr((ntv, 3), lambda idx: z3.RealVal(1)), [], tier=tier, name="axial strains without lattice block")
    s.oblige("C05.axial_strains_without_lattice_block_are_ones", strains_none, [FM + "get_axial_strains"])

    def strains_lattice():
        for n in (2, 3, 5, 8):
            atoms = [[Sc(z3.Real("a%d_%d" % (i, k))) for k in range(n)] for i in range(3)]
            calls = []

            def fit(col, atoms=atoms, calls=calls):
                calls.append(numpy.array(col))
                return numpy.array(atoms[len(calls) - 1], dtype=object)
            lat = [(10.0 + r, 20.0 + r, 30.0 + r) for r in range(4)]
            me = duck_of(F, v_array=numpy.zeros(n), elast_data=types.SimpleNamespace(lattice_parmeters=lat), fit_modulus=fit)
            with patched(fm, numpy=NumpyProxy(symbolic_zeros=True)):
                res = F.get_axial_strains(me)
            if len(calls) != 3 or any(not numpy.array_equal(calls[i], numpy.array([row[i] for row in lat])) for i in range(3)):
                return core.refuted("callsite", "lattice column i must feed axis i; fit_modulus called with %s" % [c.tolist() for c in calls], witness_id="lattice-columns",
                                    replay={"reproduced": True})
            pos = [a.z > 0 for row in atoms for a in row]
            for k in range(n):
                kp, km = min(k + 1, n - 1), max(k - 1, 0)
                D = [(atoms[i][kp].z - atoms[i][km].z) / (atoms[i][kp].z + atoms[i][km].z) for i in range(3)]
                tot = D[0] + D[1] + D[2]
                for i in range(3):
                    got = symnp.term(res[k, i])
                    nz = symnp.SumNormalizer(pos + [tot != 0], tier)
                    r = nz.decide(got * tot == D[i], pos + [tot != 0], "axial-strain[%d,%d]" % (k, i))
                    if r.status != core.PROVED:
                        r.detail = "ntv=%d: strain[%d,%d] is not D_i/sum_j D_j with D the centred difference quotient of the fitted axis lengths | %s" % (n, k, i, r.detail)
                        r.witness_id = "axial-strain"
                        return r
        return core.proved("z3", "ntv in {2, 3, 5, 8}: e[k,i] * sum_j D_j[k] = D_i[k], D_i[k] = (a_i[k+] - a_i[k-]) / (a_i[k+] + a_i[k-]) with clamped neighbours; column i feeds axis i "
                                 "(size-bounded, value-unbounded)")
    s.oblige("C05.axial_strains_from_lattice_block", strains_lattice, [FM + "get_axial_strains"])

    # ---------------- 5. mode interpolation call-site and storage
    def interp_ob():
        calls = []
        R0, R1, R2 = SymArr.atom("IF", (ntv, 2, 3)), SymArr.atom("IG", (ntv, 2, 3)), SymArr.atom("IV", (ntv, 2, 3))

        def stub(*a, **kw):
            calls.append((a, kw))
            return R0, R1, R2
        qi, va = object(), object()
        me = duck_of(cal.Calculator, qha_input=qi, qha_calculator=types.SimpleNamespace(v_array=va),
                                   config={"elast": {"settings": {"mode_gamma": {"interpolator": "krogh", "order": 4}}}})
        with patched(cal, interpolate_modes=stub):
            cal.Calculator._interpolate_modes(me)
        if len(calls) != 1:
            return core.refuted("callsite", "interpolate_modes called %d times" % len(calls), witness_id="interp-calls")
        a, kw = calls[0]
        args = dict(zip(("qha_input", "v_array", "method", "order"), a))
        args.update(kw)
        if args.get("qha_input") is not qi or args.get("v_array") is not va or args.get("method") != "krogh" or args.get("order") != 4:
            return core.refuted("callsite", "interpolate_modes called with %r" % (args,), witness_id="interp-args", replay={"reproduced": True})
        if me.freq_array is not R0 or len(me.mode_gamma) != 3 or me.mode_gamma[0] is not R2 or me.mode_gamma[1] is not R1:
            return core.refuted("callsite", "stored arrays: freq_array/mode_gamma are not [V dgamma/dV, gamma, .] of the interpolation result", witness_id="interp-store",
                                replay={"reproduced": True})
        return symnp.prove_arrays_equal(me.mode_gamma[2], R1 * R1, [], tier=tier, name="mode_gamma[2] = gamma^2")
    s.oblige("C05.interpolate_modes_callsite", interp_ob, [CA + "_interpolate_modes"])

    # ---------------- 6. static pressure
    def pstatic_ob():
        log = []
        nv_in = 4

        def eul(v0, v):
            log.append(("eps", float(v0), numpy.array(v, dtype=float)))
            return numpy.array(v, dtype=float) * 2.0 + float(v0)

        def lsq(x, y, xnew, order=None, *a, **kw):
            log.append(("lsq", numpy.array(x), numpy.array(y), numpy.array(xnew), order))
            return numpy.array(xnew) ** 2
        vols = [types.SimpleNamespace(volume=900.0 - 50 * i, energy=-10.0 - i) for i in range(nv_in)]
        grid = numpy.array([1000.0, 950.0, 900.0, 820.0, 700.0])
        me = duck_of(cal.Calculator, qha_input=types.SimpleNamespace(volumes=vols), v_array=grid)
        with patched(cal, calculate_eulerian_strain=eul, polynomial_least_square_fitting=lsq):
            cal.Calculator._calculate_pressure_static(me)
        lsqs = [x for x in log if x[0] == "lsq"]
        if len(lsqs) != 1:
            return core.refuted("callsite", "%d least-squares fits of the static energies" % len(lsqs), witness_id="pstatic-fits", replay={"reproduced": True})
        _, x, y, xn, order = lsqs[0]
        V = numpy.array([v.volume for v in vols])
        if order != 3 or not numpy.array_equal(x, V * 2 + V[0]) or not numpy.array_equal(y, numpy.array([v.energy for v in vols])) or not numpy.array_equal(xn, grid * 2 + V[0]):
            return core.refuted("callsite", "static energies fitted with order %r, abscissae %s (expected order 3 in eulerian strain referred to the first input volume)" % (order, x),
                                witness_id="pstatic-args", replay={"reproduced": True})
        want = -numpy.gradient((grid * 2 + V[0]) ** 2) / numpy.gradient(grid)
        if not numpy.allclose(me.static_p_array, want):
            return core.refuted("callsite", "static pressure is %s, expected -gradient(E_fit)/gradient(V) = %s" % (me.static_p_array, want), witness_id="pstatic-value",
                                replay={"reproduced": True})
        return core.proved("callsite", "static_p = -gradient(E_fit)/gradient(v_array) with E_fit the order-3 least-squares fit of the input energies in eulerian strain")
    s.oblige("C05.static_pressure_callsite", pstatic_ob, [CA + "_calculate_pressure_static"])

    # ---------------- 7. QHA input hand-over, symmetry application, phonon scheduling call-sites
    s.oblige("C05.read_input_handover", lambda: read_input_ob(qa), ["qha_adapter.QHACalculator.read_input"], kind="finite")
    s.oblige("C05.symmetry_application_callsite", lambda: symmetry_ob(cal), [CA + "_apply_elastic_constants_symmetry"], kind="finite")
    s.oblige("C05.phonon_scheduling_callsite", lambda: scheduling_ob(fm), [FM + "calculate_phonon_contribution"], kind="finite")
    # "with the crystal-system filling applied first": what is interpolated afterwards is the FILLED table -- every component, the
    # tabulated ones included (the solve is a soft least squares and may move them), nothing the fill dropped
    from props import C08
    def spectrum_ob():
        # the phonon part is "evaluated with the spectrum read from those files": every (q, m) column of the file reaches the per-mode interpolation
        # unmixed and its results are stored in the same slot (the obligation C11.dispatch_no_mixing, on a generic, mode-crossing spectrum)
        from props import C11
        return C11.dispatch(importlib.import_module("cij.core.mode_gamma"))
    s.oblige("C05.spectrum_reaches_interpolation_mode_by_mode", spectrum_ob, ["mode_gamma.interpolate_modes"], kind="finite")
    s.oblige("C05.static_table_is_the_filled_table", C08.apply_table, ["elast_dat.apply_symetry_on_elast_data"], kind="finite")
    # ---------------- bounded end-to-end
    if s.__dict__.get("glue_only"):          # another property registers only some of the glue obligations above (core.SubSession)
        return
    # "with the crystal-system filling applied first when requested": the packaged relation tables are data the totals depend on; that they are the Laue invariants is C08's
    # obligation and is registered here as well (a sign flipped in a constraints file changes c26 of a tetragonal7 calculation by 2 |c16|)
    from props import C08, C15
    sub = core.SubSession(s, lambda n: n.replace("C08.", "C05.filling."), lambda n: n.startswith("C08.relations_equal_invariants["))
    sub.__dict__["relations_only"] = True
    sub.run(C08)
    # ... and the filling is applied through the EFFECTIVE configuration (user names the system, the packaged defaults supply the tolerances): every tabulated component, also
    # one that is tiny next to the largest modulus, must come out of it unchanged (it is then a key of the results) -- C14's obligation on that route, registered here as well
    from props import C14
    s.oblige("C05.filling.through_effective_configuration_keeps_every_tabulated_component", lambda: C14.filling_through_configuration(s.seed, s.tier),
             ["calculator.Calculator._apply_elastic_constants_symmetry", "elast_dat.apply_symetry_on_elast_data", "fill.fill_cij", "cij/data/default/settings.yaml"], kind="finite")
    # the totals are DELIVERED through the writer rules (keyword -> quantity, file name, unit): C15's registry and writer-path obligations, registered here as well
    core.SubSession(s, lambda n: n.replace("C15.", "C05.delivery."), lambda n: n in ("C15.registry", "C15.writer_paths")).run(C15)
    end_to_end(s)
    s.min_obligations = 13


def _prop_body(prop):
    """the function behind a LazyProperty / property / functools.cached_property / plain method"""
    for attr in ("method", "fget", "func"):
        f = getattr(prop, attr, None)
        if callable(f):
            return f
    if callable(prop):
        return prop
    raise core.OutsideSubset("attribute %r is not a property-like object" % (prop,))


def _sel(i, terms):
    i = z3.simplify(i)
    if z3.is_int_value(i):
        return terms[i.as_long()]
    r = terms[-1]
    for k in range(len(terms) - 2, -1, -1):
        r = z3.If(i == k, terms[k], r)
    return r


def native_fit(fm):
    from qha.grid_interpolation import calculate_eulerian_strain
    Vt = numpy.linspace(900, 500, 8)
    m = 0.02 + 1e-5 * (900 - Vt) + 1e-8 * (900 - Vt) ** 2
    grid = numpy.linspace(1000, 450, 30)
    me = duck_of(fm.FullThermalElasticModulus, volumes=Vt, v_array=grid)
    got = fm.FullThermalElasticModulus.fit_modulus(me, m)
    want = numpy.polyval(numpy.polyfit(calculate_eulerian_strain(Vt[0], Vt), Vt * m, 3), calculate_eulerian_strain(Vt[0], grid)) / grid
    return {"reproduced": bool(not numpy.allclose(got, want, rtol=1e-9)), "max_rel_dev": float(numpy.abs(got / want - 1).max())}


def native_total(fm, which):
    from cij.util import c_
    keys = [c_(1, 1), c_(2, 2), c_(1, 2)]
    st = {k: numpy.array([1.0 + n, 2.0 + n]) for n, k in enumerate(keys)}
    shared = numpy.array([[10.0, 20.0], [30.0, 40.0]])
    ph = {keys[0]: shared, keys[1]: shared, keys[2]: numpy.array([[5.0, 6.0], [7.0, 8.0]])}
    ph0 = {k: v.copy() for k, v in ph.items()}
    me = duck_of(fm.FullThermalElasticModulus, modulus_keys=keys, get_static_modulus=lambda k: st[k])
    setattr(me, "_%s_phonon_contribution" % which, ph)
    prop = getattr(fm.FullThermalElasticModulus, "modulus_" + which)
    res = _prop_body(prop)(me)
    bad = any(not numpy.allclose(res[k], st[k][None, :] + ph0[k]) for k in keys) or any(not numpy.array_equal(ph[k], ph0[k]) for k in keys)
    return {"reproduced": bool(bad), "observed": {repr(k): numpy.asarray(res[k]).tolist() for k in keys},
            "expected": {repr(k): (st[k][None, :] + ph0[k]).tolist() for k in keys}}


def read_input_ob(qa):
    from cij.io.traditional import models
    nv, nq, npm = 3, 2, 6
    vols = [models.VolumeData(0.0, 900.0 - 100 * v, -5.0 - v, [models.QPointData((0, 0, 0.1 * q), [1000 * v + 100 * q + m for m in range(npm)]) for q in range(nq)])
            for v in range(nv)]
    inp = models.QHAInputData(nv, nq, npm, 4, 2, [((0, 0, 0.1 * q), 2.0 + q) for q in range(nq)], vols)
    obj = qa.QHACalculator.__new__(qa.QHACalculator)
    qa.QHACalculator.read_input(obj, inp)
    ok = (obj._formula_unit_number == 4 and numpy.array_equal(obj._volumes, [900.0, 800.0, 700.0]) and numpy.array_equal(obj._static_energies, [-5.0, -6.0, -7.0])
          and obj._frequencies.shape == (nv, nq, npm) and all(obj._frequencies[v, q, m] == 1000 * v + 100 * q + m for v in range(nv) for q in range(nq) for m in range(npm))
          and numpy.array_equal(obj._q_weights, [2.0, 3.0]))
    if not ok:
        return core.refuted("finite", "read_input hands QHA %r" % ({k: getattr(obj, k, None) for k in ("_formula_unit_number", "_volumes", "_static_energies", "_q_weights")},),
                            witness_id="read-input", replay={"reproduced": True})
    return core.proved("finite", "read_input hands nm, volumes, energies, frequencies[v][q][m] and weights to QHA in file order")


def symmetry_ob(cal):
    calls = []
    for system, expect in (("cubic", True), ("triclinic", False), (None, False), ("monoclinic", True)):
        sym = {"ignore_rank": True} if system is None else {"system": system, "ignore_rank": True}
        ed = object()
        me = duck_of(cal.Calculator, config={"elast": {"settings": {"symmetry": sym}}}, elast_data=ed)
        del calls[:]
        with patched(cal, apply_symetry_on_elast_data=lambda a, b: calls.append((a, b))):
            cal.Calculator._apply_elastic_constants_symmetry(me)
        if bool(calls) != expect or (calls and (calls[0][0] is not ed or calls[0][1] != sym)):
            return core.refuted("finite", "system=%r: filling called %d times with %r" % (system, len(calls), calls[:1]), witness_id="symmetry:%s" % system, replay={"reproduced": True})
    return core.proved("finite", "crystal-system filling is applied with exactly the configured symmetry mapping and skipped for None / triclinic")


def scheduling_ob(fm):
    log = []

    class TL:
        def __init__(self, calc):
            log.append(("init", calc))

        def resolve(self, strain, keys):
            log.append(("resolve", strain, keys))

        def calculate(self):
            log.append(("calculate",))

        def get_adiabatic_results(self):
            return "ADI"

        def get_isothermal_results(self):
            return "ISO"
    calc = object()
    me = duck_of(fm.FullThermalElasticModulus, calculator=calc, modulus_keys=["K"], get_axial_strains=lambda: "STRAINS", _get_init_strain=lambda: (1 / 3,) * 3)
    with patched(fm, PhononContributionTaskList=TL):
        fm.FullThermalElasticModulus.calculate_phonon_contribution(me)
    kinds = [x[0] for x in log]
    if kinds != ["init", "resolve", "calculate"] or log[0][1] is not calc or log[1][1] != "STRAINS" or log[1][2] != ["K"] or \
            me._adiabatic_phonon_contribution != "ADI" or me._isothermal_phonon_contribution != "ISO":
        return core.refuted("finite", "phonon scheduling: %r" % (log,), witness_id="scheduling", replay={"reproduced": True})
    return core.proved("finite", "the task list is resolved with the axial strains and the table's keys, calculated once, and its adiabatic / isothermal results stored")


# ------------------------------------------------------------------------------------------ bounded end-to-end
def independent_total(calc, key, which, table=None):
    """static part recomputed with numpy from the table (as parsed for the shipped examples; from the GENERATED numbers, in file order, for synthetic sets -- so that the
    reader is inside what is checked); phonon part from the C01-C04 classes called directly with independently derived strain fractions"""
    from qha.grid_interpolation import calculate_eulerian_strain
    import cij.core.tasks as tasks
    ed = calc.elast_data
    grid = numpy.asarray(calc.v_array)
    gpa = 1e9 / (2.1798723611030e-18 / 5.29177210903e-11 ** 3)
    if table is not None:
        Vt = numpy.array(table["V"])
        col = numpy.array(table["columns"]["c%d%d" % key.voigt]) if ("c%d%d" % key.voigt) in table["columns"] else None
        lattice = table["lattice"]
    else:
        Vt = numpy.array([v.volume for v in ed.volumes])
        col = numpy.array([v.static_elastic_modulus[key] for v in ed.volumes])
        lattice = ed.lattice_parmeters
    if col is None:          # a component the symmetry filling generated: not tabulated, nothing independent to compare with
        return None
    ref = float(Vt.max())    # any reference volume gives the same cubic (C13.lemma.eulerian_strain_reference_change_is_affine)

    def fit(col):
        return numpy.polyval(numpy.polyfit(calculate_eulerian_strain(ref, Vt), Vt * col, 3), calculate_eulerian_strain(ref, grid)) / grid
    static = fit(col * gpa)
    if len(lattice) == 0:
        strain = numpy.full((len(grid), 3), 1 / 3)
    else:
        lat = numpy.array(lattice)
        D = numpy.zeros((len(grid), 3))
        for i in range(3):
            a = fit(lat[:, i])
            ext = numpy.concatenate(([a[0]], a, [a[-1]]))
            D[:, i] = (ext[2:] - ext[:-2]) / (ext[2:] + ext[:-2])
        strain = D / D.sum(axis=1, keepdims=True)
    tl = tasks.PhononContributionTaskList(calc)
    tl.resolve(strain, [key])
    tl.calculate()
    ph = (tl.get_isothermal_results() if which == "isothermal" else tl.get_adiabatic_results())[key]
    return static[None, :] + numpy.asarray(ph)


def end_to_end(s):
    cases = [("akimotoite", {}, None), ("diopside", {}, None), ("akimotoite", {}, "no-lattice")]
    if s.tier == "thorough":
        cases += [("diopside", {"elast": {"settings": {"mode_gamma": {"interpolator": "lsq_poly", "order": 3}}}}, "no-lattice"),
                  ("akimotoite", {"qha": {"settings": {"DT": 50, "DT_SAMPLE": 50, "NT": 12, "NTV": 41, "DELTA_P": 1.0, "DELTA_P_SAMPLE": 1.0}}}, None)]
    # synthetic-but-physical sets: modes not in ascending order and crossing between volumes, non-integer weights, lattice ratios varying with volume, a q list that
    # does not start at Gamma, other crystal systems
    # ... the static table listed ascending / shuffled and tabulated at other volumes than the phonon data, and the ends of the quantified domain (4 and 12 volumes, 1 and 8
    # q-points, 1 and 10 atoms)
    cases += [("synthetic", {"seed": s.seed + 1, "system": "orthorhombic", "static_order": "shuffled", "static_nv": 7}, "synthetic"),
              ("synthetic", {"seed": s.seed + 2, "system": "monoclinic", "gamma_first": False, "nq": 1, "na": 1, "nv": 4, "static_order": "ascending"}, "synthetic"),
              ("synthetic", {"seed": s.seed + 3, "system": "cubic", "nq": 8, "na": 3, "nv": 12, "static_nv": 4, "lattice": True}, "synthetic"),
              ("synthetic", {"seed": s.seed + 5, "system": "cubic", "nq": 1, "na": 10, "nv": 5, "lattice": False}, "synthetic"),
              # an axis that lengthens under compression (negative linear compressibility): its strain fraction is negative, and stays so
              ("synthetic", {"seed": s.seed + 6, "system": "orthorhombic", "nq": 2, "na": 1, "lattice": "auxetic"}, "synthetic"),
              # a SQUARE (T, V) grid: NT + 4 temperature rows = NTV volumes (an axis picked by its length goes wrong exactly there)
              ("synthetic", {"seed": s.seed + 4, "system": "orthorhombic", "settings": {"qha": {"settings": {"NT": 17, "DT": 100, "DT_SAMPLE": 100, "NTV": 21}}}}, "synthetic")]
    if s.tier == "thorough":
        cases += [("synthetic", {"seed": s.seed + 3 + i, "system": sy, "lattice": bool(i % 2), "nq": 1 + i % 4, "na": 1 + i % 3, "nv": 6 + i % 5}, "synthetic")
                  for i, sy in enumerate(["cubic", "trigonal7", "orthorhombic", "monoclinic"] * 3)]
    fails, evals, distinct = [], 0, 0
    for ex, settings, variant in cases:
        text = None
        if variant == "synthetic":
            ctx = calc_env.synthetic_case(**settings)
        if variant == "no-lattice":
            src = open(calc_env.example_dir(ex) + "/input02").read().split("\n")
            n = int(src[1].split()[1])
            text = "\n".join(src[:3 + n]) + "\n"
        if variant != "synthetic":
            ctx = calc_env.Case(ex, dict({"qha": {"settings": {"NT": 8, "DT": 200, "DT_SAMPLE": 200, "NTV": 31, "DELTA_P": 2.0, "DELTA_P_SAMPLE": 2.0}}}, **settings), elast_text=text)
        with ctx as case:
            try:
                calc = case.build()
            except Exception as e:
                fails.append({"witness_id": "e2e-build:%s:%s" % (ex, variant), "input": {"example": ex, "variant": variant}, "observed": "raises %r" % (e,), "expected": "a result"})
                break
            for key in list(calc.modulus_keys):
                for which in ("isothermal", "adiabatic"):
                    evals += 1
                    distinct += 1
                    got = numpy.asarray(getattr(calc, "modulus_" + which)[key])
                    want = calc_env.quiet(independent_total, calc, key, which, getattr(case, "description", {}).get("table"))
                    if want is None:
                        continue
                    ok = numpy.isfinite(want)
                    if got.shape != want.shape or not numpy.allclose(got[ok], want[ok], rtol=1e-7, atol=1e-7 * float(numpy.abs(want[ok]).max())):
                        fails.append({"witness_id": "e2e:%s:%s:%r:%s" % (ex, variant, key, which), "input": {"example": ex, "variant": variant, "key": repr(key), "which": which},
                                      "observed": "max |code - recomputed| = %.3g (Ry/bohr^3)" % float(numpy.nanmax(numpy.abs(got - want))),
                                      "expected": "static (cubic in eulerian strain of V*c) + phonon contribution with the file's strain fractions"})
                        break
                if fails:
                    break
        if fails:
            break
    # the phonon part does not depend on the tabulated static values; the static part does not depend on temperature
    if not fails:
        ex = "akimotoite"
        src = open(calc_env.example_dir(ex) + "/input02").read().split("\n")
        n = int(src[1].split()[1])
        scaled = []
        for i, line in enumerate(src):
            if 3 <= i < 3 + n:
                f = line.split()
                scaled.append(" ".join([f[0]] + ["%.10f" % (1.5 * float(x)) for x in f[1:]]))
            else:
                scaled.append(line)
        st = {"qha": {"settings": {"NT": 6, "DT": 300, "DT_SAMPLE": 300, "NTV": 21, "DELTA_P": 2.0, "DELTA_P_SAMPLE": 2.0}}}
        with calc_env.Case(ex, st) as c1, calc_env.Case(ex, st, elast_text="\n".join(scaled)) as c2:
            a1, a2 = c1.build(), c2.build()
            evals += 1
            distinct += 1
            for key in a1.modulus_keys:
                p1 = numpy.asarray(a1._full_modulus._isothermal_phonon_contribution[key])
                p2 = numpy.asarray(a2._full_modulus._isothermal_phonon_contribution[key])
                s1 = numpy.asarray(a1.modulus_isothermal[key]) - p1
                s2 = numpy.asarray(a2.modulus_isothermal[key]) - p2
                ok = numpy.isfinite(p1)
                scale = float(numpy.abs(s1[numpy.isfinite(s1)]).max())
                if not numpy.array_equal(p1[ok], p2[ok]):
                    fails.append({"witness_id": "phonon-depends-on-static:%r" % (key,), "input": {"example": ex, "static table": "scaled by 1.5"},
                                  "observed": "phonon part of %r changes by up to %.3g when the static table is scaled" % (key, float(numpy.abs(p1[ok] - p2[ok]).max())),
                                  "expected": "phonon part independent of the tabulated static values"})
                    break
                if not numpy.allclose(s2[ok], 1.5 * s1[ok], rtol=1e-7, atol=1e-9 * scale) or not numpy.allclose(s1[ok], numpy.broadcast_to(s1[-1], s1.shape)[ok], rtol=0, atol=1e-9 * scale):
                    fails.append({"witness_id": "static-part:%r" % (key,), "input": {"example": ex, "static table": "scaled by 1.5"},
                                  "observed": "total - phonon of %r is not 1.5 x the unscaled static part / depends on temperature" % (key,),
                                  "expected": "static part linear in the table and independent of T"})
                    break
    s.bounded_standin("C05.end_to_end(examples)", "%d data sets (two shipped examples, a copy without lattice block, synthetic sets with crossing unsorted modes / non-integer weights / q list off Gamma%s), every key, isothermal and adiabatic, relative tolerance 1e-7"
                      % (len(cases), ", other interpolator / grid" if s.tier == "thorough" else ""), evals, distinct, fails,
                      ["calculator.Calculator", FM + "modulus_isothermal", FM + "modulus_adiabatic"])


MANIFEST = {
    "engine": "symnp", "category": "other",
    "technique": "contract-based deductive verification of the glue (call-site and term obligations on the real functions, external numerics as "
                 "recording contract stubs, symbolic arrays of symbolic size; z3); bounded end-to-end recomputation on the examples",
    "text": "Discharged on the real code: fit_modulus = cubic least squares of V*c in Eulerian strain referred to the first tabulated volume, "
            "evaluated on the grid and divided by V (all sizes); get_static_modulus uses the column of the same canonical key converted from GPa "
            "(21 keys); modulus_isothermal/adiabatic[key][t,v] = static[v] + phonon[t,v] for all grid sizes with a frame obligation (no phonon "
            "array is written); axial strains are ones without lattice block and the normalised centred log-difference quotients of the fitted "
            "axis lengths otherwise (ntv in {5,8}, values symbolic); the mode-interpolation, static-pressure, QHA hand-over, symmetry and "
            "scheduling call-sites. Bounded: Calculator on the shipped examples (and a copy without lattice block) equals an independent "
            "recomputation of static + phonon for every key.",
    "note": "QHA (numba), numpy.polyfit/gradient and the readers are external/other properties; end-to-end part bounded to 3 (quick) / 5 "
            "(thorough) data sets; get_axial_strains size-bounded (values unbounded).",
}
