"""C09 -- fill refuses exactly when under-determined or inconsistent; never distorts data."""
import fractions, json, importlib, itertools, os, shutil, tempfile, types
import numpy
import pandas
import sympy as sp
import z3
from vf import core, smt, symnp
from vf.symnp import Sc
from contracts import fill_env
from contracts.fill_env import NAMES, SYSTEMS, RANK
from specs import laue

LEVEL = "other"
EXPLANATION = ("decision logic of fill_cij proved on symbolic runs of the real code (lstsq as contract stub; rank and residuals symbolic: "
               "raises iff (rank<21 and not ignore_rank) or (some residual>atol and not ignore_residuals)); sufficiency decided by an "
               "independent exact rank computation on the invariant subspace and compared with the real function (bounded); environment "
               "clauses (column type, order, case, working directory, relations file by path) as run-time contracts; one known finding")
F = "fill.fill_cij"


def exact_sufficient(system, supplied_idx, _cache={}):
    """independent oracle: the supplied components determine the invariant tensor iff the invariant basis restricted to
    them has full column rank (exact rationals / Q(sqrt 3))"""
    key = (system, tuple(sorted(supplied_idx)))
    if key not in _cache:
        basis = _cache.setdefault(("basis", system), laue.invariant_basis(system))
        if not supplied_idx:
            _cache[key] = (len(basis) == 0)
        else:
            M = sp.Matrix([[v[k] for v in basis] for k in sorted(supplied_idx)])
            _cache[key] = (M.rank(iszerofunc=lambda x: sp.simplify(x) == 0) == len(basis))
    return _cache[key]


def run(s):
    tier = s.tier
    fill = fill_env.fill_module()
    rnd = numpy.random.RandomState(s.seed)
    s.trust("z3 5.1", "numpy.linalg.lstsq (A-LSQ)", "pandas", "sympy exact rank (sufficiency oracle)")
    s.assume("A-LSQ: rank returned by lstsq is the rank of [supplied rows; relation rows]; x minimises |a x - b|", "A-PANDAS", "A-FP")
    s.undecided_part("numerical rank decisions of lstsq close to the threshold (perturbation sizes are kept away from it, as the property states)")

    # ---------------- 1. refusal logic on symbolic runs (all flag combinations, 1-2 volume rows)
    def decision():
        n = 0
        for system, columns in (("cubic", ["c11", "c12", "C44"]), ("trigonal7", ["c11", "c33", "c12", "c13", "c44", "c14", "c15"])):
            for nvol in (1, 2):
                for ig_res in (False, True):
                    for ig_rank in (False, True):
                        res = fill_env.symbolic_run(system, columns, nvol=nvol, ignore_residuals=ig_res, ignore_rank=ig_rank, residual_atol=0.1)
                        for r in res:
                            n += 1
                            call = r["proxy"].calls[0]
                            a, b = numpy.asarray(call["a"], dtype=float), call["b"]
                            # independent residual expression |a X - b|^2 per volume
                            resid = []
                            for v in range(nvol):
                                tot = z3.RealVal(0)
                                for i in range(a.shape[0]):
                                    row = z3.RealVal(0)
                                    for k in range(21):
                                        if a[i, k] != 0:
                                            row = row + symnp.rat(float(a[i, k])) * r["X"][k][v].z
                                    row = row - symnp.term(b[i][v])
                                    tot = tot + row * row
                                resid.append(tot)
                            refuse = z3.Or(z3.And(RANK < 21, z3.BoolVal(not ig_rank)),
                                           z3.And(z3.Or(*[x > symnp.rat(0.1) for x in resid]), z3.BoolVal(not ig_res)))
                            goal = refuse if r["kind"] == "raise" else z3.Not(refuse)
                            pr = smt.prove(goal, r["pc"] + [RANK >= 0, RANK <= 21], tier=tier, name="decision")
                            if pr.status != core.PROVED:
                                pr.detail = "%s nvol=%d ignore_residuals=%s ignore_rank=%s: the path %s %s although the refusal condition is %s | %s" % (
                                    system, nvol, ig_res, ig_rank, [str(z3.simplify(c))[:60] for c in r["pc"]],
                                    "raises" if r["kind"] == "raise" else "returns", "false" if r["kind"] == "raise" else "true", pr.detail)
                                pr.witness_id = "decision:%s:%s:%s" % (system, ig_res, ig_rank)
                                pr.replay = native_decision(fill)
                                return pr
                            if r["kind"] == "raise" and not isinstance(r["value"], Warning):
                                return core.refuted("symnp", "refusal raises %r instead of Warning" % (r["value"],), witness_id="decision-exc")
        return core.proved("z3", "%d symbolic paths x 4 flag combinations: raises Warning iff (rank<21 and not ignore_rank) or (a residual > tolerance and "
                                 "not ignore_residuals); the residual is |a x - b|^2 of the captured system" % n,
                           sample="raise <=> (RANK < 21 and not ignore_rank) or (exists v: |a X_v - b_v|^2 > residual_atol and not ignore_residuals)")
    s.oblige("C09.refusal_decision_logic", decision, [F], fallback=lambda: native_decision(fill))

    def trivial_cases():
        df = pandas.DataFrame({"c11": [1.0, 2.0]})
        if fill.fill_cij(df, None) is not df:
            return core.refuted("finite", "system=None does not return the table unchanged", witness_id="none", replay={"reproduced": True})
        out = fill.fill_cij(df.copy(), "triclinic")
        if list(out.columns) != ["c11"] or out["c11"].tolist() != [1.0, 2.0]:
            return core.refuted("finite", "triclinic (no relations) changes the table", witness_id="triclinic", replay={"reproduced": True})
        return core.proved("finite", "system=None and the empty relations file return the input unchanged")
    s.oblige("C09.no_system_no_relations", trivial_cases, [F], kind="finite")

    # ---------------- 2. accepted => every relation residual <= sqrt(tolerance)   (lemma over the decision contract)
    def residual_bound():
        # if sum_i r_i^2 <= tol with tol >= 0 then every |r_i| <= sqrt(tol): NRA lemma on 3 generic rows
        r1, r2, r3, t, sq = z3.Reals("r1 r2 r3 tol sqrt_tol")
        goal = z3.And(r1 <= sq, -r1 <= sq)
        return smt.prove(goal, [r1 * r1 + r2 * r2 + r3 * r3 <= t, t >= 0, sq >= 0, sq * sq == t], tier=tier)
    s.oblige("C09.lemma.accepted_implies_each_relation_within_sqrt_tol", residual_bound)

    # ---------------- 3. accepted => no supplied value moves
    def consistent_kept():
        # exactly consistent: residual 0 => a x = b row-wise => the written value x[index(col)] equals the supplied value
        n = 0
        for system, columns in (("cubic", ["c11", "c12", "C44"]), ("hexagonal", ["c11", "c12", "c13", "c33", "c44", "C66"])):
            res = fill_env.symbolic_run(system, columns, nvol=1, ignore_rank=True)
            for r in res:
                if r["kind"] != "return":
                    continue
                n += 1
                call = r["proxy"].calls[0]
                a, b = numpy.asarray(call["a"], dtype=float), call["b"]
                zero_res = []
                for i in range(a.shape[0]):
                    row = z3.RealVal(0)
                    for k in range(21):
                        if a[i, k] != 0:
                            row = row + symnp.rat(float(a[i, k])) * r["X"][k][0].z
                    zero_res.append(row == symnp.term(b[i][0]))
                out = r["value"]
                for c in columns:
                    got = out[c].to_numpy()[0] if c in out.columns else None
                    if got is None:
                        continue
                    pr = smt.prove(symnp.term(got) == r["df_in"][c].to_numpy()[0].z, zero_res, tier=tier)
                    if pr.status != core.PROVED:
                        pr.detail = "exactly consistent table, column %r: returned value differs from the supplied one | %s" % (c, pr.detail)
                        pr.witness_id = "moved-consistent:" + c
                        return pr
        return core.proved("z3", "%d accepting paths: with zero residual every supplied column gets back its own value" % n)
    s.oblige("C09.supplied_values_kept_when_consistent", consistent_kept, [F])

    def inconsistent_kept():
        """the property demands unchanged supplied values also for accepted tables with 0 < residual <= tolerance"""
        for system, table in (("cubic", {"c11": [100.0], "c22": [100.2], "c33": [100.0], "c12": [50.0], "c44": [20.0]}),
                              ("cubic", {"c11": [250.0], "c22": [250.1], "c33": [249.9], "c12": [120.0], "c13": [120.05], "c23": [119.95], "c44": [80.0], "c55": [80.0], "c66": [80.1]}),
                              ("hexagonal", {"c11": [300.0], "c22": [300.3], "c12": [100.0], "c13": [90.0], "c33": [280.0], "c44": [70.0]})):
            df = pandas.DataFrame(table)
            try:
                out = fill.fill_cij(df.copy(), system)
            except Warning:
                continue
            moved = {c: (table[c][0], float(out[c].iloc[0])) for c in table if c in out.columns and abs(float(out[c].iloc[0]) - table[c][0]) > 1e-9}
            if moved:
                return core.refuted("runtime-contract", "accepted slightly inconsistent table (%s): supplied values moved %s" % (system, moved),
                                    witness_id="lsq-moves-inconsistent-supplied", replay={"reproduced": True, "system": system, "table": table, "moved": moved})
        return core.proved("runtime-contract", "supplied values unchanged on the accepted inconsistent tables")
    s.oblige("C09.supplied_values_kept_when_within_tolerance", inconsistent_kept, [F], kind="finite")

    # ---------------- 6. order / case independence of the captured system
    def order_case():
        base = fill_env.symbolic_run("trigonal7", ["c11", "c12", "c13", "c33", "c44", "c14", "c15"], nvol=1, ignore_rank=True, ignore_residuals=True)[0]
        if base["kind"] != "return":
            return core.refuted("symnp", "with both ignore flags set the table is refused (%r)" % (base["value"],), witness_id="order-case-raise", replay=native_decision(fill))
        a0, b0 = numpy.asarray(base["proxy"].calls[0]["a"], dtype=float), base["proxy"].calls[0]["b"]
        rows0 = sorted((tuple(a0[i]), str(b0[i][0]).lower()) for i in range(a0.shape[0]))
        for order in (["c15", "c14", "c44", "c33", "c13", "c12", "c11"], ["C11", "c12", "C13", "c33", "C44", "c14", "C15"]):
            cols = [c for c in order]
            r = fill_env.symbolic_run("trigonal7", cols, nvol=1, ignore_rank=True, ignore_residuals=True)[0]
            if r["kind"] != "return":
                return core.refuted("symnp", "with both ignore flags set the table is refused (%r)" % (r["value"],), witness_id="order-case-raise", replay=native_decision(fill))
            a1, b1 = numpy.asarray(r["proxy"].calls[0]["a"], dtype=float), r["proxy"].calls[0]["b"]
            rows1 = sorted((tuple(a1[i]), str(b1[i][0]).lower()) for i in range(a1.shape[0]))
            if rows0 != rows1:
                return core.refuted("symnp", "reordering / upper-casing the columns changes the least-squares system (beyond a row permutation)",
                                    witness_id="order-case", replay={"reproduced": True, "order": order})
            labels = [str(c).lower() for c in r["value"].columns]
            if len(set(labels)) != len(labels):
                dup = sorted(set(l for l in labels if labels.count(l) > 1))
                return core.refuted("symnp", "with the columns spelled %s the result lists the component(s) %s twice (a second copy next to the supplied column)" % (cols, dup),
                                    witness_id="case-duplicates", replay=native_case(fill))
            if [str(c) for c in r["value"].columns[:7]] != cols:
                return core.refuted("symnp", "output column names do not keep the caller's spelling: %s" % list(r["value"].columns[:7]), witness_id="spelling",
                                    replay={"reproduced": True})
        nat = native_case(fill)
        if nat["reproduced"]:
            return core.refuted("runtime-contract", json.dumps(nat)[:600], witness_id="case-native", replay=nat)
        return core.proved("symnp", "the captured system is invariant under column order and letter case up to a row permutation; output keeps the caller's spelling, "
                                    "every component appears once (also on the real function for four spellings of a cubic, a hexagonal and a trigonal7 table)")
    s.oblige("C09.order_and_case_independence", order_case, [F])

    def triclinic_underdetermined():
        """by the letter of the property an under-determined table must be refused for every system, triclinic included"""
        df = pandas.DataFrame({"c11": [300.0, 310.0], "c12": [100.0, 105.0]})
        try:
            out = fill.fill_cij(df.copy(), "triclinic")
        except Warning:
            return core.proved("runtime-contract", "triclinic: under-determined table refused")
        return core.refuted("runtime-contract", "triclinic (empty relations file): a table supplying only c11, c12 is returned unchanged instead of being refused",
                            witness_id="triclinic-underdetermined-accepted", replay={"reproduced": True, "table": df.to_dict("list"), "observed_columns": list(out.columns)})
    s.oblige("C09.triclinic_refuses_underdetermined", triclinic_underdetermined, [F], kind="finite")

    # ---------------- 7. cij fill passes its options unchanged
    for system in SYSTEMS:
        if system != "triclinic":       # empty relations: the early return is the recorded finding C09.triclinic_refuses_underdetermined
            s.oblige("C09.refusal_for_all_2^21_supplied_sets[%s]" % system, lambda system=system: all_subsets(system), [F, "cij/data/constraints/" + system], kind="finite")
    s.oblige("C09.cli_fill_callsite", cli_callsite, ["cli/fill.main"])
    # ---------------- relations lookup: every path binds `constraints`; file used; directory ignored  [F on the real function]
    s.oblige("C09.relations_lookup", lambda: lookup(fill), [F, "cij.data.get_data_fname"], kind="finite")
    # ---------------- bounded: sufficiency oracle vs real function; column types; perturbations away from the threshold
    bounded_decisions(s, fill, rnd)
    s.min_obligations = 17


def native_case(fill):
    """the real fill_cij on one table spelled lower / upper / mixed (either case first): same components once each, same values, non-modulus columns untouched"""
    tables = [("cubic", {"c11": [300.0, 320.0], "c12": [100.0, 110.0], "c44": [80.0, 90.0]}),
              ("hexagonal", {"c11": [300.0, 320.0], "c33": [250.0, 255.0], "c12": [100.0, 110.0], "c13": [70.0, 75.0], "c44": [80.0, 90.0]}),
              ("trigonal7", {"c11": [300.0, 1.0], "c33": [250.0, 2.0], "c12": [100.0, 3.0], "c13": [70.0, 4.0], "c44": [80.0, 5.0], "c14": [-15.0, 6.0], "c15": [9.0, 7.0]})]
    for system, table in tables:
        ref = None
        for style in ("lower", "upper", "lower-first mixed", "upper-first mixed"):
            keys = list(table)
            spell = {k: (k if style == "lower" else k.upper() if style == "upper" else (k.upper() if (i % 2 == (0 if style.startswith("upper") else 1)) else k)) for i, k in enumerate(keys)}
            df = pandas.DataFrame(dict({"V": [500.0, 450.0]}, **{spell[k]: table[k] for k in keys}))
            try:
                out = fill.fill_cij(df.copy(), system)
            except Exception as e:  # noqa: BLE001
                return {"reproduced": True, "system": system, "spelling": list(spell.values()), "observed": "raises %r" % (e,), "expected": "the same table as for the lower-case spelling"}
            labels = [str(c).lower() for c in out.columns]
            vals = {l: out[c].tolist() for l, c in zip(labels, out.columns)}
            if len(set(labels)) != len(labels):
                return {"reproduced": True, "system": system, "spelling": list(spell.values()), "observed": "columns %s: a component listed twice" % list(out.columns),
                        "expected": "every component once"}
            if ref is None:
                ref = vals
            elif set(vals) != set(ref) or any(not numpy.allclose(vals[k], ref[k], rtol=1e-12, atol=1e-12) for k in ref):
                return {"reproduced": True, "system": system, "spelling": list(spell.values()), "observed": "components %s / values differ from the lower-case spelling" % sorted(vals),
                        "expected": "outcome independent of letter case"}
    return {"reproduced": False, "evaluations": 12}


def native_decision(fill):
    cases = [({"c11": [100.0], "c22": [200.0], "c12": [50.0]}, dict(ignore_rank=True), "raise"),       # contradiction must be refused although rank deficient
             ({"c11": [100.0], "c12": [50.0]}, dict(), "raise"),
             ({"c11": [100.0], "c12": [50.0]}, dict(ignore_rank=True), "return"),
             ({"c11": [100.0], "c22": [100.0], "c12": [50.0], "c44": [30.0]}, dict(), "return"),
             ({"c11": [100.0], "c22": [130.0], "c12": [50.0], "c44": [30.0]}, dict(), "raise"),
             ({"c11": [100.0], "c22": [130.0], "c12": [50.0], "c44": [30.0]}, dict(ignore_residuals=True), "return"),
             # moderate contradictions: supplied c11 - c22 = d against the relation c11 = c22 has least-squares misfit d^2/3 (the relation row absorbs a third of it)
             ({"c11": [100.0], "c22": [100.0 + (3 * 2.0 * 0.1) ** 0.5], "c12": [50.0], "c44": [30.0]}, dict(residual_atol=0.1), "raise"),          # misfit = 2 x tolerance
             ({"c11": [100.0], "c22": [100.0 + (3 * 0.5 * 0.1) ** 0.5], "c12": [50.0], "c44": [30.0]}, dict(residual_atol=0.1), "return"),         # misfit = tolerance / 2
             ({"c11": [100.0, 90.0], "c22": [100.0, 90.0 - (3 * 1.5 * 0.1) ** 0.5], "c12": [50.0, 40.0], "c44": [30.0, 20.0]}, dict(), "raise"),        # 1.5 x default tolerance, second volume only
             ({"c11": [100.0], "c22": [100.0 + (3 * 2.0 * 0.1) ** 0.5], "c12": [50.0], "c44": [30.0]}, dict(ignore_residuals=True), "return"),
             # hexagonal c66 = (c11 - c12)/2: rows x66, x11, x12 and relation x66 - x11/2 + x12/2 = 0, |r|^2 = 3/2, misfit d^2/(1 + 3/2)
             ({"c11": [300.0], "c33": [250.0], "c12": [100.0], "c13": [70.0], "c44": [80.0], "c66": [100.0 + (2.5 * 2.0 * 0.1) ** 0.5]}, dict(), "raise-hexagonal"),
             ({"c11": [300.0], "c33": [250.0], "c12": [100.0], "c13": [70.0], "c44": [80.0], "c66": [100.0 + (2.5 * 0.5 * 0.1) ** 0.5]}, dict(), "return-hexagonal")]
    for table, kw, want in cases:
        system = "cubic"
        if "-" in want:
            want, system = want.split("-")
        try:
            fill.fill_cij(pandas.DataFrame(table), system, **kw)
            got = "return"
        except Warning:
            got = "raise"
        except Exception as e:
            got = "error %r" % (e,)
        if got != want:
            return {"reproduced": True, "table": table, "flags": kw, "observed": got, "expected": want}
    return {"reproduced": False}


def cli_callsite():
    import cij.cli.fill as cli
    import cij.util.fill as fm
    seen = {}
    real = fm.fill_cij

    def fake(elast, **kw):
        seen["kw"], seen["cols"] = kw, list(elast.columns)
        return elast
    tmp = tempfile.mkdtemp(prefix="c09_")
    p = os.path.join(tmp, "elast.dat")
    with open(p, "w") as fp:
        fp.write("title\n100.0 2 50.0\nV c11 c12\n10.0 1.0 2.0\n9.0 1.5 2.5\n\nrest\n")
    from contracts.nonshear_env import patched
    try:
        from click.testing import CliRunner
        with patched(fm, fill_cij=fake):
            res = CliRunner().invoke(cli.main, ["-s", "hexagonal", "--ignore-rank", "--drop-atol", "0.5", p])
    finally:
        shutil.rmtree(tmp, ignore_errors=True)
    want = {"system": "hexagonal", "ignore_residuals": False, "ignore_rank": True, "drop_atol": 0.5}
    if res.exit_code != 0 or seen.get("kw") != want or seen.get("cols") != ["V", "c11", "c12"]:
        return core.refuted("callsite", "cij fill calls fill_cij(%r, columns %r), exit %s" % (seen.get("kw"), seen.get("cols"), res.exit_code),
                            witness_id="cli-callsite", replay={"reproduced": True})
    return core.proved("callsite", "cij fill hands system, ignore_residuals, ignore_rank, drop_atol unchanged to fill_cij together with the parsed table")


def lookup(fill):
    table = {"c11": [100.0, 110.0], "c12": [50.0, 55.0], "c44": [30.0, 31.0]}
    ref = fill.fill_cij(pandas.DataFrame(table), "cubic")
    cwd = os.getcwd()
    tmp = tempfile.mkdtemp(prefix="c09l_")
    try:
        os.chdir(tmp)
        os.mkdir("cubic")                                        # a directory named like the system
        try:
            out = fill.fill_cij(pandas.DataFrame(table), "cubic")
        except Exception as e:
            return core.refuted("finite", "a directory named `cubic` in the working directory: raises %r" % (e,), witness_id="lookup-dir",
                                replay={"reproduced": True})
        if not out.equals(ref):
            return core.refuted("finite", "a directory named `cubic` changes the result", witness_id="lookup-dir-result", replay={"reproduced": True})
        os.rmdir("cubic")
        # a user-written relations file equivalent to the packaged cubic one, given by path
        path = os.path.join(tmp, "my_relations.txt")
        with open(path, "w") as fp:
            fp.write("c22 = c11\nc33 = c11\nc13 = c12\nc23 = c12\nc55 = c44\nc66 = c44\nc14 = c15 = c16 = c24 = c25 = c26 = 0\nc34 = c35 = c36 = c45 = c46 = c56 = 0\n")
        try:
            out = fill.fill_cij(pandas.DataFrame(table), path)
        except Exception as e:
            return core.refuted("finite", "relations file given by path: raises %r" % (e,), witness_id="lookup-path", replay={"reproduced": True})
        if sorted(out.columns) != sorted(ref.columns) or any(not numpy.allclose(out[c], ref[c]) for c in ref.columns):
            return core.refuted("finite", "relations file given by path is not used as the relations", witness_id="lookup-path-result", replay={"reproduced": True})
        # a different (tetragonal-like) user file must give a different answer: it is really read
        with open(path, "w") as fp:
            fp.write("c22 = c11\nc23 = c13\nc55 = c44\nc14 = c15 = c16 = c24 = c25 = c26 = 0\nc34 = c35 = c36 = c45 = c46 = c56 = 0\n")
        try:
            fill.fill_cij(pandas.DataFrame(table), path)
            return core.refuted("finite", "an under-determining user relations file is accepted: the file is not what is applied", witness_id="lookup-path-ignored",
                                replay={"reproduced": True})
        except Warning:
            pass
    finally:
        os.chdir(cwd)
        shutil.rmtree(tmp, ignore_errors=True)
    return core.proved("finite", "directory named like the system ignored; relations file given by path used")


def all_subsets(system):
    """the refusal decision for EVERY one of the 2^21 sets of supplied components, by block decomposition.

    Code side (A-LSQ): fill_cij refuses iff rank([E_S; R]) < 21, R = the relation rows the real code hands to lstsq (captured on this run), and
    rank([E_S; R]) = |S| + rank(R[:, not S]).  Spec side: S determines the invariant tensor iff the coordinate projection of the Laue-invariant subspace (specs/laue.py,
    independent of the relation files) onto S is injective.  Components are grouped into blocks (connected through a relation row or an invariant basis vector); both ranks
    are additive over blocks, so the two decisions agree for all 2^21 sets iff they agree for every subset of every block -- enumerated completely, exact arithmetic.
    Numerical side: the singular values of [E_S; R] are the union of the blocks' singular values; the smallest non-zero one over all block subsets must exceed lstsq's
    cut-off eps*max(M,N)*s_max by a wide margin, so that the floating-point rank equals the exact rank for every S."""
    import itertools
    Rf, _ = fill_env.relation_matrix(system)
    R = sp.Matrix(Rf.shape[0], 21, lambda i, j: sp.nsimplify(Rf[i, j], rational=True)) if Rf.shape[0] else sp.zeros(0, 21)
    if Rf.shape[0] and not numpy.array_equal(numpy.array(R.tolist(), dtype=float), Rf):
        return core.unknown("finite", "%s: relation coefficients are not exactly representable rationals" % system)
    basis = laue.invariant_basis(system)
    B = sp.Matrix([[v[k] for v in basis] for k in range(21)]) if basis else sp.zeros(21, 0)
    # blocks: connected components of the joint support graph
    parent = list(range(21))

    def find(x):
        while parent[x] != x:
            parent[x] = parent[parent[x]]
            x = parent[x]
        return x
    for i in range(R.shape[0]):
        sup = [j for j in range(21) if R[i, j] != 0]
        for j in sup[1:]:
            parent[find(j)] = find(sup[0])
    for c in range(B.shape[1]):
        sup = [j for j in range(21) if sp.simplify(B[j, c]) != 0]
        for j in sup[1:]:
            parent[find(j)] = find(sup[0])
    blocks = {}
    for j in range(21):
        blocks.setdefault(find(j), []).append(j)
    zero = lambda x: sp.simplify(x) == 0
    n_sub, smin, smax = 0, None, 0.0
    for blk in blocks.values():
        rows = [i for i in range(R.shape[0]) if any(R[i, j] != 0 for j in blk)]
        Rb = R.extract(rows, blk) if rows else sp.zeros(0, len(blk))
        cols = [c for c in range(B.shape[1]) if any(not zero(B[j, c]) for j in blk)]
        Bb = B.extract(blk, cols) if cols else sp.zeros(len(blk), 0)
        if Bb.shape[1] and Bb.rank(iszerofunc=zero) != Bb.shape[1]:
            return core.unknown("finite", "%s: invariant basis restricted to block %s is not independent" % (system, blk))
        Rbf = numpy.array(Rb.tolist(), dtype=float).reshape(len(rows), len(blk))
        for m in range(len(blk) + 1):
            for S in itertools.combinations(range(len(blk)), m):
                n_sub += 1
                rest = [j for j in range(len(blk)) if j not in S]
                r_code = (Rb.extract(list(range(Rb.shape[0])), rest).rank(iszerofunc=zero) if rest and Rb.shape[0] else 0)
                accept = (r_code == len(rest))
                suff = ((Bb.extract(list(S), list(range(Bb.shape[1]))).rank(iszerofunc=zero) if S and Bb.shape[1] else 0) == Bb.shape[1])
                names = [NAMES[blk[j]] for j in S]
                if accept != suff:
                    return core.refuted("finite", "%s, block %s, supplied %s: the rank test of the code %s, but these components %s the invariant tensor of the block"
                                        % (system, [NAMES[j] for j in blk], names, "accepts" if accept else "refuses", "determine" if suff else "do not determine"),
                                        witness_id="subset:%s:%s" % (system, names), replay=native_subset(system, blk, S, suff))
                A = numpy.vstack([numpy.eye(len(blk))[list(S)].reshape(len(S), len(blk)), Rbf])
                sv = numpy.linalg.svd(A, compute_uv=False) if A.size else numpy.zeros(0)
                exact_rank = len(S) + r_code
                pos = sorted(sv, reverse=True)[:exact_rank]
                rest_sv = sorted(sv, reverse=True)[exact_rank:]
                if (pos and min(pos) < 1e-6) or (rest_sv and max(rest_sv) > 1e-9):
                    return core.refuted("finite", "%s, block %s, supplied %s: singular values %s do not separate into %d non-zero and the rest zero" % (
                        system, [NAMES[j] for j in blk], names, [float("%.3g" % x) for x in sv], exact_rank), witness_id="svd-gap:%s:%s" % (system, names), replay={"reproduced": True})
                if pos:
                    smin = min(pos) if smin is None else min(smin, min(pos))
                    smax = max(smax, max(pos))
    cutoff = numpy.finfo(float).eps * 64 * max(smax, 1.0)          # lstsq(rcond=None): eps * max(M, N) * largest singular value, M <= 21 + 43 rows
    if smin is not None and smin < 1e6 * cutoff:
        return core.refuted("finite", "%s: smallest non-zero singular value %.3g is not separated from lstsq's cut-off %.3g" % (system, smin, cutoff), witness_id="svd-gap:" + system,
                            replay={"reproduced": True})
    return core.proved("finite", "%s: %d blocks, %d block subsets enumerated exactly: rank([E_S; R]) = 21 <=> S determines the invariant tensor, for every one of the 2^21 supplied sets; "
                                 "non-zero singular values within [%.3g, %.3g], lstsq cut-off %.1e" % (system, len(blocks), n_sub, smin or 0.0, smax, cutoff))


def native_subset(system, blk, S, suff):
    """replay of a block-subset disagreement on the real fill_cij: the block's supplied components plus every component of the other blocks"""
    fill = fill_env.fill_module()
    basis = numpy.array([[float(sp.N(x)) for x in v] for v in laue.invariant_basis(system)])
    rnd = numpy.random.RandomState(1)
    tens = (rnd.uniform(20, 400, size=(2, len(basis))) @ basis) if len(basis) else rnd.uniform(20, 400, size=(2, 21))
    sup = [blk[j] for j in S] + [k for k in range(21) if k not in blk]
    df = pandas.DataFrame({NAMES[k]: tens[:, k] for k in sup})
    try:
        fill.fill_cij(df.copy(), system)
        got = "accepted"
    except Warning:
        got = "refused"
    except Exception as e:
        got = "raises %r" % (e,)
    want = "accepted" if suff else "refused"
    return {"reproduced": got != want, "system": system, "supplied": [NAMES[k] for k in sup], "observed": got, "expected": want}


def bounded_decisions(s, fill, rnd):
    n_sub = 25 if s.tier == "quick" else 1500
    fails, evals, distinct = [], 0, set()

    def fail(wid, inp, obs, exp):
        fails.append({"witness_id": wid, "input": inp, "observed": obs, "expected": exp})
    for system in SYSTEMS:
        if fails:
            break
        basis = numpy.array([[float(sp.N(x)) for x in v] for v in laue.invariant_basis(system)])
        subsets = []
        for k in range(21):
            subsets.append([k])
            subsets.append([j for j in range(21) if j != k])
        for _ in range(n_sub):
            m = int(rnd.randint(1, 21))
            subsets.append(sorted(rnd.choice(21, size=m, replace=False).tolist()))
        for sub in subsets:
            sig = (system, tuple(sub))
            if sig in distinct:
                continue
            distinct.add(sig)
            tens = (rnd.uniform(20, 400, size=(2, len(basis))) @ basis) if len(basis) else numpy.zeros((2, 21))
            want = exact_sufficient(system, sub)
            for _once in (0,):
                df = pandas.DataFrame({NAMES[k]: tens[:, k] for k in sub})
                evals += 1
                try:
                    out = fill.fill_cij(df.copy(), system)
                    got = True
                except Warning:
                    got = False
                except Exception as e:
                    fail("suff:%s:%s" % (system, sub), {"system": system, "supplied": [NAMES[k] for k in sub]}, "raises %r" % (e,), "accept" if want else "Warning")
                    break
                if system == "triclinic" and got and not want:
                    break      # separate obligation C09.triclinic_refuses_underdetermined (known finding)
                if got != want:
                    fail("suff:%s:%s" % (system, sub), {"system": system, "supplied": [NAMES[k] for k in sub], "table": df.to_dict("list")},
                         "accepted" if got else "refused", "%s (exact rank of the invariant basis restricted to the supplied components)" % ("accept" if want else "refuse"))
                    break
                if got and want:
                    # both ignore flags off and accepted: perturb one supplied value well beyond / well below the threshold
                    col = NAMES[sub[int(rnd.randint(0, len(sub)))]]
                    big = df.copy()
                    big.loc[0, col] = big.loc[0, col] + 50.0
                    try:
                        fill.fill_cij(big.copy(), system)
                        acc = True
                    except Warning:
                        acc = False
                    still_suff = exact_sufficient(system, [k for k in sub if NAMES[k] != col])
                    if still_suff and acc:
                        fail("incons:%s:%s:%s" % (system, sub, col), {"system": system, "table": big.to_dict("list")}, "accepted",
                             "refused: %s is over-determined and off by 50" % col)
                        break
                    try:
                        fill.fill_cij(big.copy(), system, ignore_residuals=True)
                    except Warning:
                        fail("ignres:%s:%s" % (system, sub), {"system": system, "table": big.to_dict("list")}, "refused with ignore_residuals", "accepted")
                        break
                break
            if fails:
                break
    # accepted => every relation of the OUTPUT holds within sqrt(tolerance); supplied values near-unchanged is the known finding
    if not fails:
        tol = 0.1
        for system in SYSTEMS:
            if system == "triclinic" or fails:
                continue
            R, _ = fill_env.relation_matrix(system)
            basis = numpy.array([[float(sp.N(x)) for x in v] for v in laue.invariant_basis(system)])
            for trial in range(3 if s.tier == "quick" else 40):
                tens = rnd.uniform(50, 400, size=(1, len(basis))) @ basis
                for delta in (0.05, 0.2, 0.33, 0.4, 0.45, 0.5, 0.6, 1.0, 3.0):
                    df = pandas.DataFrame({NAMES[k]: tens[:, k] for k in range(21)})
                    col = NAMES[int(rnd.randint(0, 21))]
                    df.loc[0, col] = df.loc[0, col] + delta
                    evals += 1
                    distinct.add((system, "ladder", trial, delta))
                    try:
                        out = fill.fill_cij(df.copy(), system, residual_atol=tol)
                    except Warning:
                        continue
                    full = numpy.array([float(out[n].iloc[0]) if n in out.columns else 0.0 for n in NAMES])
                    viol = numpy.abs(R @ full).max() if len(R) else 0.0
                    if viol > numpy.sqrt(tol) * (1 + 1e-9):
                        fail("relation-bound:%s:%s:%g" % (system, col, delta), {"system": system, "table": df.to_dict("list"), "perturbed": col, "delta": delta},
                             "accepted, but a symmetry relation of the result is violated by %.4g" % viol, "<= sqrt(residual_atol) = %.4g" % numpy.sqrt(tol))
                        break
                if fails:
                    break
    # integer-typed supplied columns on every system: same result as float columns, supplied values not moved
    if not fails:
        for system in SYSTEMS:
            if system == "triclinic" or fails:
                continue
            basis = laue.invariant_basis(system)
            B = numpy.array([[float(sp.N(x)) for x in v] for v in basis])
            for trial in range(4 if s.tier == "quick" else 60):
                # an independent sufficient subset: any integer values are consistent
                order = rnd.permutation(21)
                chosen = []
                for k in order:
                    if numpy.linalg.matrix_rank(B[:, chosen + [int(k)]], tol=1e-9) > len(chosen):
                        chosen.append(int(k))
                    if len(chosen) == len(B):
                        break
                vals = {NAMES[k]: rnd.randint(20, 600, size=2) for k in chosen}
                # column typing as pandas infers it per column: all whole-number columns (even trials), or only SOME of them, anywhere among the float ones (odd trials)
                as_int = set(vals) if trial % 2 == 0 else {n for n in vals if rnd.rand() < 0.5} or {list(vals)[0]}
                ti = pandas.DataFrame({n: (v.astype("int64") if n in as_int else v.astype(float)) for n, v in vals.items()})
                tf = pandas.DataFrame({n: v.astype(float) for n, v in vals.items()})
                evals += 1
                distinct.add((system, "int", trial))
                try:
                    oi, of = fill.fill_cij(ti.copy(), system), fill.fill_cij(tf.copy(), system)
                except Exception as e:
                    fail("int-columns:%s" % system, {"system": system, "table": ti.to_dict("list")}, "raises %r" % (e,), "same result as float columns")
                    break
                bad = sorted(oi.columns) != sorted(of.columns) or any(
                    not numpy.allclose(oi[c].to_numpy(dtype=float), of[c].to_numpy(dtype=float), rtol=0, atol=1e-8) for c in of.columns if c in oi.columns)
                moved = [c for c in vals if c in oi.columns and not numpy.allclose(oi[c].to_numpy(dtype=float), vals[c].astype(float), rtol=0, atol=1e-8)]
                if bad or moved:
                    fail("int-columns:%s:%d" % (system, trial), {"system": system, "table": ti.to_dict("list"), "integer_typed_columns": sorted(as_int)},
                         {"moved": moved, "int": {str(c): oi[c].tolist() for c in oi.columns}}, "integer and float columns give the same table; supplied values unchanged")
                    break
    # integer-typed columns, order, a zero non-modulus column
    if not fails:
        t_float = pandas.DataFrame({"V": [500.0, 450.0], "T": [0, 0], "c11": [300.0, 320.0], "c12": [100.0, 110.0], "c44": [80.0, 90.0]})
        t_int = pandas.DataFrame({"V": [500.0, 450.0], "T": [0, 0], "c11": [300, 320], "c12": [100, 110], "c44": [80, 90]})
        evals += 2
        try:
            a = fill.fill_cij(t_float.copy(), "cubic")
            b = fill.fill_cij(t_int.copy(), "cubic")
            if sorted(a.columns) != sorted(b.columns) or any(not numpy.allclose(a[c].to_numpy(dtype=float), b[c].to_numpy(dtype=float), atol=1e-9) for c in a.columns):
                fail("int-vs-float", {"int": t_int.to_dict("list")}, {str(c): b[c].tolist() for c in b.columns}, {str(c): a[c].tolist() for c in a.columns})
            elif "T" not in a.columns or a["T"].tolist() != [0, 0] or a["V"].tolist() != [500.0, 450.0]:
                fail("non-modulus-column", {"table": t_float.to_dict("list")}, list(map(str, a.columns)), "V and the all-zero column T pass through untouched")
            else:
                for c in ("c11", "c12", "c44"):
                    if not numpy.allclose(b[c].to_numpy(dtype=float), t_int[c].to_numpy(dtype=float), rtol=0, atol=1e-9):
                        fail("int-moved", {"table": t_int.to_dict("list")}, {c: b[c].tolist()}, {c: t_int[c].tolist()})
                        break
        except Exception as e:
            fail("int-columns", {"table": t_int.to_dict("list")}, "raises %r" % (e,), "same result as float columns")
    s.bounded_standin("C09.decisions(real numerics)", "%d supplied-component subsets per system (all singletons, all 20-subsets, %d random) with exact-rank oracle; one +50 "
                      "perturbation per accepted table; integer vs float columns; seed %d" % (42 + n_sub, n_sub, s.seed), evals, len(distinct), fails, [F])


MANIFEST = {
    "engine": "symnp", "category": "other",
    "technique": "contract-based deductive verification of the decision logic (symbolic runs of the real fill_cij, lstsq as contract stub, z3); the rank "
                 "test decided for all 2^21 supplied sets per system by block decomposition of the captured relation rows (complete exact enumeration + singular-value "
                 "gap); the real function against the exact-rank oracle and the environment clauses as bounded run-time contracts",
    "text": "On symbolic tables (values, solution and rank symbolic; all four flag combinations) every path of the real fill_cij is proved to "
            "raise Warning iff (rank<21 and not ignore_rank) or (a residual |a x-b|^2 exceeds the tolerance and not ignore_residuals), the "
            "residual being that of the captured system; accepted => each relation within sqrt(tol) (lemma); zero residual => supplied values "
            "returned unchanged; the captured system is independent of column order and letter case; the CLI forwards its options; for each of the eight systems "
            "with relations, rank([supplied rows; captured relation rows]) = 21 is shown equivalent to 'the supplied components determine the Laue-invariant tensor' for "
            "EVERY one of the 2^21 supplied sets (components fall into blocks, every subset of every block enumerated with exact rank arithmetic; the non-zero singular "
            "values stay 13 orders of magnitude above lstsq's cut-off, so the floating-point rank is the exact rank); the "
            "relations lookup ignores a same-named directory and uses a file given by path. Bounded: accept/refuse equals an independent "
            "exact rank computation on the Laue-invariant subspace for enumerated/random supplied subsets of all nine systems; large "
            "contradictions refused, ignore flags honoured; integer columns; pass-through columns. One known finding (least squares moves "
            "slightly inconsistent supplied values) is reported as KNOWN-FINDING.",
    "note": "A-LSQ (lstsq returns the rank of the matrix it is given, SVD accurate to 1e-12 relative), pandas trusted; contradiction sizes are exercised away from the tolerance only; bounded part: 67 (quick) / 1542 "
            "(thorough) subsets per system. Known finding listed in known_findings.json.",
}
