"""C17 -- input files round-trip: phonon data write/read, static table parse, fill output.

Deductive fragment (engine E6, vf/regauto.py + pyvc): the regular expressions the readers use are proved, over ALL strings
of the language the writer can emit for a line (extracted from write_energy's AST: f-strings / %-formats), to capture exactly
the written field tokens; _find_modulus_key is executed path-wise from its AST against the contracts of re.search and c_, and
its pattern is proved to accept exactly <prefix><digits> headers and to capture the digits.  What stays bounded: the line
*structure* (counts of volumes / q-points / modes), decimal formatting composed with float() (to the written precision), pandas
printing in the fill command -- run-time contracts on the real functions.
"""
import importlib, io, os, random, re, shutil, tempfile
import numpy
import z3
from vf import core

LEVEL = "other"
EXPLANATION = ("regex lemmas over all strings of the writer's line languages (tagged-automata inclusion on CPython's own parse of the patterns) and a "
               "path-complete AST run of _find_modulus_key are proved; the file structure, decimal formatting and the fill command are bounded "
               "run-time contracts on the real functions (labelled bounded)")


def run(s):
    qi = importlib.import_module("cij.io.traditional.qha_input")
    ed = importlib.import_module("cij.io.traditional.elast_dat")
    s.assume("A-PANDAS, A-CLICK", "decimal formatting / float parsing of CPython")
    s.undecided_part("line structure of the phonon file for arbitrary counts (nv, nq, np), '%12.6f' composed with float() to the written precision, pandas printing and the "
                     "fill command: bounded run-time contracts only")
    rnd = random.Random(s.seed)
    tmp = tempfile.mkdtemp(prefix="c17_")
    try:
        deductive(s, qi, ed, tmp)
        table_structure(s, ed)
        table_loop_rule(s, ed)
        s.oblige("C17.read_energy.hands_over_as_written(hand-written files)", reader_hands_over_as_written, ["qha_input.read_energy"], kind="finite")
        phonon_round_trip(s, qi, rnd, tmp)
        static_tables(s, ed, rnd, tmp)
        fill_command(s, ed, rnd, tmp)
    finally:
        shutil.rmtree(tmp, ignore_errors=True)
    s.min_obligations = 5


# =========================================================================================== deductive fragment
KEY_SPEC = r"[^\d\s]*(\d+)"       # a column header: any prefix without digits / blanks, then the index digits (property statement)
KEY_DOMAIN = r"\S+"               # headers are whitespace-separated tokens


def explore_find_modulus_key(ed):
    """pyvc run of the real _find_modulus_key with `re` and `c_` as external contracts: returns (patterns searched, summary,
    problems)."""
    from vf import pyvc
    mod = pyvc.Module(ed.__file__, ed)
    key = pyvc.ExtV(("key",))
    patterns = []
    mbool = {}

    def search(vm, args, kwargs):
        if kwargs or len(args) != 2:
            raise core.OutsideSubset("re.search call shape")
        pat, subj = args
        if not (isinstance(pat, pyvc.ConstV) and isinstance(pat.py, str)):
            raise core.OutsideSubset("re.search pattern is not a module-level string constant")
        if subj is not key:
            raise core.OutsideSubset("re.search on something other than the column header")
        if pat.py not in patterns:
            patterns.append(pat.py)
        b = mbool.setdefault(pat.py, z3.Bool("matches_%d" % len(mbool)))

        def attr(vm2, name):
            if not vm2.decide(b):
                raise pyvc.Raised("AttributeError", "None.%s" % name)
            if name != "group":
                raise core.OutsideSubset("match.%s" % name)

            def group(vm3, a, k):
                if k or len(a) != 1 or not isinstance(a[0], pyvc.IntV) or not z3.is_int_value(a[0].z):
                    raise core.OutsideSubset("match.group call shape")
                return pyvc.ExtV(("group", pat.py, a[0].z.as_long()))
            return pyvc.ExtV(("match.group",), call=group)
        return pyvc.ExtV(("match", pat.py), attr=attr, truth=lambda vm2: vm2.decide(b))

    def re_attr(vm, name):
        if name != "search":
            raise core.OutsideSubset("re.%s" % name)
        return pyvc.ExtV(("re.search",), call=search)

    def c_call(vm, args, kwargs):
        if kwargs or len(args) != 1 or not isinstance(args[0], pyvc.ExtV):
            raise core.OutsideSubset("c_ call shape")
        return pyvc.ExtV(("c_", args[0].key))
    mod.externals = {"re": pyvc.ExtV(("re",), attr=re_attr), "c_": pyvc.ExtV(("c_",), call=c_call)}
    vm = pyvc.VM(mod)
    outs = vm.explore(mod.functions["_find_modulus_key"], [key])
    return patterns, mbool, outs, key


def ob_key_body(ed, box):
    patterns, mbool, outs, key = explore_find_modulus_key(ed)
    if len(patterns) != 1:
        raise core.OutsideSubset("_find_modulus_key searches %d patterns" % len(patterns))
    pat = patterns[0]
    box["pattern"] = pat
    b = mbool[pat]
    seen = set()
    for o in outs:
        sv = z3.Solver()
        sv.add(*o.pc)
        sv.add(*o.defs)
        matched = None
        sv.push(); sv.add(z3.Not(b)); m1 = sv.check() == z3.unsat; sv.pop()
        sv.push(); sv.add(b); m0 = sv.check() == z3.unsat; sv.pop()
        if m1 == m0:
            raise core.OutsideSubset("a path of _find_modulus_key does not depend on the search result in a decidable way")
        matched = m1
        seen.add(matched)
        if o.kind != "return":
            return core.refuted("pyvc", "_find_modulus_key raises %s when the search %s" % (o.exc, "matches" if matched else "does not match"),
                                witness_id="raises:%s" % matched, replay=native_key(ed, "c11" if matched else "V"))
        k = getattr(o.value, "key", None)
        want = ("c_", ("group", pat, 1)) if matched else ("key",)
        if k != want:
            return core.refuted("pyvc", "when the search %s the function returns %r, the contract requires %s"
                                % ("matches" if matched else "does not match", o.value, "c_(match.group(1))" if matched else "the header unchanged"),
                                witness_id="returns:%s" % matched, replay=native_key(ed, "c11" if matched else "V"))
    if seen != {True, False}:
        return core.refuted("pyvc", "paths cover only search outcomes %s" % sorted(seen), witness_id="paths")
    return core.proved("pyvc", "2 paths: match -> c_(group 1 of re.search(%r, header)); no match -> header itself" % pat,
                       sample="forall header: _find_modulus_key(header) == (c_(m.group(1)) if (m := re.search(%r, header)) else header)" % pat)


def native_key(ed, w, spec=KEY_SPEC):
    """the real function on the witness, with c_ recording its argument"""
    from contracts.nonshear_env import patched
    m = re.fullmatch(spec, w)
    want = ("c_", m.group(1)) if m else w
    try:
        with patched(ed, c_=lambda x: ("c_", x)):
            got = ed._find_modulus_key(w)
    except Exception as e:
        got = "raises %r" % e
    return {"reproduced": got != want, "input": w, "observed": repr(got), "expected": repr(want)}


def ob_regex_lemma(pattern, spec, domain, what, replay_fn=None, extra=()):
    from vf import regauto
    bad, n, nm = regauto.crosscheck(pattern, extra=extra)
    if bad:
        raise core.EngineUnsound("ordered-automaton semantics of %r disagree with CPython re on %r" % (pattern, bad[:2]))
    res, ctx = regauto.search_lemma(pattern, spec, domain)
    for name, ok, w in res:
        if not ok:
            wit = w[0]
            r = core.refuted("regauto", "%s: lemma `%s` fails for pattern %r against the language %r: witness string %r (%s)"
                             % (what, name, pattern, spec, wit, w[1]), witness_id=name, model={"string": wit})
            if replay_fn:
                r.replay = replay_fn(wit)
            return r
    return core.proved("regauto", "%s: %s over all strings (%d character classes; automaton cross-checked against CPython re on %d strings, %d matching)"
                       % (what, ", ".join(n for n, _, _ in res), ctx.nclasses, n, nm),
                       sample="pattern %r\nlanguage %r\nlemmas: %s" % (pattern, spec, [n for n, _, _ in res]))


def native_search(pattern, spec):
    def f(w):
        m, sp = re.search(pattern, w), re.fullmatch(spec, w)
        got = None if m is None else (m.start(), m.groups())
        want = None if sp is None else (0, sp.groups())
        return {"reproduced": got != want, "input": w, "observed": "re.search -> %r" % (got,), "expected": "%r" % (want,)}
    return f


class PairingFailed(Exception):
    pass


class _TrackedStr(str):
    log = None

    def strip(self, *a):
        r = _TrackedStr(str.strip(self, *a))
        r.origin, r.rel = getattr(self, "origin", str(self)), "strip"
        return r

    def split(self, *a, **k):
        out = str.split(self, *a, **k)
        if not a and not k and _TrackedStr.log is not None:
            _TrackedStr.log.append((getattr(self, "origin", str(self)), getattr(self, "rel", "raw"), list(out)))
        return out


class _TrackedFile:
    def __init__(self, path):
        with open(path, encoding="utf8") as fp:
            self.lines = fp.readlines()
        self.i = 0

    def __enter__(self): return self
    def __exit__(self, *a): return False
    def __iter__(self): return self

    def __next__(self):
        if self.i >= len(self.lines):
            raise StopIteration
        self.i += 1
        t = _TrackedStr(self.lines[self.i - 1])
        t.origin, t.rel = str(t), "raw"
        return t

    def readline(self):
        try:
            return next(self)
        except StopIteration:
            return ""

    def read(self):
        rest = "".join(self.lines[self.i:])
        self.i = len(self.lines)
        return rest


def phonon_pairing(s, qi, tmp):
    """one sentinel write/read with the reader's searches and whitespace splits recorded; every (pattern or split, line
    template) pair found becomes a lemma over the template's whole language"""
    from contracts import textio_env as tio
    from contracts.nonshear_env import patched
    templates = tio.templates_of_function(qi.write_energy)
    vols = []
    val = iter([x * 1.0009765625 + 0.5 for x in range(7, 400, 3)])
    for v in range(2):
        qs = [qi.QPointData((next(val) / 64, -next(val) / 64, next(val) / 64), [next(val), -next(val), next(val)]) for _ in range(2)]
        vols.append(qi.VolumeData(-next(val), next(val) + 200, -next(val) - 1000, qs))
    weights = [((next(val) / 64, next(val) / 64, -next(val) / 64), float(k + 1)) for k in range(2)]
    data = qi.QHAInputData(2, 2, 3, 1, 1, weights, vols)
    path = os.path.join(tmp, "pairing_input01")
    qi.write_energy(path, data, comment="pairing run")
    rec = tio.RecordingRe()
    _TrackedStr.log = []
    try:
        with patched(qi, re=rec, open=lambda p, *a, **k: _TrackedFile(p)):
            try:
                qi.read_energy(path)
            except core.OutsideSubset:
                raise
            except Exception as e:
                raise PairingFailed("read_energy raises %r on the file write_energy produced for a 2-volume, 2-q-point, 3-mode data set "
                                    "(last line searched: %r)" % (e, rec.calls[-1][1] if rec.calls else None))
    finally:
        splits, _TrackedStr.log = _TrackedStr.log, None
    raw = open(path, encoding="utf8").readlines()
    names = {v: k for k, v in vars(qi).items() if k.startswith("REGEX") and isinstance(v, str)}
    pairs = {}

    def locate(searched, rel_hint=None):
        for ln in raw:
            if searched == ln:
                return ln, "raw"
        for ln in raw:
            if searched == ln.strip():
                return ln, "strip"
        return None, None
    n_const = 0
    for pattern, searched, matched, flags in rec.calls:
        if flags:
            raise core.OutsideSubset("regex flags in a reader search")
        ln, rel = locate(searched)
        if ln is None:
            raise core.OutsideSubset("the reader searched %r, which is neither a line of the file nor its strip()" % searched)
        hit = tio.match_template(templates, ln)
        if hit is None:
            n_const += 1            # constant line of the writer (comment, labels, blank): nothing to generalise
            if matched and ln.strip() not in ("pairing run",):
                pass
            continue
        lineno, parts, reps = hit
        pairs.setdefault(("search", pattern, lineno, rel, tuple(reps), matched), (parts, reps, ln))
    for origin, rel, toks in splits:
        ln, _ = locate(origin)
        if ln is None:
            continue
        hit = tio.match_template(templates, ln)
        if hit is None:
            continue
        lineno, parts, reps = hit
        pairs.setdefault(("split", None, lineno, rel, tuple(reps), True), (parts, reps, ln))
    return pairs, names, n_const, len(rec.calls), len(splits)


def deductive(s, qi, ed, tmp):
    from contracts import textio_env as tio
    s.trust("vf/regauto.py (regex -> ordered tagged automata, subset construction)", "CPython re._parser (parse tree of the pattern)")
    s.assume("A-RE: CPython's re.search returns the highest-priority successful backtracking path at the smallest start position "
             "(the automaton semantics are cross-checked against CPython on random strings every run)",
             "A-PRINTF: '%w.pf' / format(x, 'w.pf') of a finite float produce optional blanks then -?digits.digits{p}; '%wd' of a natural number blanks then digits",
             "A-SPLIT: str.split() returns the maximal runs of non-whitespace characters")
    box = {}
    s.oblige("C17._find_modulus_key.body", lambda: ob_key_body(ed, box), ["elast_dat._find_modulus_key"])
    pat = box.get("pattern", getattr(ed, "REGEX_MODULUS", None))
    s.oblige("C17._find_modulus_key.regex_over_all_headers",
             lambda: ob_regex_lemma(pat, KEY_SPEC, KEY_DOMAIN, "column headers <prefix><digits>", lambda w: native_key(ed, w),
                                    extra=["c11", "C_12", "Cij1123", "V", "c1x", "11", "c-44"]), ["elast_dat.REGEX_MODULUS"])
    s.canary("C17.canary.key_regex_restricted_to_letter_c",
             lambda: ob_regex_lemma(r"^[cC]_?(\d+)$", KEY_SPEC, KEY_DOMAIN, "canary"))
    try:
        pairs, names, n_const, n_calls, n_splits = phonon_pairing(s, qi, tmp)
    except core.OutsideSubset as e:
        s.oblige("C17.read_energy.pairing", lambda: core.unknown("engine", "outside subset: %s" % e), ["qha_input.read_energy"])
        return
    except PairingFailed as e:
        s.oblige("C17.read_energy.pairing", lambda: core.refuted("runtime-contract", str(e), witness_id="pairing-run-raises",
                                                                 replay={"reproduced": True, "observed": str(e)}), ["qha_input.read_energy"])
        return
    n = 0
    for (kind, pattern, lineno, rel, reps, matched), (parts, reps_, ln) in sorted(pairs.items(), key=lambda kv: (kv[0][0], kv[0][2], str(kv[0][1]))):
        # precondition of the writer's contract: the %d fields are the counts nv, nq, np, nm, na (natural numbers)
        spec, nf, fields = tio.spec_regex(parts, list(reps_), strip=(rel == "strip"), nat_ints=True)
        if rel == "raw":
            spec += r"\n"
        desc = "writer line template (write_energy source line +%d: %s)" % (lineno, " ".join(f.spec for f in fields))
        if kind == "search":
            label = names.get(pattern, "pattern:%s" % pattern[:24])
            if not matched:
                s.oblige("C17.read_energy.%s.on_template_%s" % (label, "_".join(f.spec for f in fields)),
                         lambda: core.unknown("engine", "outside subset: the reader's search fails on a formatted line"), [])
                continue
            s.oblige("C17.read_energy.%s.captures_written_fields" % label,
                     lambda pattern=pattern, spec=spec, desc=desc, ln=ln: ob_regex_lemma(pattern, spec, None, desc, native_search(pattern, spec),
                                                                                  extra=[ln, ln.strip()]),
                     ["qha_input.%s" % label, "qha_input.write_energy (line templates)"])
        else:
            k = len(fields)
            pattern = r"^\s*" + r"\s+".join([r"(\S+)"] * k) + r"\s*$"
            s.oblige("C17.read_energy.split_yields_written_fields[%s]" % ",".join(f.spec for f in fields),
                     lambda pattern=pattern, spec=spec, desc=desc, ln=ln: ob_regex_lemma(pattern, spec, None, desc + " under str.split()",
                                                                                  native_search(pattern, spec), extra=[ln]),
                     ["qha_input.write_energy (line templates)", "qha_input._read_weights / _read_volume_data (split)"])
        n += 1
    s.canary("C17.canary.fields_written_without_separator",
             lambda: ob_regex_lemma(r"^\s*(\S+)\s+(\S+)\s*$", r" *(-?[0-9]+\.[0-9]{6}) *(-?[0-9]+\.[0-9]{6})\n", None, "canary"))
    s.pairing_info = {"reader_searches_recorded": n_calls, "reader_splits_recorded": n_splits, "constant_lines_searched": n_const, "lemmas": n}


def rand_val(rnd, mag):
    """values of either sign with magnitudes spread over the decades up to `mag` (edge magnitudes included)"""
    c = rnd.random()
    if c < 0.15:
        return rnd.choice([-1, 1]) * mag * rnd.choice([1.0, 0.999999, 0.1, 0.100001])
    if c < 0.25:
        return rnd.choice([0.0, -0.0, 1e-6, -1e-6, 5e-7])
    return rnd.choice([-1, 1]) * 10 ** rnd.uniform(-3, numpy.log10(mag)) * rnd.random()


def phonon_round_trip(s, qi, rnd, tmp):
    from cij.io.traditional import models
    # the counts of the property's quantifier (1-12 volumes, 1-10 q-points, 3-60 modes) are a finite space: all 2400 triples are enumerated on every run (values random)
    counts = [(nv, nq, nat) for nv in range(1, 13) for nq in range(1, 11) for nat in range(1, 21)]
    if s.tier == "thorough":
        counts = counts * 3
    n = len(counts)
    fails, evals, distinct = [], 0, 0
    for t, (nv, nq, nat) in enumerate(counts):
        npm = 3 * nat
        weights = [models.QPointWeight((rand_val(rnd, 1.0), rand_val(rnd, 1.0), rand_val(rnd, 1.0)), abs(rand_val(rnd, 100.0)) + 0.001) for _ in range(nq)]
        vols = []
        for v in range(nv):
            qps = [models.QPointData(tuple(c for c in weights[q].coord), [rand_val(rnd, 1e5) for _ in range(npm)]) for q in range(nq)]
            vols.append(models.VolumeData(rand_val(rnd, 1e5), abs(rand_val(rnd, 1e5)) + 1.0, rand_val(rnd, 1e5), qps))
        data = models.QHAInputData(nv, nq, npm, rnd.randint(1, 8), nat, weights, vols)
        comment = rnd.choice(["QHA Input data", "comment with 5 words here", "title # 1 2 3", "x"])
        p = os.path.join(tmp, "in01")
        evals += 1
        distinct += 1
        try:
            qi.write_energy(p, data, comment=comment)
            back = qi.read_energy(p)
        except Exception as e:
            fails.append({"witness_id": "phonon:%d" % t, "input": {"nv": nv, "nq": nq, "np": npm, "P_V_E": [(v.pressure, v.volume, v.energy) for v in vols][:3]},
                          "observed": "raises %r" % (e,), "expected": "the written file reads back"})
            break
        msg = None
        if (back.nv, back.nq, back.np, back.nm, back.na) != (data.nv, data.nq, data.np, data.nm, data.na) or len(back.volumes) != nv or len(back.weights) != nq:
            msg = "counts differ: %r" % ((back.nv, back.nq, back.np, back.nm, back.na, len(back.volumes), len(back.weights)),)
        for v in range(nv):
            if msg:
                break
            a, b = vols[v], back.volumes[v]
            if max(abs(a.pressure - b.pressure), abs(a.volume - b.volume), abs(a.energy - b.energy)) > 5.0001e-7:
                msg = "P/V/E of volume %d: wrote %r read %r" % (v, (a.pressure, a.volume, a.energy), (b.pressure, b.volume, b.energy))
                break
            if len(b.q_points) != nq:
                msg = "volume %d has %d q-points" % (v, len(b.q_points))
                break
            for q in range(nq):
                if len(b.q_points[q].modes) != npm or max(abs(x - y) for x, y in zip(a.q_points[q].modes, b.q_points[q].modes)) > 5.0001e-7:
                    msg = "frequencies of volume %d q-point %d differ beyond the written precision" % (v, q)
                    break
                if max(abs(x - y) for x, y in zip(a.q_points[q].coord, b.q_points[q].coord)) > 5.0001e-5:
                    msg = "q-coordinates of volume %d q-point %d differ beyond the written precision" % (v, q)
                    break
        for q in range(nq):
            if msg:
                break
            if abs(weights[q].weight - back.weights[q].weight) > 5.0001e-7 or max(abs(x - y) for x, y in zip(weights[q].coord, back.weights[q].coord)) > 5.0001e-7:
                msg = "weight entry %d: wrote %r read %r" % (q, weights[q], back.weights[q])
        if msg:
            fails.append({"witness_id": "phonon:%d" % t, "input": {"nv": nv, "nq": nq, "np": npm, "comment": comment}, "observed": msg, "expected": "same data to the written precision"})
            break
    s.notes["phonon_counts_exhaustive"] = True
    s.bounded_standin("C17.phonon_write_read", "%d data sets: %s of the count space 1-12 volumes x 1-10 q-points x 3-60 modes; random values of either sign up to 1e5 incl. edge "
                      "magnitudes, seed %d" % (n, "EVERY triple", s.seed),
                      evals, distinct, fails, ["qha_input.write_energy", "qha_input.read_energy", "qha_input._read_volume_data", "qha_input._read_weights"])


PREFIXES = ["", "c", "C", "C_", "c_", "Cij", "c-", "C.", "s"]


def render_table(rnd, nv, cols, with_lattice, prefix):
    from cij.util import c_
    vref, mass = round(rnd.uniform(100, 2000), 8), round(rnd.uniform(10, 500), 4)
    # the header numbers in plain and in exponent notation (Fortran / %E writers): float(token) either way
    style = rnd.randrange(4)
    head = ("%.8f %d %.4f", "%.10E %d %.6E", "%.10e   %d\t%.6e", "%r %d %r")[style] % (vref, nv, mass)
    vref, mass = float(head.split()[0]), float(head.split()[2])
    lines = ["a title line with 3 numbers 1 2 3", head]
    spell = []
    for (I, J) in cols:
        style = rnd.random()
        if style < 0.5:
            spell.append("%s%d%d" % (prefix, I, J))
        elif style < 0.75:
            spell.append("%s%d%d" % (prefix, J, I))
        else:
            a, b = {1: (1, 1), 2: (2, 2), 3: (3, 3), 4: (2, 3), 5: (1, 3), 6: (1, 2)}[I], {1: (1, 1), 2: (2, 2), 3: (3, 3), 4: (2, 3), 5: (1, 3), 6: (1, 2)}[J]
            spell.append("%s%d%d%d%d" % ((prefix,) + a + b))
    lines.append("V " + " ".join(spell))
    vols, rows = [], []
    for i in range(nv):
        # every third row carries FULL double precision (17 significant digits, as a table dumped with repr() does): "exactly the tabulated" value is float(token)
        full = (i % 3 == 1)
        v = rnd.uniform(100, 2000) if full else round(rnd.uniform(100, 2000), 8)
        vals = [rnd.uniform(-50, 600) if (full or rnd.random() < 0.2) else round(rnd.uniform(-50, 600), rnd.choice([0, 2, 5])) for _ in cols]
        vols.append(v)
        rows.append(vals)
        lines.append((repr(v) if full else "%.8f" % v) + " " + " ".join(repr(float(x)) for x in vals))
    lat = []
    if with_lattice:
        lines.append("lattice_a lattice_b lattice_c")
        for i in range(nv):
            l = tuple((rnd.uniform(1, 30) if i % 3 == 1 else round(rnd.uniform(1, 30), 6)) for _ in range(3))
            lat.append(l)
            lines.append(" ".join(repr(x) for x in l))
    return "\n".join(lines) + "\n", vref, mass, vols, rows, lat


# ----------------------------------------------------------------------------------------------------------------------
# read_elast_data: line and field STRUCTURE on abstract tables (every layout up to 12 rows x 21 columns, with / without lattice block, three ways the file can end)
class _Field:
    """an abstract printed number of the table: ('vref',) | ('mass',) | ('row', i, j) | ('lat', i, j)"""

    def __init__(self, what):
        self.what = what


class _Value:
    """float() of a field"""

    def __init__(self, what):
        self.what = what

    def _value_dependent(self, *a):
        raise core.OutsideSubset("the reader branches on / computes with the VALUE of a tabulated number: the structure contract keeps contents abstract")
    __bool__ = __eq__ = __ne__ = __lt__ = __le__ = __gt__ = __ge__ = __add__ = __radd__ = __mul__ = __rmul__ = __neg__ = __abs__ = _value_dependent
    __hash__ = object.__hash__


class _Count(int):
    """the row count printed in the header: a concrete natural number (the loop bounds depend on it)"""


class _TLine:
    def __init__(self, kind, fields, stripped=False):
        self.kind, self.fields, self.stripped = kind, fields, stripped

    def strip(self, *a):
        if a and a[0] is not None:
            raise core.OutsideSubset("strip(%r)" % (a,))
        return _TLine(self.kind, self.fields, True)
    rstrip = lstrip = strip

    def split(self, *a, **k):
        if a or k:
            raise core.OutsideSubset("split with arguments")
        return list(self.fields)          # A-SPLIT: the printed fields are the maximal runs of non-blank characters

    def __eq__(self, o):
        if isinstance(o, str) and o == "":
            if not self.stripped:
                return False if self.kind != "eof" else True          # a raw blank line is "\n", only end of file is ""
            return self.kind in ("blank", "eof")
        if isinstance(o, str) and o.strip() == "" and not self.stripped:
            return self.kind == "blank" and o == "\n"
        raise core.OutsideSubset("a table line is compared with %r" % (o,))

    def __ne__(self, o):
        return not self.__eq__(o)
    __hash__ = object.__hash__

    def __bool__(self):
        return self.kind != "eof" and not (self.stripped and self.kind == "blank")

    def __len__(self):
        if self.kind == "eof" or (self.stripped and self.kind == "blank"):
            return 0
        raise core.OutsideSubset("len() of a table line")


class _TFile:
    def __init__(self, lines):
        self.lines, self.i = lines, 0

    def __enter__(self):
        return self

    def __exit__(self, *a):
        return False

    def __iter__(self):
        return self

    def __next__(self):
        if self.i >= len(self.lines):
            raise StopIteration
        self.i += 1
        return self.lines[self.i - 1]

    def readline(self):
        if self.i >= len(self.lines):
            return _TLine("eof", [], False)
        return next(self)

    def readlines(self):
        out, self.i = self.lines[self.i:], len(self.lines)
        return out

    def read(self, *a):
        raise core.OutsideSubset("the reader takes the file as one string")


def _tfloat(x, *a):
    if isinstance(x, _Field):
        return _Value(x.what)
    if isinstance(x, _Count):
        return float(int(x))
    if isinstance(x, _TLine):
        raise core.OutsideSubset("a whole line is converted to a number")
    return float(x, *a)


def _tint(x, *a):
    if isinstance(x, _Count):
        return int.__int__(x)
    if isinstance(x, _Field):
        raise core.OutsideSubset("int() of a field other than the row count")
    return int(x, *a)


def abstract_table(nv, labels, ending):
    lines = [_TLine("title", ["a", "title"]), _TLine("header", [_Field(("vref",)), _Count(nv), _Field(("mass",))]), _TLine("keys", ["V"] + list(labels))]
    for i in range(nv):
        lines.append(_TLine("row", [_Field(("row", i, j)) for j in range(len(labels) + 1)]))
    if ending == "lattice":
        lines.append(_TLine("latticehead", ["lattice_a", "lattice_b", "lattice_c"]))
        for i in range(nv):
            lines.append(_TLine("lat", [_Field(("lat", i, j)) for j in range(3)]))
    elif ending == "blank":
        lines.append(_TLine("blank", []))
    return lines


def table_structure(s, ed):
    """[F x abstract contents] read_elast_data on abstract tables: every number of rows 1-12, every number of component columns 1-21 (labels drawn from all prefixes and index
    spellings), and the three endings (lattice block / end of file / a trailing blank line): the reference volume, the cell mass, every row's volume, every component keyed by
    the canonical key of ITS column, and every lattice row are the fields of their own lines, in order"""
    from cij.util import c_
    from contracts.nonshear_env import patched
    rnd = random.Random(17)
    allpairs = [(i, j) for i in range(1, 7) for j in range(i, 7)]

    def ob():
        n = 0
        for nv in range(1, 13):
            for ncol in range(1, 22):
                cols = rnd.sample(allpairs, ncol)
                prefix = PREFIXES[(nv + ncol) % len(PREFIXES)]
                labels = []
                for (I, J) in cols:
                    labels.append(("%s%d%d" % (prefix, I, J)) if (I + J + nv) % 3 else ("%s%d%d" % (prefix, J, I)))
                for ending in ("lattice", "eof", "blank"):
                    lines = abstract_table(nv, labels, ending)
                    msg = None
                    try:
                        with patched(ed, open=lambda *a, **k: _TFile(lines), float=_tfloat, int=_tint):
                            d = ed.read_elast_data("abstract.dat")
                        what = lambda x: getattr(x, "what", None)
                        if what(d.vref) != ("vref",) or d.nv != nv or what(d.cellmass) != ("mass",):
                            msg = "header fields are not (reference volume, row count, cell mass) of the second line"
                        elif len(d.volumes) != nv:
                            msg = "%d rows read" % len(d.volumes)
                        else:
                            for i in range(nv):
                                want = {c_(I, J): ("row", i, k + 1) for k, (I, J) in enumerate(cols)}
                                got = {k: what(v) for k, v in dict(d.volumes[i].static_elastic_modulus).items()}
                                if what(d.volumes[i].volume) != ("row", i, 0) or got != want:
                                    msg = "row %d: the volume / components are not the fields of its own line keyed by the canonical key of their own column" % i
                                    break
                        lat = [tuple(what(x) for x in row) for row in d.lattice_parmeters]
                        if not msg and lat != ([tuple(("lat", i, j) for j in range(3)) for i in range(nv)] if ending == "lattice" else []):
                            msg = "lattice block (%s): read %r" % (ending, lat[:2])
                    except StopIteration:
                        msg = "the reader runs past the end of the file (%s)" % ending
                    except (IndexError, KeyError) as e:
                        msg = "%s: %s" % (type(e).__name__, e)
                    except (AttributeError, TypeError, ValueError) as e:
                        raise core.OutsideSubset("the code used an abstract line / field in a way the structure contract does not model (%s: %s)" % (type(e).__name__, e))
                    n += 1
                    if msg:
                        r = core.refuted("finite", "table of %d row(s) x %d component column(s), ending %s: %s" % (nv, ncol, ending, msg), witness_id="table-structure:%d:%d:%s" % (nv, ncol, ending))
                        r.replay = native_table(ed, nv, cols, ending)
                        return r
        return core.proved("finite", "%d abstract tables (1-12 rows x 1-21 component columns x 3 endings), contents abstract: every parsed number is the field of its own line and column" % n)
    s.oblige("C17.read_elast_data.structure(1-12 rows x 1-21 columns x 3 endings, abstract contents)", ob, ["elast_dat.read_elast_data", "elast_dat._find_modulus_key"], kind="finite",
             fallback=lambda: {"reproduced": False, "note": "bounded run C17.static_table_parse decides"})


# ----------------------------------------------------------------------------------------------------------------------
# the same for EVERY number of rows: Hoare loop rule applied in place, through the iterator protocol
class _SymInt:
    """the row count of the header as a symbolic natural number N >= 1"""

    def __init__(self, z):
        self.z = z

    def _no(self, *a):
        raise core.OutsideSubset("the reader computes with / branches on the row count in a way the in-place loop rule does not model")
    __bool__ = __eq__ = __ne__ = __lt__ = __le__ = __gt__ = __ge__ = __add__ = __sub__ = __mul__ = __index__ = __int__ = _no
    __hash__ = object.__hash__


class _RuleState:
    """shared by the symbolic file and the rule iterators of one run"""

    def __init__(self, N, ncol, ending):
        self.N, self.ncol, self.ending = N, ncol, ending
        self.facts = [N >= 1]
        self.loops = []          # per range(N) loop: dict(k=generic index, p0=entry position, stride=lines per iteration)
        self.problems = []

    def prove(self, goal):
        from vf import smt
        return smt.prove(goal, self.facts, timeout_ms=5000, fallback=False).status == core.PROVED


class _SymFile:
    """a table of N rows as a stream whose position is a term in N and the generic loop indices; the line at a position is decided by the region the position
    provably lies in: 0 title, 1 header, 2 labels, [3, 3+N) rows, 3+N the ending line, (3+N, 3+2N] lattice rows"""

    def __init__(self, st, labels):
        self.st, self.labels, self.pos = st, labels, z3.IntVal(0)

    def __enter__(self):
        return self

    def __exit__(self, *a):
        return False

    def __iter__(self):
        raise core.OutsideSubset("the reader iterates over the file object itself")

    def _line_at(self, idx):
        st, N = self.st, self.st.N
        idx = z3.simplify(idx)
        if z3.is_int_value(idx):
            i = idx.as_long()
            if i == 0:
                return _TLine("title", ["a", "title"])
            if i == 1:
                return _TLine("header", [_Field(("vref",)), _SymCountField(st.N), _Field(("mass",))])
            if i == 2:
                return _TLine("keys", ["V"] + list(self.labels))
        if st.prove(z3.And(idx >= 3, idx < 3 + N)):
            r = z3.simplify(idx - 3)
            return _TLine("row", [_Field(("row", r, j)) for j in range(st.ncol + 1)])
        if st.prove(idx == 3 + N):
            return _TLine({"lattice": "latticehead", "eof": "eof", "blank": "blank"}[st.ending], ["lattice_a", "lattice_b", "lattice_c"] if st.ending == "lattice" else [])
        if st.ending == "lattice" and st.prove(z3.And(idx > 3 + N, idx <= 3 + 2 * N)):
            r = z3.simplify(idx - 4 - N)
            return _TLine("lat", [_Field(("lat", r, j)) for j in range(3)])
        if st.prove(idx > (3 + 2 * N if st.ending == "lattice" else 3 + N)):
            return _TLine("eof", [])
        raise core.OutsideSubset("the position %s of the reader cannot be placed in the table's layout" % idx)

    def readline(self):
        ln = self._line_at(self.pos)
        if ln.kind != "eof":
            self.pos = z3.simplify(self.pos + 1)
        return ln

    def __next__(self):
        ln = self.readline()
        if ln.kind == "eof":
            raise StopIteration
        return ln

    def read(self, *a):
        raise core.OutsideSubset("the reader takes the file as one string")

    def readlines(self):
        raise core.OutsideSubset("the reader takes all lines at once")


class _SymCountField:
    """the printed row count: int() of it is the symbolic N"""

    def __init__(self, N):
        self.N = N


class _RuleRange:
    """range(N) under the loop rule: entry state taken as found (position p0), ONE generic iteration k in [0, N) started from the invariant position p0 + c k, the
    position after the body must be p0 + c (k + 1) for a constant c, then the exit state p0 + c N is installed.  Lists appended to in the body keep the generic
    iteration's element as the representative of every iteration (one append per iteration is checked by the caller through the list lengths)."""

    def __init__(self, st, fp):
        self.st, self.fp = st, fp

    def __iter__(self):
        st, fp = self.st, self.fp
        k = z3.Int("k%d" % len(st.loops))
        st.facts += [k >= 0, k < st.N]
        rec = {"k": k, "p0": fp.pos, "stride": None}
        st.loops.append(rec)
        rec["inject"] = lambda c: z3.simplify(rec["p0"] + c * k)
        # the stride is not known before the body ran: start from a symbolic offset and read it off afterwards
        off = z3.Int("off%d" % (len(st.loops) - 1))
        rec["off"] = off
        st.facts += [off >= 0, off == k]          # the layout has one line per row: the invariant is tried with stride 1 and the stride actually consumed is checked afterwards
        fp.pos = z3.simplify(rec["p0"] + off)
        yield k
        consumed = z3.simplify(fp.pos - rec["p0"] - off)
        if not z3.is_int_value(consumed) or consumed.as_long() < 0:
            raise core.OutsideSubset("the number of lines one iteration consumes is not a constant (%s)" % consumed)
        rec["stride"] = consumed.as_long()
        fp.pos = z3.simplify(rec["p0"] + rec["stride"] * st.N)


def table_loop_rule(s, ed):
    """[deductive, all row counts] read_elast_data under the loop rule: the row count of the header is a symbolic N >= 1; each `for _ in range(nv)` loop of the real function
    runs ONE generic iteration from the invariant state (file position = entry position + stride * k) and leaves the exit state; z3 places every position in the layout.
    The offset symbol `off` stands for stride * k (the stride is read off after the body), so the generic line is `row off` with 0 <= off: the facts off = stride * k are
    added once the stride is known and the line indices are re-read under them."""
    import ast, inspect, textwrap
    from cij.util import c_
    from contracts.nonshear_env import patched
    allpairs = [(i, j) for i in range(1, 7) for j in range(i, 7)]
    rnd = random.Random(23)

    def shape_ok():
        """syntactic side conditions of the in-place rule: plain `for <name> in range(...)` loops without break / continue / return / else, whose body-bound names are not
        read after the loop before being bound again"""
        src = textwrap.dedent(inspect.getsource(ed.read_elast_data))
        fn = ast.parse(src).body[0]
        loops = [n for n in ast.walk(fn) if isinstance(n, (ast.For, ast.While))]
        for lp in loops:
            if isinstance(lp, ast.While) or lp.orelse or not (isinstance(lp.iter, ast.Call) and isinstance(lp.iter.func, ast.Name) and lp.iter.func.id == "range"):
                return "loop at line %d is not a plain `for ... in range(...)`" % lp.lineno
            for n in ast.walk(lp):
                if isinstance(n, (ast.Break, ast.Continue, ast.Return)):
                    return "loop at line %d contains %s" % (lp.lineno, type(n).__name__.lower())
            bound = {n.id for b in lp.body for n in ast.walk(b) if isinstance(n, ast.Name) and isinstance(n.ctx, ast.Store)}
            end = max(getattr(n, "end_lineno", lp.lineno) for n in ast.walk(lp) if hasattr(n, "lineno"))
            later = sorted((n.lineno, n.col_offset, isinstance(n.ctx, ast.Store), n.id) for n in ast.walk(fn) if isinstance(n, ast.Name) and n.lineno > end and n.id in bound)
            seen = set()
            for ln, _, store, name in later:
                if name in seen:
                    continue
                seen.add(name)
                # an assignment `x = f(x)` lists the target first (smaller column), which is right only when the right-hand side does not read x: check that line
                same_line_read = any((not st_) and nm == name and l2 == ln for l2, _, st_, nm in later)
                if not store or same_line_read:
                    return "name %r bound in the loop at line %d is read after it (line %d) before being bound again" % (name, lp.lineno, ln)
        return None

    def ob():
        why = shape_ok()
        if why:
            raise core.OutsideSubset("in-place loop rule not applicable: " + why)
        n = 0
        for ncol in range(1, 22):
            cols = rnd.sample(allpairs, ncol)
            labels = [("%s%d%d" % (PREFIXES[(ncol + k) % len(PREFIXES)], I, J)) for k, (I, J) in enumerate(cols)]
            for ending in ("lattice", "eof", "blank"):
                N = z3.Int("N")
                st = _RuleState(N, ncol, ending)
                fp = _SymFile(st, labels)

                def sym_int(x, *a):
                    if isinstance(x, _SymCountField):
                        return _SymInt(x.N)
                    return _tint(x, *a)

                def sym_float(x, *a):
                    if isinstance(x, _SymCountField):
                        raise core.OutsideSubset("float() of the row count")
                    return _tfloat(x, *a)

                def sym_range(*a):
                    if len(a) == 1 and isinstance(a[0], _SymInt):
                        return _RuleRange(st, fp)
                    if any(isinstance(x, _SymInt) for x in a):
                        raise core.OutsideSubset("range() with the row count in another position")
                    return range(*a)
                msg = None
                try:
                    with patched(ed, open=lambda *a, **k: fp, float=sym_float, int=sym_int, range=sym_range):
                        d = ed.read_elast_data("abstract.dat")
                except StopIteration:
                    msg = "the reader runs past the end of the file"
                except (IndexError, KeyError) as e:
                    msg = "%s: %s" % (type(e).__name__, e)
                except (AttributeError, TypeError, ValueError, z3.Z3Exception) as e:
                    raise core.OutsideSubset("the code used an abstract line / field / count in a way the rule does not model (%s: %s)" % (type(e).__name__, e))
                what = lambda x: getattr(x, "what", None)
                if not msg:
                    def is_idx(term, rec):
                        # the generic line index is `off`, which stands for stride * k
                        return rec["stride"] == 1 and z3.is_true(z3.simplify(z3.substitute(term, (rec["off"], rec["k"])) == rec["k"]))
                    want_loops = 2 if ending == "lattice" else 1
                    if what(d.vref) != ("vref",) or not (isinstance(d.nv, _SymInt) and d.nv.z is N) or what(d.cellmass) != ("mass",):
                        msg = "header fields are not (reference volume, row count, cell mass) of the second line"
                    elif len(st.loops) != want_loops:
                        msg = "%d loop(s) over the row count executed, %d expected for a table ending with %s" % (len(st.loops), want_loops, ending)
                    elif len(d.volumes) != 1:
                        msg = "one iteration of the row loop appends %d entries to the volumes" % len(d.volumes)
                    else:
                        rec = st.loops[0]
                        if not z3.is_true(z3.simplify(rec["p0"] == 3)) or rec["stride"] != 1:
                            msg = "the row loop starts at line %s and consumes %s line(s) per iteration (rows start at line 3, one per iteration)" % (rec["p0"], rec["stride"])
                        else:
                            v = d.volumes[0]
                            got = {k_: what(x) for k_, x in dict(v.static_elastic_modulus).items()}
                            wv = what(v.volume)
                            ok = wv is not None and wv[0] == "row" and wv[2] == 0 and is_idx(wv[1], rec) and set(got) == {c_(I, J) for (I, J) in cols} and all(
                                got[c_(I, J)] is not None and got[c_(I, J)][0] == "row" and got[c_(I, J)][2] == j + 1 and is_idx(got[c_(I, J)][1], rec) for j, (I, J) in enumerate(cols))
                            if not ok:
                                msg = "iteration k of the row loop does not store the fields of row k (volume, then each component under the canonical key of its own column)"
                    if not msg:
                        if ending != "lattice":
                            if len(d.lattice_parmeters) != 0:
                                msg = "lattice rows read from a table that ends with %s" % ending
                        else:
                            rec = st.loops[1]
                            if len(d.lattice_parmeters) != 1:
                                msg = "one iteration of the lattice loop appends %d entries" % len(d.lattice_parmeters)
                            elif not st.prove(rec["p0"] == 4 + N) or rec["stride"] != 1:
                                msg = "the lattice loop starts at line %s with stride %s (lattice rows start at line 4 + N)" % (rec["p0"], rec["stride"])
                            else:
                                row = [what(x) for x in d.lattice_parmeters[0]]
                                if len(row) != 3 or any(w is None or w[0] != "lat" or w[2] != j or not is_idx(w[1], rec) for j, w in enumerate(row)):
                                    msg = "iteration k of the lattice loop does not store the three fields of lattice row k"
                n += 1
                if msg:
                    r = core.refuted("looprule", "table of N rows x %d component column(s), ending %s: %s" % (ncol, ending, msg), witness_id="table-looprule:%d:%s" % (ncol, ending))
                    # a concrete instance for the replay: N = 12 (and N = 1)
                    rep = native_table(ed, 12, cols, ending)
                    r.replay = rep if rep.get("reproduced") else native_table(ed, 1, cols, ending)
                    return r
        return core.proved("looprule", "%d symbolic runs (1-21 component columns x 3 endings), every row count N >= 1: the row loop starts at line 3 and iteration k stores the fields of "
                                        "row k; the lattice loop starts at line 4 + N and iteration k stores lattice row k; header fields from line 1" % n,
                           sample="Inv_rows(k): position = 3 + k, volumes = [Row(0..k-1)];  Inv_lattice(k): position = 4 + N + k, lattice = [Lat(0..k-1)]")
    s.oblige("C17.read_elast_data.structure(loop rule, all row counts)", ob, ["elast_dat.read_elast_data"], kind="deductive",
             fallback=lambda: {"reproduced": False, "note": "C17.read_elast_data.structure(1-12 rows ...) and the bounded run C17.static_table_parse decide"})


def native_table(ed, nv, cols, ending):
    from cij.util import c_
    rnd = random.Random(nv * 100 + len(cols))
    text, vref, mass, vols, rows, lat = render_table(rnd, nv, cols, ending == "lattice", "c")
    if ending == "blank":
        text += "\n"
    tmp = tempfile.mkdtemp(prefix="c17s_")
    try:
        p = os.path.join(tmp, "elast.dat")
        with open(p, "w", encoding="utf8") as fp:
            fp.write(text)
        try:
            d = ed.read_elast_data(p)
            ok = d.vref == vref and d.nv == nv and d.cellmass == mass and len(d.volumes) == nv and [tuple(x) for x in d.lattice_parmeters] == lat and all(
                d.volumes[i].volume == vols[i] and dict(d.volumes[i].static_elastic_modulus) == {c_(I, J): rows[i][k] for k, (I, J) in enumerate(cols)} for i in range(nv))
            return {"reproduced": not ok, "input": {"rows": nv, "columns": len(cols), "ending": ending, "text": text[:300]}, "observed": "parse %s the tabulated data" % ("equals" if ok else "differs from")}
        except Exception as e:  # noqa: BLE001
            return {"reproduced": True, "input": {"rows": nv, "columns": len(cols), "ending": ending, "text": text[:300]}, "observed": "raises %r" % (e,)}
    finally:
        shutil.rmtree(tmp, ignore_errors=True)


def consumed_weights(d):
    """the q-point weights every consumer inside the package derives from a read phonon input (classes of the phonon-contribution layer that define `q_weights`)"""
    import types as _types
    out = {}
    ns = importlib.import_module("cij.core.phonon_contribution.nonshear")
    for name, cls in vars(ns).items():
        if isinstance(cls, type) and "q_weights" in vars(cls):
            obj = cls.__new__(cls)
            obj.calculator = _types.SimpleNamespace(qha_input=d)
            out["nonshear.%s.q_weights" % name] = list(numpy.asarray(obj.q_weights, dtype=float).ravel())
    return out


def reader_hands_over_as_written():
    """[F] read_energy on hand-written phonon files (not produced by the package's writer): modes listed in branch order (NOT ascending, crossing between volumes), numbers in
    fixed and in exponent notation (weights of a dense mesh, energies relative to the minimum), an optional index after nothing -- every number is float(token) at its own place"""
    qi = importlib.import_module("cij.io.traditional.qha_input")
    rnd = random.Random(5)
    tmp = tempfile.mkdtemp(prefix="c17h_")
    try:
        n = 0
        for style in range(4):
            nv, nq, npm = 3, 3, 6
            fmt_w = ("%.6f", "%.6e", "%r", "%.10E")[style]
            fmt_e = ("%.8f", "%.8E", "%r", "%.6e")[style]
            V = [600.0 - 35.0 * v for v in range(nv)]
            E = [(-0.05 + 0.013 * v * v) if style else (-150.0 + 0.5 * v) for v in range(nv)]
            W = [1.0 / 32768, 3.0 / 32768, 0.25] if style else [2.0, 1.0, 0.5]
            modes = [[[round(100.0 + 37.0 * ((7 * m + 3 * q + 5 * v * (m % 3)) % 11) + 0.01 * (m + 10 * q + 100 * v), 6) for m in range(npm)] for q in range(nq)] for v in range(nv)]
            for v in range(nv):
                modes[v][0][:3] = [0.0, 0.0, 0.0]
            coords = [(0.0, 0.0, 0.0), (0.25, -0.5, 0.125), (-0.375, 0.0, 0.5)]
            cfmt = "%10.4f"
            if style >= 2:
                # a fine / shifted mesh: two distinct q-points whose coordinates agree to four decimals, with different weights, coordinates printed with six decimals
                nq, cfmt = 4, "%10.6f"
                coords = [(0.0, 0.0, 0.0), (0.25, -0.5, 0.12502), (-0.375, 0.0, 0.5), (0.25, -0.5, 0.12498)]
                W = W + [W[1] * 3.0]
                modes = [[[round(100.0 + 37.0 * ((7 * m + 3 * q + 5 * v * (m % 3)) % 11) + 0.01 * (m + 10 * q + 100 * v), 6) for m in range(npm)] for q in range(nq)] for v in range(nv)]
                for v in range(nv):
                    modes[v][0][:3] = [0.0, 0.0, 0.0]
            lines = ["hand-written", "", "  nv   nq   np   nm   na", "%4d %4d %4d %4d %4d" % (nv, nq, npm, 1, 2), ""]
            etok, wtok = [], []
            for v in range(nv):
                etok.append(fmt_e % E[v])
                lines.append("P= %12.6f V= %12.6f E= %s" % (0.0, V[v], etok[-1]))
                for q in range(nq):
                    lines.append(" ".join(cfmt % c for c in coords[q]))
                    lines += ["%12.6f" % x for x in modes[v][q]]
            lines += ["", "weight"]
            for q in range(nq):
                wtok.append(fmt_w % W[q])
                lines.append(" ".join("%10.6f" % c for c in coords[q]) + " " + wtok[-1])
            p = os.path.join(tmp, "in%d" % style)
            with open(p, "w") as fp:
                fp.write("\n".join(lines) + "\n")
            try:
                d = qi.read_energy(p)
            except Exception as e:  # noqa: BLE001
                return core.refuted("finite", "hand-written phonon file (weights as %s, energies as %s) is not read: %r" % (wtok[0], etok[0], e), witness_id="handwritten-raise:%d" % style,
                                    replay={"reproduced": True, "file": "\n".join(lines)[:600]})
            n += 1
            got_w = [float(w) for _, w in d.weights]
            if got_w != [float(t) for t in wtok]:
                return core.refuted("finite", "weights written %s are read as %s" % (wtok, got_w), witness_id="handwritten-weights:%d" % style, replay={"reproduced": True, "weights": wtok})
            written = [tuple(float(cfmt % c) for c in coords[q]) for q in range(nq)]
            got_c = [tuple(float(x) for x in c) for c, _ in d.weights]
            if got_c != [tuple(float("%10.6f" % c) for c in coords[q]) for q in range(nq)] or any(
                    [tuple(float(x) for x in qp.coord) for qp in vol.q_points] != written for vol in d.volumes):
                return core.refuted("finite", "q-point coordinates written %s are read as %s (weight block) / %s (first volume block)" % (
                    written, got_c, [tuple(float(x) for x in qp.coord) for qp in d.volumes[0].q_points]), witness_id="handwritten-coords:%d" % style,
                    replay={"reproduced": True, "file": "\n".join(lines)[:900]})
            # ... and the phonon-contribution layer and the QHA adapter weigh the q-points as listed, by position (two q-points that agree to four decimals stay two q-points)
            consumed = consumed_weights(d)
            for who, ws in consumed.items():
                if [float(x) for x in ws] != [float(t) for t in wtok]:
                    return core.refuted("finite", "%s weighs the q-points of a hand-written file with %s, listed %s (coordinates %s)" % (who, [float(x) for x in ws], wtok, written),
                                        witness_id="handwritten-consumed-weights:%d" % style, replay={"reproduced": True, "file": "\n".join(lines)[:900], "consumer": who})
            for v in range(nv):
                vol = d.volumes[v]
                if float(vol.energy) != float(etok[v]) or float(vol.volume) != V[v]:
                    return core.refuted("finite", "volume block %d: E written %s read %r, V %r read %r" % (v, etok[v], vol.energy, V[v], vol.volume), witness_id="handwritten-pve:%d" % style,
                                        replay={"reproduced": True})
                for q in range(nq):
                    if [float(x) for x in vol.q_points[q].modes] != modes[v][q]:
                        return core.refuted("finite", "volume block %d, q-point %d: the modes are not returned in the order they are listed (%s read as %s)" % (
                            v, q, modes[v][q], [float(x) for x in vol.q_points[q].modes]), witness_id="handwritten-modes", replay={"reproduced": True, "listed": modes[v][q]})
    finally:
        shutil.rmtree(tmp, ignore_errors=True)
    return core.proved("finite", "%d hand-written files (fixed / exponent / repr notation): weights, energies, volumes, q-point coordinates (also two that agree to four decimals) are float(token); modes in the listed (branch) order; the phonon-contribution layer weighs by position" % n)


def static_tables(s, ed, rnd, tmp):
    from cij.util import c_
    n = 60 if s.tier == "quick" else 2000
    fails, evals, distinct = [], 0, 0
    allpairs = [(i, j) for i in range(1, 7) for j in range(i, 7)]
    for t in range(n):
        nv = rnd.randint(1, 12)
        cols = rnd.sample(allpairs, rnd.randint(1, 21))
        prefix = PREFIXES[t % len(PREFIXES)]
        with_lat = rnd.random() < 0.5
        text, vref, mass, vols, rows, lat = render_table(rnd, nv, cols, with_lat, prefix)
        p = os.path.join(tmp, "elast.dat")
        with open(p, "w", encoding="utf8") as fp:
            fp.write(text)
        evals += 1
        distinct += 1
        try:
            d = ed.read_elast_data(p)
        except Exception as e:
            fails.append({"witness_id": "static:%d" % t, "input": {"text": text[:400]}, "observed": "raises %r" % (e,), "expected": "parsed table"})
            break
        msg = None
        if d.vref != vref or d.nv != nv or d.cellmass != mass or len(d.volumes) != nv:
            msg = "header: vref=%r nv=%r cellmass=%r" % (d.vref, d.nv, d.cellmass)
        for i in range(nv):
            if msg:
                break
            want = {c_(I, J): rows[i][k] for k, (I, J) in enumerate(cols)}
            got = dict(d.volumes[i].static_elastic_modulus)
            if d.volumes[i].volume != vols[i] or got != want:
                badkeys = [k for k in got if not hasattr(k, "voigt")]
                msg = "row %d: %s" % (i, ("non-canonical keys %r (prefix %r)" % (badkeys[:3], prefix)) if badkeys else "values differ")
        if not msg and [tuple(x) for x in d.lattice_parmeters] != lat:
            msg = "lattice block: read %r" % (d.lattice_parmeters[:2],)
        if not msg and t % 3 == 0:
            # history: the object a read returned is edited in place by its owner (the symmetry filling of Calculator does exactly that), then the SAME unchanged
            # file is read again -- through another spelling of its path as well: the second read must again be the tabulated data
            try:
                for i in range(nv):
                    d.volumes[i] = type(d.volumes[i])(d.volumes[i].volume + 1.0, {k: v + 7.0 for k, v in d.volumes[i].static_elastic_modulus.items()})
                d.lattice_parmeters.append((0.0, 0.0, 0.0))
            except Exception:
                pass
            for spelled in (p, os.path.join(os.path.dirname(p), ".", os.path.basename(p))):
                evals += 1
                d2 = ed.read_elast_data(spelled)
                ok = len(d2.volumes) == nv and [tuple(x) for x in d2.lattice_parmeters] == lat and all(
                    d2.volumes[i].volume == vols[i] and dict(d2.volumes[i].static_elastic_modulus) == {c_(I, J): rows[i][k] for k, (I, J) in enumerate(cols)} for i in range(nv))
                if not ok:
                    msg = "second read of the unchanged file (after the first result was edited in place by its owner) is not the tabulated data"
                    break
        if msg:
            fails.append({"witness_id": "static:%d:%s" % (t, prefix), "input": {"prefix": prefix, "nv": nv, "columns": cols[:6], "lattice": with_lat, "text": text[:300]},
                          "observed": msg, "expected": "vref, N, cell mass, volumes, components keyed by canonical key, lattice parameters exactly as tabulated"})
            break
    s.bounded_standin("C17.static_table_parse", "%d rendered tables (1-12 rows, random component subsets/orders/index spellings, prefixes %s, with and without lattice block), seed %d"
                      % (n, PREFIXES, s.seed), evals, distinct, fails, ["elast_dat.read_elast_data", "elast_dat._find_modulus_key"])


def fill_command(s, ed, rnd, tmp):
    import sympy as sp
    from click.testing import CliRunner
    from specs import laue
    import cij.cli.fill as cli
    systems = ["triclinic", "monoclinic", "orthorhombic", "tetragonal7", "tetragonal6", "trigonal7", "trigonal6", "hexagonal", "cubic"]
    reps = 1 if s.tier == "quick" else 12
    names = ["c%d%d" % (i, j) for i in range(1, 7) for j in range(i, 7)]
    fails, evals, distinct = [], 0, 0
    nrnd = numpy.random.RandomState(s.seed)
    for system in systems:
        if fails:
            break
        basis = numpy.array([[float(sp.N(x)) for x in v] for v in laue.invariant_basis(system)])
        for r in range(reps):
            nv = int(nrnd.randint(1, 7))
            tens = numpy.round(nrnd.uniform(20, 400, size=(nv, len(basis))), 1) @ basis
            chosen = []
            for k in nrnd.permutation(21):
                if numpy.linalg.matrix_rank(basis[:, chosen + [int(k)]], tol=1e-9) > len(chosen):
                    chosen.append(int(k))
                if len(chosen) == len(basis):
                    break
            cols = chosen
            # table shapes in turn: a sufficient subset; every one of the 21 components listed (zeros written out) with symmetry-related entries that disagree in the
            # second decimal (the fill reconciles them and omits what vanishes); a sufficient subset plus redundant columns
            shape = (systems.index(system) + r) % 3
            whole = False
            if shape == 0 and system != "triclinic":
                # a table of WHOLE numbers printed without decimal point (kbar tables): pandas types such columns int64 in the command's own parse
                den = 1
                for v_ in laue.invariant_basis(system):
                    for x_ in v_:
                        den = int(sp.ilcm(den, sp.Rational(x_).q))
                tens = numpy.rint((den * nrnd.randint(5, 1500, size=(nv, len(basis))).astype(float)) @ basis)
                whole = True
            if shape == 1:
                cols = [int(k) for k in nrnd.permutation(21)]
            elif shape == 2:
                cols = chosen + [int(k) for k in nrnd.permutation(21) if int(k) not in chosen][:3]
            if shape in (1, 2) and len(cols) > len(chosen):
                extra = [k for k in cols if k not in chosen and numpy.any(numpy.abs(tens[:, k]) > 1e-6)]
                if extra:
                    tens = tens.copy()
                    tens[:, extra[0]] += 0.02
            header = ["title of the table", "%.4f %d %.3f" % (500.0, nv, 123.456)]
            lines = ["V " + " ".join(names[k].upper() if nrnd.rand() < 0.3 else names[k] for k in cols)]
            vols = numpy.linspace(600, 400, nv)
            for i in range(nv):
                lines.append("%.5f " % vols[i] + " ".join(("%d" % tens[i, k]) if whole else ("%.6f" % tens[i, k]) for k in cols))
            rest = ["lattice_a lattice_b lattice_c"] + ["%.4f %.4f %.4f" % (8 - 0.1 * i, 9 - 0.2 * i, 10 - 0.15 * i) for i in range(nv)] if nrnd.rand() < 0.7 else []
            text = "\n".join(header + lines + rest) + "\n"
            p = os.path.join(tmp, "fill_in.dat")
            with open(p, "w") as fp:
                fp.write(text)
            evals += 1
            distinct += 1
            res = CliRunner().invoke(cli.main, ["-s", system, p])
            if res.exit_code != 0:
                fails.append({"witness_id": "fillcmd:%s:%d" % (system, r), "input": {"system": system, "text": text[:400]}, "observed": "exit %s %r" % (res.exit_code, res.exception),
                              "expected": "a filled table"})
                break
            out = res.output
            q = os.path.join(tmp, "fill_out.dat")
            with open(q, "w") as fp:
                fp.write(out)
            msg = None
            try:
                got = ed.read_elast_data(q)
                want = ed.read_elast_data(p)
                ed.apply_symetry_on_elast_data(want, {"system": system})
            except Exception as e:
                msg = "output of the fill command does not parse / cannot be compared: %r" % (e,)
            if not msg:
                if out.split("\n")[:2] != text.split("\n")[:2]:
                    msg = "header lines not preserved"
                elif (got.vref, got.nv, got.cellmass) != (want.vref, want.nv, want.cellmass) or [v.volume for v in got.volumes] != [v.volume for v in want.volumes]:
                    msg = "reference volume / count / cell mass / volumes differ"
                elif [tuple(x) for x in got.lattice_parmeters] != [tuple(x) for x in want.lattice_parmeters]:
                    msg = "lattice block not preserved"
                else:
                    for a, b in zip(got.volumes, want.volumes):
                        ka, kb = dict(a.static_elastic_modulus), dict(b.static_elastic_modulus)
                        if set(ka) != set(kb) or any(abs(ka[k] - kb[k]) > 1e-5 * max(1.0, abs(kb[k])) for k in kb):
                            msg = "filled table printed by the command differs from the symmetry-filled parse of its input (keys %s vs %s)" % (len(ka), len(kb))
                            break
            if msg:
                fails.append({"witness_id": "fillcmd:%s:%d" % (system, r), "input": {"system": system, "text": text[:400]}, "observed": msg,
                              "expected": "parse(output) == fill(parse(input)); header, volumes, lattice block preserved"})
                break
    s.bounded_standin("C17.fill_command_round_trip", "%d table(s) per crystal system through the real click command (1-6 rows; sufficient subsets, all 21 components listed, subsets with redundant "
                      "columns whose symmetry-related entries disagree in the second decimal; mixed letter case, with/without lattice block), seed %d" % (reps, s.seed), evals, distinct, fails, ["cli/fill.main"])


MANIFEST = {
    "engine": "regauto", "category": "other",
    "technique": "contract-based deductive verification of the readers' regular expressions (tagged-automata inclusion over all strings of the "
                 "writer's line languages) and of _find_modulus_key (AST path execution against contracts); bounded run-time contracts for the rest",
    "text": "Proved for all strings: (1) _find_modulus_key returns c_(group 1) of its search when it matches and the header unchanged otherwise "
            "(both paths, from the AST); its pattern matches exactly the headers <prefix without digits><digits>, captures the digits, and matches "
            "nothing else; (2) for every line write_energy can emit from its f-string / %-format templates (any finite values, any natural "
            "counts) the reader's REGEX_INFO_START and REGEX_PVE match at position 0 and capture exactly the written field tokens, and "
            "str.split() yields exactly the written coordinates / weights. The (pattern, line) pairs are the ones the real reader performs "
            "on a file the real writer produced (recorded run). (3) The line and field STRUCTURE of read_elast_data is decided on abstract tables for every layout of 1-12 rows x "
            "1-21 component columns x three endings (lattice block, end of file, trailing blank line): the real reader runs on a stream of abstract lines whose split() yields "
            "abstract fields; reference volume, cell mass, each row's volume, each component under the canonical key of its own column and each lattice row are the fields of "
            "their own lines (contents abstract, so independent of values; row count bounded by 12). (4) For EVERY row count N >= 1 (loop rule applied in place): the header's count is a symbolic N, "
            "each `for _ in range(nv)` loop of the real read_elast_data runs one generic iteration k from the invariant file position (3 + k for the rows, 4 + N + k for the lattice block; "
            "z3 places each position in the layout) and leaves the exit position; iteration k stores the fields of row k / lattice row k, for 1-21 columns and the three endings. Bounded: write_energy/read_energy round trip for random data sets (counts, P, V, E, "
            "frequencies, q-coordinates, weights to the written precision), read_elast_data on rendered tables, and `cij fill` on nine systems.",
    "note": "A-RE (backtracking priority semantics, cross-checked against CPython every run), A-PRINTF, A-SPLIT; line structure / counts and "
            "float formatting bounded: 40/60/9 (quick) and 1500/2000/108 (thorough) cases, never counted as discharged; rendered tables carry full 17-digit numbers in every "
            "third row (exactness means float(token)).",
}
