"""C17 -- input files round-trip: phonon data write/read, static table parse, fill output.

write_energy / read_energy, read_elast_data and cli/fill.main are %-formatting, regexes, float() and pandas
to_string: neither engine reasons about decimal formatting and the string theories of z3/cvc5 do not decide
"%12.6f" % x composed with float().  The contracts are therefore checked at run time only (bounded stand-in).
"""
import importlib, io, os, random, shutil, tempfile
import numpy
from vf import core

LEVEL = "exploration"
EXPLANATION = ("bounded stand-in: run-time contracts (round-trip postconditions stated from the property) on the real reader/writer functions and "
               "the real fill command, driven by seeded random data sets; nothing is proved")


def run(s):
    qi = importlib.import_module("cij.io.traditional.qha_input")
    ed = importlib.import_module("cij.io.traditional.elast_dat")
    s.assume("A-PANDAS, A-CLICK", "decimal formatting / float parsing of CPython")
    s.undecided_part("everything: decimal formatting, regexes and pandas printing are outside both deductive engines; bounded run-time contracts only")
    rnd = random.Random(s.seed)
    tmp = tempfile.mkdtemp(prefix="c17_")
    try:
        phonon_round_trip(s, qi, rnd, tmp)
        static_tables(s, ed, rnd, tmp)
        fill_command(s, ed, rnd, tmp)
    finally:
        shutil.rmtree(tmp, ignore_errors=True)
    s.min_obligations = 0


def rand_val(rnd, mag):
    """values of either sign with magnitudes spread over the decades up to `mag` (edge magnitudes included)"""
    c = rnd.random()
    if c < 0.15:
        return rnd.choice([-1, 1]) * mag * rnd.choice([1.0, 0.999999, 0.1, 0.100001])
    if c < 0.25:
        return rnd.choice([0.0, -0.0, 1e-6, -1e-6, 5e-7])
    return rnd.choice([-1, 1]) * 10 ** rnd.uniform(-3, numpy.log10(mag)) * rnd.random()


def phonon_round_trip(s, qi, rnd, tmp):
    from cij.io.traditional import models
    n = 40 if s.tier == "quick" else 1500
    fails, evals, distinct = [], 0, 0
    for t in range(n):
        nv, nq, nat = rnd.randint(1, 12), rnd.randint(1, 10), rnd.randint(1, 20)
        npm = 3 * nat
        weights = [models.QPointWeight((rand_val(rnd, 1.0), rand_val(rnd, 1.0), rand_val(rnd, 1.0)), abs(rand_val(rnd, 100.0)) + 0.001) for _ in range(nq)]
        vols = []
        for v in range(nv):
            qps = [models.QPointData(tuple(c for c in weights[q].coord), [rand_val(rnd, 1e5) for _ in range(npm)]) for q in range(nq)]
            vols.append(models.VolumeData(rand_val(rnd, 1e5), abs(rand_val(rnd, 1e5)) + 1.0, rand_val(rnd, 1e5), qps))
        data = models.QHAInputData(nv, nq, npm, rnd.randint(1, 8), nat, weights, vols)
        comment = rnd.choice(["QHA Input data", "comment with 5 words here", "title # 1 2 3", "x"])
        p = os.path.join(tmp, "in01")
        evals += 1
        distinct += 1
        try:
            qi.write_energy(p, data, comment=comment)
            back = qi.read_energy(p)
        except Exception as e:
            fails.append({"witness_id": "phonon:%d" % t, "input": {"nv": nv, "nq": nq, "np": npm, "P_V_E": [(v.pressure, v.volume, v.energy) for v in vols][:3]},
                          "observed": "raises %r" % (e,), "expected": "the written file reads back"})
            break
        msg = None
        if (back.nv, back.nq, back.np, back.nm, back.na) != (data.nv, data.nq, data.np, data.nm, data.na) or len(back.volumes) != nv or len(back.weights) != nq:
            msg = "counts differ: %r" % ((back.nv, back.nq, back.np, back.nm, back.na, len(back.volumes), len(back.weights)),)
        for v in range(nv):
            if msg:
                break
            a, b = vols[v], back.volumes[v]
            if max(abs(a.pressure - b.pressure), abs(a.volume - b.volume), abs(a.energy - b.energy)) > 5.0001e-7:
                msg = "P/V/E of volume %d: wrote %r read %r" % (v, (a.pressure, a.volume, a.energy), (b.pressure, b.volume, b.energy))
                break
            if len(b.q_points) != nq:
                msg = "volume %d has %d q-points" % (v, len(b.q_points))
                break
            for q in range(nq):
                if len(b.q_points[q].modes) != npm or max(abs(x - y) for x, y in zip(a.q_points[q].modes, b.q_points[q].modes)) > 5.0001e-7:
                    msg = "frequencies of volume %d q-point %d differ beyond the written precision" % (v, q)
                    break
                if max(abs(x - y) for x, y in zip(a.q_points[q].coord, b.q_points[q].coord)) > 5.0001e-5:
                    msg = "q-coordinates of volume %d q-point %d differ beyond the written precision" % (v, q)
                    break
        for q in range(nq):
            if msg:
                break
            if abs(weights[q].weight - back.weights[q].weight) > 5.0001e-7 or max(abs(x - y) for x, y in zip(weights[q].coord, back.weights[q].coord)) > 5.0001e-7:
                msg = "weight entry %d: wrote %r read %r" % (q, weights[q], back.weights[q])
        if msg:
            fails.append({"witness_id": "phonon:%d" % t, "input": {"nv": nv, "nq": nq, "np": npm, "comment": comment}, "observed": msg, "expected": "same data to the written precision"})
            break
    s.bounded_standin("C17.phonon_write_read", "%d random data sets (1-12 volumes, 1-10 q-points, 3-60 modes, values of either sign up to 1e5 incl. edge magnitudes), seed %d" % (n, s.seed),
                      evals, distinct, fails, ["qha_input.write_energy", "qha_input.read_energy", "qha_input._read_volume_data", "qha_input._read_weights"])


PREFIXES = ["", "c", "C", "C_", "c_", "Cij", "c-", "C.", "s"]


def render_table(rnd, nv, cols, with_lattice, prefix):
    from cij.util import c_
    vref, mass = round(rnd.uniform(100, 2000), 8), round(rnd.uniform(10, 500), 4)
    lines = ["a title line with 3 numbers 1 2 3", "%.8f %d %.4f" % (vref, nv, mass)]
    spell = []
    for (I, J) in cols:
        style = rnd.random()
        if style < 0.5:
            spell.append("%s%d%d" % (prefix, I, J))
        elif style < 0.75:
            spell.append("%s%d%d" % (prefix, J, I))
        else:
            a, b = {1: (1, 1), 2: (2, 2), 3: (3, 3), 4: (2, 3), 5: (1, 3), 6: (1, 2)}[I], {1: (1, 1), 2: (2, 2), 3: (3, 3), 4: (2, 3), 5: (1, 3), 6: (1, 2)}[J]
            spell.append("%s%d%d%d%d" % ((prefix,) + a + b))
    lines.append("V " + " ".join(spell))
    vols, rows = [], []
    for i in range(nv):
        v = round(rnd.uniform(100, 2000), 8)
        vals = [round(rnd.uniform(-50, 600), rnd.choice([0, 2, 5])) for _ in cols]
        vols.append(v)
        rows.append(vals)
        lines.append("%.8f " % v + " ".join(repr(float(x)) for x in vals))
    lat = []
    if with_lattice:
        lines.append("lattice_a lattice_b lattice_c")
        for i in range(nv):
            l = tuple(round(rnd.uniform(1, 30), 6) for _ in range(3))
            lat.append(l)
            lines.append(" ".join(repr(x) for x in l))
    return "\n".join(lines) + "\n", vref, mass, vols, rows, lat


def static_tables(s, ed, rnd, tmp):
    from cij.util import c_
    n = 60 if s.tier == "quick" else 2000
    fails, evals, distinct = [], 0, 0
    allpairs = [(i, j) for i in range(1, 7) for j in range(i, 7)]
    for t in range(n):
        nv = rnd.randint(1, 12)
        cols = rnd.sample(allpairs, rnd.randint(1, 21))
        prefix = PREFIXES[t % len(PREFIXES)]
        with_lat = rnd.random() < 0.5
        text, vref, mass, vols, rows, lat = render_table(rnd, nv, cols, with_lat, prefix)
        p = os.path.join(tmp, "elast.dat")
        with open(p, "w", encoding="utf8") as fp:
            fp.write(text)
        evals += 1
        distinct += 1
        try:
            d = ed.read_elast_data(p)
        except Exception as e:
            fails.append({"witness_id": "static:%d" % t, "input": {"text": text[:400]}, "observed": "raises %r" % (e,), "expected": "parsed table"})
            break
        msg = None
        if d.vref != vref or d.nv != nv or d.cellmass != mass or len(d.volumes) != nv:
            msg = "header: vref=%r nv=%r cellmass=%r" % (d.vref, d.nv, d.cellmass)
        for i in range(nv):
            if msg:
                break
            want = {c_(I, J): rows[i][k] for k, (I, J) in enumerate(cols)}
            got = dict(d.volumes[i].static_elastic_modulus)
            if d.volumes[i].volume != vols[i] or got != want:
                badkeys = [k for k in got if not hasattr(k, "voigt")]
                msg = "row %d: %s" % (i, ("non-canonical keys %r (prefix %r)" % (badkeys[:3], prefix)) if badkeys else "values differ")
        if not msg and [tuple(x) for x in d.lattice_parmeters] != lat:
            msg = "lattice block: read %r" % (d.lattice_parmeters[:2],)
        if msg:
            fails.append({"witness_id": "static:%d:%s" % (t, prefix), "input": {"prefix": prefix, "nv": nv, "columns": cols[:6], "lattice": with_lat, "text": text[:300]},
                          "observed": msg, "expected": "vref, N, cell mass, volumes, components keyed by canonical key, lattice parameters exactly as tabulated"})
            break
    s.bounded_standin("C17.static_table_parse", "%d rendered tables (1-12 rows, random component subsets/orders/index spellings, prefixes %s, with and without lattice block), seed %d"
                      % (n, PREFIXES, s.seed), evals, distinct, fails, ["elast_dat.read_elast_data", "elast_dat._find_modulus_key"])


def fill_command(s, ed, rnd, tmp):
    import sympy as sp
    from click.testing import CliRunner
    from specs import laue
    import cij.cli.fill as cli
    systems = ["triclinic", "monoclinic", "orthorhombic", "tetragonal7", "tetragonal6", "trigonal7", "trigonal6", "hexagonal", "cubic"]
    reps = 1 if s.tier == "quick" else 12
    names = ["c%d%d" % (i, j) for i in range(1, 7) for j in range(i, 7)]
    fails, evals, distinct = [], 0, 0
    nrnd = numpy.random.RandomState(s.seed)
    for system in systems:
        if fails:
            break
        basis = numpy.array([[float(sp.N(x)) for x in v] for v in laue.invariant_basis(system)])
        for r in range(reps):
            nv = int(nrnd.randint(1, 7))
            tens = numpy.round(nrnd.uniform(20, 400, size=(nv, len(basis))), 1) @ basis
            chosen = []
            for k in nrnd.permutation(21):
                if numpy.linalg.matrix_rank(basis[:, chosen + [int(k)]], tol=1e-9) > len(chosen):
                    chosen.append(int(k))
                if len(chosen) == len(basis):
                    break
            cols = chosen
            header = ["title of the table", "%.4f %d %.3f" % (500.0, nv, 123.456)]
            lines = ["V " + " ".join(names[k].upper() if nrnd.rand() < 0.3 else names[k] for k in cols)]
            vols = numpy.linspace(600, 400, nv)
            for i in range(nv):
                lines.append("%.5f " % vols[i] + " ".join("%.6f" % tens[i, k] for k in cols))
            rest = ["lattice_a lattice_b lattice_c"] + ["%.4f %.4f %.4f" % (8 - 0.1 * i, 9 - 0.2 * i, 10 - 0.15 * i) for i in range(nv)] if nrnd.rand() < 0.7 else []
            text = "\n".join(header + lines + rest) + "\n"
            p = os.path.join(tmp, "fill_in.dat")
            with open(p, "w") as fp:
                fp.write(text)
            evals += 1
            distinct += 1
            res = CliRunner().invoke(cli.main, ["-s", system, p])
            if res.exit_code != 0:
                fails.append({"witness_id": "fillcmd:%s:%d" % (system, r), "input": {"system": system, "text": text[:400]}, "observed": "exit %s %r" % (res.exit_code, res.exception),
                              "expected": "a filled table"})
                break
            out = res.output
            q = os.path.join(tmp, "fill_out.dat")
            with open(q, "w") as fp:
                fp.write(out)
            msg = None
            try:
                got = ed.read_elast_data(q)
                want = ed.read_elast_data(p)
                ed.apply_symetry_on_elast_data(want, {"system": system})
            except Exception as e:
                msg = "output of the fill command does not parse / cannot be compared: %r" % (e,)
            if not msg:
                if out.split("\n")[:2] != text.split("\n")[:2]:
                    msg = "header lines not preserved"
                elif (got.vref, got.nv, got.cellmass) != (want.vref, want.nv, want.cellmass) or [v.volume for v in got.volumes] != [v.volume for v in want.volumes]:
                    msg = "reference volume / count / cell mass / volumes differ"
                elif [tuple(x) for x in got.lattice_parmeters] != [tuple(x) for x in want.lattice_parmeters]:
                    msg = "lattice block not preserved"
                else:
                    for a, b in zip(got.volumes, want.volumes):
                        ka, kb = dict(a.static_elastic_modulus), dict(b.static_elastic_modulus)
                        if set(ka) != set(kb) or any(abs(ka[k] - kb[k]) > 1e-5 * max(1.0, abs(kb[k])) for k in kb):
                            msg = "filled table printed by the command differs from the symmetry-filled parse of its input (keys %s vs %s)" % (len(ka), len(kb))
                            break
            if msg:
                fails.append({"witness_id": "fillcmd:%s:%d" % (system, r), "input": {"system": system, "text": text[:400]}, "observed": msg,
                              "expected": "parse(output) == fill(parse(input)); header, volumes, lattice block preserved"})
                break
    s.bounded_standin("C17.fill_command_round_trip", "%d table(s) per crystal system through the real click command (1-6 rows, random sufficient component subsets, mixed letter case, with/without "
                      "lattice block), seed %d" % (reps, s.seed), evals, distinct, fails, ["cli/fill.main"])


MANIFEST = {
    "engine": "rtc", "category": "exploration",
    "technique": "bounded stand-in: run-time contracts on the real reader/writer functions and the fill command (no deductive obligation)",
    "text": "Not decided deductively: the functions are decimal formatting, regexes and pandas printing. The round-trip postconditions of the property "
            "are evaluated on the real functions for seeded random inputs: write_energy/read_energy (counts, P, V, E, frequencies, q-coordinates, "
            "weights to the written precision, magnitudes up to 1e5 of either sign), read_elast_data on rendered tables (reference volume, cell mass, "
            "volumes, components under canonical keys for nine prefixes and three index spellings, lattice block), and `cij fill` (output parses and "
            "equals the symmetry-filled parse of the input; header, volumes, lattice block preserved; nine systems).",
    "note": "bounded: 40/60/9 (quick) and 1500/2000/108 (thorough) cases; labelled bounded in evidence and never counted as discharged.",
}
