"""C06 -- (T,V)->(T,P) conversion evaluates each quantity at the volume where P(T,V) = P."""
import importlib, itertools, os, types, warnings
import numpy
import z3
from vf import core, smt, symnp
from vf.symnp import Sc
from contracts.nonshear_env import patched, duck_of, class_attr
from contracts import calc_env

LEVEL = "other"
EXPLANATION = ("forwarding obligations (argument order and identity of qha.v2p at every public pressure-base quantity, no state shared between "
               "calculators), the Lagrange node lemma on qha's own interpolation kernel, the rejection decision of desired_pressure_status on "
               "symbolic pressure fields, the ordering of the loading steps; the interpolation accuracy / monotonic V(P) part is a bounded "
               "stand-in on real calculations")
CA = "calculator.CijPressureBaseInterface."
QA = "qha_adapter."
NAMED = ["bulk_modulus_voigt", "bulk_modulus_reuss", "bulk_modulus_voigt_reuss_hill", "shear_modulus_voigt", "shear_modulus_reuss",
         "shear_modulus_voigt_reuss_hill", "primary_velocities", "secondary_velocities"]


def all_keys():
    from cij.util import c_
    return [c_(i, j) for i in range(1, 7) for j in range(i, 7)]


class Marker:
    def __init__(self, name):
        self.name = name

    def __repr__(self):
        return "<%s>" % self.name


def duck_calculator(tag):
    """a calculator whose every volume-base quantity is a distinct marker object"""
    keys = all_keys()
    vb = types.SimpleNamespace(**{n: Marker("%s.%s" % (tag, n)) for n in NAMED})
    vb.mass = Marker(tag + ".mass")
    for k in keys:
        for suf in ("", "s", "t"):
            setattr(vb, "c%d%d%s" % (k.voigt + (suf,)), Marker("%s.c%d%d%s" % ((tag,) + k.voigt + (suf,))))
        setattr(vb, "s%d%d" % k.voigt, Marker("%s.s%d%d" % ((tag,) + k.voigt)))
    vb.pressures = Marker(tag + ".P_tv(volume base)")
    qvb = types.SimpleNamespace(pressures=Marker(tag + ".P_tv"))
    qpb = types.SimpleNamespace(p_array=Marker(tag + ".p_array"), t_array=Marker(tag + ".t_array"), volumes=Marker(tag + ".V_tp"))
    calc = types.SimpleNamespace(volume_base=vb, qha_calculator=types.SimpleNamespace(volume_base=qvb, pressure_base=qpb),
                                 modulus_adiabatic={k: Marker("%s.CS%d%d" % ((tag,) + k.voigt)) for k in keys},
                                 modulus_isothermal={k: Marker("%s.CT%d%d" % ((tag,) + k.voigt)) for k in keys}, modulus_keys=list(keys))
    return calc


def run(s):
    cal = importlib.import_module("cij.core.calculator")
    qa = importlib.import_module("cij.core.qha_adapter")
    tier = s.tier
    s.trust("z3 5.1 (QF_NRA)", "qha.v2p (bracket search vectorized_find_nearest: external numba)", "qha grid / thermodynamics (A-QHA)")
    s.assume("A-QHA: vectorized_find_nearest brackets the requested pressure with four distinct nodes; P(T,V) of QHA is monotonic in V",
             "interpolation accuracy and V(T,P) monotonicity are properties of QHA's P(T,V) and of cubic interpolation (bounded stand-in only)")
    s.undecided_part("accuracy of the four-point interpolation and monotonic decrease of V(T,P) for all data sets: depend on QHA's numerics (bounded stand-in)")

    # ---------------- 1. forwarding: every pressure-base quantity is V2P(same-named volume-base quantity, P_tv, p)
    def forwarding():
        calls = []

        def v2p_stub(f, p_tv, p):
            calls.append((f, p_tv, p))
            return ("V2P", f, p_tv, p)
        n = 0
        with patched(cal, v2p=v2p_stub):
            for rnd in range(2):                      # two calculators in one process, interleaved reads (no shared state)
                ducks = [duck_calculator("A"), duck_calculator("B")]
                pbs = [cal.CijPressureBaseInterface(d) for d in ducks]
                order = [(i, name) for name in NAMED + ["pressures", "c11", "c11s", "c11t", "c44", "c14t", "s12", "s66"] for i in ((0, 1) if rnd == 0 else (1, 0))]
                for i, name in order:
                    d, pb = ducks[i], pbs[i]
                    del calls[:]
                    try:
                        got = getattr(pb, name)
                    except Exception as e:
                        # the conversion no longer goes through the imported qha.v2p: the call-site contract cannot be stated;
                        # C06.v2p_is_qha_interpolation and the bounded runs decide
                        raise core.OutsideSubset("pressure_base.%s does not call the imported v2p on opaque arguments (%r)" % (name, e))
                    n += 1
                    src = getattr(d.volume_base, name)
                    want = ("V2P", src, d.qha_calculator.volume_base.pressures, d.qha_calculator.pressure_base.p_array)
                    if not (isinstance(got, tuple) and len(got) == 4 and all(a is b for a, b in zip(got, want))):
                        return core.refuted("callsite", "pressure_base.%s of calculator %s is %r, expected V2P(volume_base.%s of the SAME calculator, its P(T,V), its pressure grid)"
                                            % (name, "AB"[i], got, name), witness_id="forward:" + name, replay={"reproduced": True, "history": [x[1] for x in order[:n]]})
                for i, (d, pb) in enumerate(zip(ducks, pbs)):
                    for which, src in (("modulus_adiabatic", d.modulus_adiabatic), ("modulus_isothermal", d.modulus_isothermal)):
                        m = getattr(pb, which)
                        items = dict(m.items())
                        for k in all_keys():
                            n += 1
                            want = ("V2P", src[k], d.qha_calculator.volume_base.pressures, d.qha_calculator.pressure_base.p_array)
                            for got in (m[k], items.get(k)):
                                if not (isinstance(got, tuple) and all(a is b for a, b in zip(got, want))):
                                    return core.refuted("callsite", "pressure_base.%s[%r] is %r, expected V2P of the %s tensor's entry" % (which, k, got, which),
                                                        witness_id="forward:%s" % which, replay={"reproduced": True})
                    if pb.volumes is not d.qha_calculator.pressure_base.volumes or pb.p_array is not d.qha_calculator.pressure_base.p_array or \
                            pb.t_array is not d.qha_calculator.pressure_base.t_array or pb.mass is not d.volume_base.mass:
                        return core.refuted("callsite", "volumes / p_array / t_array / mass are not forwarded from the QHA layer", witness_id="forward:grids", replay={"reproduced": True})
        return core.proved("callsite", "%d reads on two interleaved calculators: each quantity is v2p(same-named volume-base quantity, P(T,V), requested pressures) of its own "
                                       "calculator, argument order (f, P_tv, p)" % n)
    s.oblige("C06.forwarding_of_every_quantity", forwarding, [CA + "v2p", CA + "__getattr__", CA + "modulus_adiabatic", CA + "modulus_isothermal",
                                                              "calculator.CijPressureBaseModulusInterface.__getitem__"] + [CA + n for n in NAMED], kind="finite",
             fallback=lambda: native_forwarding(cal))

    def forwarding_values():
        r = native_forwarding(cal)
        if r.get("reproduced"):
            return core.refuted("runtime-contract", "pressure-base quantity differs from qha.v2p of the same calculator's volume-base quantity: %s" % {k: v for k, v in r.items() if k != "reproduced"},
                                witness_id="forwarding-values", replay=r)
        return core.proved("finite", r["note"])
    s.oblige("C06.forwarding_values(materialised items, two calculators)", forwarding_values, ["calculator.CijPressureBaseModulusInterface.items", CA + "v2p"], kind="finite")

    def v2p_is_qha():
        """the conversion function itself: the imported qha.v2p.v2p called with (f, P_tv, p); if it is re-implemented the
        contract is compared numerically with qha's (bounded) and must not extrapolate silently"""
        import qha.v2p
        if getattr(cal, "v2p", None) is qha.v2p.v2p:
            called = []
            d = duck_calculator("A")
            with patched(cal, v2p=lambda f, ptv, p: called.append((f, ptv, p)) or "R"):
                r = cal.CijPressureBaseInterface(d).v2p("F")
            if r == "R" and len(called) == 1 and called[0][0] == "F" and called[0][1] is d.qha_calculator.volume_base.pressures and called[0][2] is d.qha_calculator.pressure_base.p_array:
                return core.proved("callsite", "CijPressureBaseInterface.v2p(f) = qha.v2p.v2p(f, volume_base.pressures, pressure_base.p_array)")
        rnd = numpy.random.RandomState(0)
        for trial in range(20):
            nt, nv = 3, 12
            V = numpy.linspace(900, 500, nv)
            Ptv = numpy.array([0.002 * (900 - V) + 1e-6 * (900 - V) ** 2 + 1e-4 * t for t in range(nt)])
            f = rnd.uniform(0, 1, size=(nt, nv)).cumsum(axis=1)
            p = numpy.linspace(Ptv[:, 3].max() + 1e-3, Ptv[:, -4].min() - 1e-3, 7)
            d = duck_calculator("A")
            d.qha_calculator.volume_base.pressures, d.qha_calculator.pressure_base.p_array = Ptv, p
            got = cal.CijPressureBaseInterface(d).v2p(f)
            want = qha.v2p.v2p(f, Ptv, p)
            if not numpy.allclose(got, want, rtol=1e-10, atol=1e-12):
                return core.refuted("runtime-contract", "v2p differs from qha's four-point interpolation", witness_id="v2p-differs", replay={"reproduced": True})
            hi = numpy.array([Ptv[:, -1].max() * 1.5])
            d.qha_calculator.pressure_base.p_array = hi
            try:
                out = cal.CijPressureBaseInterface(d).v2p(f)
                if numpy.all(numpy.isfinite(out)):
                    return core.refuted("runtime-contract", "v2p silently extrapolates above the computed pressure range (P=%g > max P(T,V)=%g -> %s)" % (hi[0], Ptv.max(), out.ravel()[:3]),
                                        witness_id="v2p-extrapolates", replay={"reproduced": True})
            except Exception:
                pass
        return core.proved("runtime-contract", "re-implemented v2p agrees with qha.v2p inside the range and does not extrapolate silently (bounded: 20 fields)")
    s.oblige("C06.v2p_is_qha_interpolation", v2p_is_qha, [CA + "v2p"])

    # ---------------- 2. Lagrange kernel of qha: node reproduction and identity on the pressure field
    def lagrange():
        import qha.v2p
        f = getattr(qha.v2p._lagrange4, "py_func", None)
        if f is None:
            return core.unknown("pyvc", "qha.v2p._lagrange4 has no python source")
        x, x0, x1, x2, x3, y0, y1, y2, y3 = [Sc(z3.Real(n)) for n in "x x0 x1 x2 x3 y0 y1 y2 y3".split()]
        val = f(x, x0, x1, x2, x3, y0, y1, y2, y3)
        xs, ys = [x0, x1, x2, x3], [y0, y1, y2, y3]
        distinct = [a.z != b.z for a, b in itertools.combinations(xs, 2)]
        nz = symnp.SumNormalizer(distinct, tier)
        for k in range(4):
            vk = f(xs[k], x0, x1, x2, x3, y0, y1, y2, y3)
            r = nz.decide(vk.z == ys[k].z, distinct, "lagrange-node%d" % k)
            if r.status != core.PROVED:
                r.detail = "node %d is not reproduced | %s" % (k, r.detail)
                return r
        ident = f(x, x0, x1, x2, x3, x0, x1, x2, x3)
        r = nz.decide(ident.z == x.z, distinct, "lagrange-identity")
        if r.status != core.PROVED:
            r.detail = "interpolating the pressure field itself does not return the requested pressure | " + r.detail
            return r
        r.detail = "for four distinct nodes: L(x_k) = y_k and L(x; y = x) = x (converting the pressure field returns the requested pressures, given a bracket of distinct nodes)"
        return r
    s.oblige("C06.lemma.lagrange4_nodes_and_identity", lagrange, ["qha.v2p._lagrange4 (dependency, python source)"])

    # ---------------- 3. rejection of overshooting grids
    def rejection():
        n = 0
        for nt, nv, npr in ((1, 2, 1), (2, 3, 2), (3, 2, 3)):
            P = numpy.array([[Sc(z3.Real("P_%d_%d" % (t, v))) for v in range(nv)] for t in range(nt)], dtype=object)
            D = numpy.array([Sc(z3.Real("D_%d" % j)) for j in range(npr)], dtype=object)

            def thunk():
                me = duck_of(qa.QHACalculator, p_tv_gpa=P, desired_pressures_gpa=D, settings=_OpaqueSettings({"DELTA_P": 1.0}))
                with patched(qa, int=lambda x: 0, logger=types.SimpleNamespace(info=lambda *a, **k: None, error=lambda *a, **k: None)):
                    try:
                        qa.QHACalculator.desired_pressure_status(me)
                        return ("return", None)
                    except ValueError as e:
                        return ("raise", e)
            paths = symnp.Paths([], max_paths=4000)
            outs = paths.run(thunk)
            for pc, (kind, exc) in outs:
                n += 1
                # spec: refuse iff SOME isotherm ends (smallest volume = last column) below SOME requested pressure
                over = z3.Or(*[P[t][nv - 1].z < D[j].z for t in range(nt) for j in range(npr)])
                goal = over if kind == "raise" else z3.Not(over)
                r = smt.prove(goal, pc, tier=tier, name="rejection")
                if r.status != core.PROVED:
                    r.detail = "%dx%d field, %d pressures: the path %s %s although the grid %s the pressure reachable at every temperature | %s" % (
                        nt, nv, npr, [str(c)[:50] for c in pc][:4], "raises" if kind == "raise" else "returns normally",
                        "stays inside" if kind == "raise" else "overshoots", r.detail)
                    r.witness_id = "rejection"
                    r.replay = native_rejection(qa)
                    return r
        return core.proved("z3", "%d symbolic paths: ValueError iff min over T of P(T, smallest volume) < max requested pressure" % n,
                           sample="raise ValueError <=> exists t, j: P_gpa[t, -1] < desired_gpa[j]")
    s.oblige("C06.overshooting_grid_rejected", rejection, [QA + "QHACalculator.desired_pressure_status"], fallback=lambda: native_rejection(qa))

    def load_order():
        log = []

        class Fake:
            def __init__(self, settings):
                log.append(("init", dict(settings)))
                self.settings = settings
                self.temperature_array = numpy.arange(10.0)
                self.desired_pressures_gpa = numpy.arange(3.0)
                self.where_negative_frequencies = None
                self.v_ratio = 1.2
                self.temperature_sample_array = self.pressure_sample_array = None

            def read_input(self, x):
                log.append(("read_input", x))

            def refine_grid(self):
                log.append(("refine_grid",))

            def desired_pressure_status(self):
                log.append(("desired_pressure_status",))
                if FAIL[0]:
                    raise ValueError("too high")
        FAIL = [False]
        inp = object()
        with patched(qa, QHACalculator=Fake):
            c = qa.QHACalculatorAdapter._load_qha_calculator({"NTV": 7}, inp)
            kinds = [x[0] for x in log]
            if kinds != ["init", "read_input", "refine_grid", "desired_pressure_status"] or log[1][1] is not inp or log[0][1].get("NTV") != 7 or not isinstance(c, Fake):
                return core.refuted("callsite", "loading sequence %r" % (kinds,), witness_id="load-order", replay={"reproduced": True})
            FAIL[0] = True
            try:
                qa.QHACalculatorAdapter._load_qha_calculator({"NTV": 7}, inp)
                return core.refuted("callsite", "a calculator is returned although the range check raised", witness_id="load-swallow", replay={"reproduced": True})
            except ValueError:
                pass
        return core.proved("callsite", "read_input, refine_grid, desired_pressure_status run in this order before the calculator is returned; a failing range check propagates")
    s.oblige("C06.loading_order_and_propagation", load_order, [QA + "QHACalculatorAdapter._load_qha_calculator"], kind="finite")
    s.oblige("C06.qha_layer_forwarding", lambda: qha_layer(qa), [QA + "QHAPressureBaseInterface.p_array", QA + "QHAPressureBaseInterface.volumes", QA + "QHAVolumeBaseInterface.pressures"],
             kind="finite")
    # ---------------- 3b. the pressure grid of the QHA layer IS the requested one: P_MIN + j DELTA_P for j < NTV, also for steps that are not exact in binary
    def pressure_grid():
        n = 0
        for dp in (0.1, 0.2, 0.05, 0.3, 0.7, 0.25, 0.5, 1.0, 2.5, -1.25):
            for pmin in (0.0, 0.7, 5.0, -6.0):
                for ntv in range(2, 61):
                    me = duck_of(qa.QHACalculator, settings={"P_MIN": pmin, "DELTA_P": dp, "NTV": ntv})
                    got = numpy.asarray(me.desired_pressures_gpa, dtype=float)
                    want = pmin + dp * numpy.arange(ntv)
                    n += 1
                    if got.shape != want.shape or not numpy.allclose(got, want, rtol=1e-12, atol=1e-12):
                        return core.refuted("finite", "P_MIN = %g, DELTA_P = %g, NTV = %d: the pressure grid has %d point(s), ending at %r (requested %d points ending at %r)" % (
                            pmin, dp, ntv, len(got), float(got[-1]) if len(got) else None, ntv, float(want[-1])), witness_id="pressure-grid:%g:%d" % (dp, ntv),
                            replay={"reproduced": True, "P_MIN": pmin, "DELTA_P": dp, "NTV": ntv})
        return core.proved("finite", "%d (P_MIN, DELTA_P, NTV) settings incl. steps 0.1, 0.2, 0.05, 0.3, 0.7 and a negative step: exactly NTV pressures P_MIN + j DELTA_P" % n)
    s.oblige("C06.pressure_grid_is_the_requested_one", pressure_grid, [QA + "QHACalculator.desired_pressures_gpa"], kind="finite")
    # ---------------- 3c. the QHA layer is built from the EFFECTIVE settings (user over packaged defaults) and the phonon input the configuration names
    def load_callsite():
        import tempfile, shutil, yaml, cij.io, cij.io.traditional
        cal = importlib.import_module("cij.core.calculator")
        with open(os.path.join(core.REPO, "cij/data/default/settings.yaml")) as fp:
            packaged = yaml.safe_load(fp)
        tmp = tempfile.mkdtemp(prefix="c06l_")
        try:
            n = 0
            for user_q in ({"NT": 7, "NTV": 33}, {"DELTA_P": 0.25, "P_MIN": 3.0}, {}, dict(packaged["qha"]["settings"], DT=17.0)):
                user = {"qha": {"input": "ph.in", "settings": dict(user_q)}, "elast": {"input": "el.in", "settings": {"symmetry": {"system": "cubic"}}}}
                with open(os.path.join(tmp, "settings.yaml"), "w") as fp:
                    yaml.safe_dump(user, fp)
                seen = {}
                rec = lambda settings, qha_input, *a, **k: seen.update(settings=dict(settings), qha_input=qha_input) or "QHA-LAYER"
                me = types.SimpleNamespace()
                with patched(cal, QHACalculatorAdapter=rec), patched(cij.io.traditional, read_energy=lambda p_: ("PHONON", str(p_)), read_elast_data=lambda p_: ("STATIC", str(p_))):
                    cal.Calculator._load(me, os.path.join(tmp, "settings.yaml"))
                n += 1
                want = dict(packaged["qha"]["settings"], **user_q)
                got = seen.get("settings")
                if got is None or any(got.get(k_) != v_ for k_, v_ in want.items()):
                    diff = {k_: (None if got is None else got.get(k_), v_) for k_, v_ in want.items() if got is None or got.get(k_) != v_}
                    return core.refuted("callsite", "user QHA settings %r: the QHA layer is built with %r (setting: (received, effective = user over packaged default))" % (user_q, diff),
                                        witness_id="load-settings", replay={"reproduced": True, "user_settings": user_q})
                if seen.get("qha_input") != ("PHONON", os.path.join(tmp, "ph.in")) or getattr(me, "qha_input", None) != ("PHONON", os.path.join(tmp, "ph.in")) or \
                        getattr(me, "elast_data", None) != ("STATIC", os.path.join(tmp, "el.in")) or getattr(me, "qha_calculator", None) != "QHA-LAYER":
                    return core.refuted("callsite", "inputs are not read from the configuration file's directory / not handed to the QHA layer: %r" % (seen.get("qha_input"),),
                                        witness_id="load-inputs", replay={"reproduced": True})
                eff = getattr(me, "config", None)
                if not isinstance(eff, dict) or any(eff["qha"]["settings"].get(k_) != v_ for k_, v_ in want.items()):
                    return core.refuted("callsite", "Calculator.config is not the effective configuration", witness_id="load-config", replay={"reproduced": True})
        finally:
            shutil.rmtree(tmp, ignore_errors=True)
        return core.proved("callsite", "%d configurations (settings omitted, partly given, fully given): QHACalculatorAdapter receives user-over-packaged-default settings and the phonon input of "
                                       "the configuration's directory; Calculator.config is the same effective configuration" % n)
    s.oblige("C06.load_hands_effective_settings_to_qha_layer", load_callsite, ["calculator.Calculator._load"], kind="finite")
    # ---------------- 4. bounded: real calculations
    real_forwarding(s)
    real_runs(s)
    s.min_obligations = 7


def native_forwarding(cal):
    """the forwarding contract on concrete arrays with the real qha.v2p: two calculators alive at once; every named quantity, attribute-style component, item access and
    the materialised items() of both modulus tables must equal qha.v2p(own volume-base quantity, own P(T,V), own pressure grid) -- also after everything else was read"""
    import qha.v2p
    rnd = numpy.random.RandomState(12)
    keys = all_keys()
    ducks = []
    for tag in ("A", "B"):
        nt, nv = 3, 14
        V = numpy.linspace(900, 500, nv)
        Ptv = numpy.array([0.002 * (900 - V) + 1e-6 * (900 - V) ** 2 + 1e-4 * t * (1 + (tag == "B")) for t in range(nt)])
        p = numpy.linspace(Ptv[:, 3].max() + 1e-3, Ptv[:, -4].min() - 1e-3, 6 + (tag == "B"))
        field = lambda: rnd.uniform(0.5, 2.0, size=(nt, nv)).cumsum(axis=1)
        vb = types.SimpleNamespace(**{n: field() for n in NAMED})
        vb.mass = 1.0
        CS, CT = {k: field() for k in keys}, {k: field() for k in keys}
        for k in keys:
            setattr(vb, "c%d%d" % k.voigt, CS[k]); setattr(vb, "c%d%ds" % k.voigt, CS[k]); setattr(vb, "c%d%dt" % k.voigt, CT[k]); setattr(vb, "s%d%d" % k.voigt, field())
        vb.pressures = Ptv
        calc = types.SimpleNamespace(volume_base=vb, qha_calculator=types.SimpleNamespace(volume_base=types.SimpleNamespace(pressures=Ptv),
                                                                                           pressure_base=types.SimpleNamespace(p_array=p, t_array=numpy.arange(nt) * 100.0, volumes=None)),
                                     modulus_adiabatic=CS, modulus_isothermal=CT, modulus_keys=list(keys))
        ducks.append((tag, calc, cal.CijPressureBaseInterface(calc), Ptv, p))
    n = 0
    got = {}
    for rnd_ in range(2):
        for tag, calc, pb, Ptv, p in (ducks if rnd_ == 0 else ducks[::-1]):
            for which, src in (("modulus_adiabatic", calc.modulus_adiabatic), ("modulus_isothermal", calc.modulus_isothermal)):
                m = getattr(pb, which)
                tables = dict(m.items())                    # materialised: every yielded table is kept
                listed = list(m.items())
                for k in keys:
                    want = qha.v2p.v2p(src[k], Ptv, p)
                    for how, g in (("dict(items())[key]", tables.get(k)), ("[key]", m[k]), ("list(items())", dict(listed).get(k))):
                        n += 1
                        if g is None or numpy.shape(g) != want.shape or not numpy.allclose(g, want, rtol=1e-12, atol=1e-14):
                            return {"reproduced": True, "calculator": tag, "table": which, "key": repr(k), "access": how,
                                    "observed": None if g is None else numpy.ravel(g)[:3].tolist(), "expected": numpy.ravel(want)[:3].tolist()}
            for name in NAMED + ["c11", "c11s", "c11t", "c44t", "s12"]:
                want = qha.v2p.v2p(getattr(calc.volume_base, name), Ptv, p)
                g = getattr(pb, name)
                n += 1
                if numpy.shape(g) != want.shape or not numpy.allclose(g, want, rtol=1e-12, atol=1e-14):
                    return {"reproduced": True, "calculator": tag, "quantity": name, "observed": numpy.ravel(g)[:3].tolist(), "expected": numpy.ravel(want)[:3].tolist()}
    return {"reproduced": False, "evaluations": n, "note": "%d reads on two calculators alive at once, real qha.v2p" % n}


class _OpaqueSettings(dict):
    """the symbolic run fixes only DELTA_P (used for the hint in the error message); a decision that reads another grid setting instead of the pressure fields
    cannot be followed symbolically"""

    def __missing__(self, k):
        raise core.OutsideSubset("desired_pressure_status reads settings[%r]: the refusal is no longer decided from the pressure field and the requested pressures alone" % (k,))


def native_rejection(qa):
    """the real desired_pressure_status on concrete fields: pressure grids P_MIN + DELTA_P * k (k < NTV) with P_MIN = 0 and P_MIN > 0 whose top lies below, just above
    (by less than P_MIN) and far above the pressure reachable at every temperature; settings carry the same P_MIN / DELTA_P / NTV the grid was built from"""
    n = 0
    for pmin in (0.0, 15.0, 40.0):
        for dp in (1.0, 2.5):
            for reach in (37.3, 61.0):
                Ptv = numpy.array([[pmin - 20.0, reach + 9.0], [pmin - 12.0, reach], [pmin - 15.0, reach + 4.0]])      # the coldest / hottest isotherm is not the limiting one
                for ntv in range(2, 60):
                    D = pmin + dp * numpy.arange(ntv)
                    want = "raise" if Ptv[:, -1].min() < D.max() else "return"
                    me = duck_of(qa.QHACalculator, p_tv_gpa=Ptv, desired_pressures_gpa=D, settings={"DELTA_P": dp, "P_MIN": pmin, "NTV": ntv})
                    n += 1
                    try:
                        with patched(qa, logger=types.SimpleNamespace(info=lambda *a, **k: None, error=lambda *a, **k: None)):
                            qa.QHACalculator.desired_pressure_status(me)
                        got = "return"
                    except ValueError:
                        got = "raise"
                    except Exception as e:
                        got = "raises %r" % (e,)
                    if got != want:
                        return {"reproduced": True, "P_MIN": pmin, "DELTA_P": dp, "NTV": ntv, "reachable_at_every_T": float(Ptv[:, -1].min()), "top_of_grid": float(D.max()),
                                "observed": got, "expected": want}
    return {"reproduced": False, "evaluations": n, "note": "%d grids (P_MIN in {0, 15, 40}, DELTA_P in {1, 2.5}, NTV 2..59): ValueError iff the top of the grid exceeds min_T P(T, V_min)" % n}


def qha_layer(qa):
    c = types.SimpleNamespace(desired_pressures=Marker("p"), v_tp_bohr3=Marker("V_tp"), p_tv_au=Marker("P_tv"), temperature_array=Marker("t"), finer_volumes_bohr3=Marker("v"))
    pb, vb = qa.QHAPressureBaseInterface(c), qa.QHAVolumeBaseInterface(c)
    if pb.p_array is not c.desired_pressures or pb.volumes is not c.v_tp_bohr3 or vb.pressures is not c.p_tv_au or vb.v_array is not c.finer_volumes_bohr3 or \
            pb.t_array is not c.temperature_array:
        return core.refuted("finite", "QHA interface objects do not forward desired_pressures / v_tp_bohr3 / p_tv_au", witness_id="qha-layer", replay={"reproduced": True})
    return core.proved("finite", "p_array = desired_pressures, volumes = v_tp_bohr3, pressures = p_tv_au, v_array = finer_volumes_bohr3")


def real_forwarding(s):
    """bounded: on REAL calculators built from synthetic data sets (no duck typing) every pressure-base quantity -- the eight named ones, every component by attribute
    (cIJ, cIJs, cIJt, c_IJ, four-index spelling), by item and through materialised items(), the compliances -- equals qha.v2p of the same-named volume-base quantity with the
    calculator's own P(T,V) and pressure grid; settings include static_only and a pressure grid that does not start at zero"""
    import qha.v2p
    fails, evals = [], 0
    cases = [dict(seed=s.seed + 31, system="orthorhombic"), dict(seed=s.seed + 32, system="monoclinic", settings={"qha": {"settings": {"static_only": True}}}),
             dict(seed=s.seed + 33, system="trigonal7", lattice=False, settings={"qha": {"settings": {"P_MIN": 6.0, "NTV": 15, "NT": 11, "DT": 150, "DT_SAMPLE": 150}}}),     # 15 x 15: square grids
             # a pressure grid listed from high to low (DELTA_P < 0, P_MIN its top): the schema allows it and every column must stay with ITS pressure
             dict(seed=s.seed + 34, system="cubic", na=1, settings={"qha": {"settings": {"P_MIN": 20.0, "DELTA_P": -1.25, "DELTA_P_SAMPLE": -1.25, "NTV": 13, "NT": 5, "DT": 400, "DT_SAMPLE": 400}}})]
    for kw in cases:
        with calc_env.synthetic_case(**kw) as case:
            try:
                calc = case.build()
                pb, vb = calc.pressure_base, calc.volume_base
                Ptv = numpy.asarray(calc.qha_calculator.volume_base.pressures)
                p = numpy.asarray(pb.p_array)
                st = (kw.get("settings") or {}).get("qha", {}).get("settings", {})
                qc = getattr(calc.qha_calculator, "calculator", calc.qha_calculator)          # the adapter wraps qha's own calculator
                if "DELTA_P" in st and not (numpy.allclose(numpy.asarray(qc.desired_pressures_gpa), st["P_MIN"] + st["DELTA_P"] * numpy.arange(st["NTV"]), rtol=1e-9, atol=1e-9)
                                            and numpy.array_equal(p, numpy.asarray(qc.desired_pressures))):
                    fails.append({"witness_id": "real-forwarding:p_array", "input": dict(kw), "observed": "pressure_base.p_array is not the requested grid P_MIN + k DELTA_P in the requested order: %s" % p[:4].tolist(),
                                  "expected": (st["P_MIN"] + st["DELTA_P"] * numpy.arange(4)).tolist()})
                    break
                names = list(NAMED)
                for k in calc.modulus_keys:
                    I, J = k.voigt
                    names += ["c%d%d" % (I, J), "c%d%ds" % (I, J), "c%d%dt" % (I, J), "c_%d%dt" % (I, J), "c%d%d%d%dt" % k.standard, "c%d%d%d%d" % k.standard]
                names += ["s%d%d" % k.voigt for k in calc._compliances]
                tables = {w: dict(getattr(pb, w).items()) for w in ("modulus_adiabatic", "modulus_isothermal")}
                checks = [(n, lambda n=n: getattr(pb, n), lambda n=n: getattr(vb, n)) for n in names]
                for w in ("modulus_adiabatic", "modulus_isothermal"):
                    for k in calc.modulus_keys:
                        checks.append(("%s[%r]" % (w, k), lambda w=w, k=k: getattr(pb, w)[k], lambda w=w, k=k: getattr(calc, w)[k]))
                        checks.append(("dict(%s.items())[%r]" % (w, k), lambda w=w, k=k: tables[w][k], lambda w=w, k=k: getattr(calc, w)[k]))
                for label, got_f, src_f in checks:
                    evals += 1
                    with warnings.catch_warnings(), numpy.errstate(all="ignore"):
                        warnings.simplefilter("ignore")
                        src = numpy.asarray(src_f(), dtype=float)
                        want = qha.v2p.v2p(src, Ptv, p)
                        got = numpy.asarray(got_f(), dtype=float)
                    ok = numpy.isfinite(want)
                    if got.shape != want.shape or not numpy.allclose(got[ok], want[ok], rtol=1e-10, atol=1e-13):
                        fails.append({"witness_id": "real-forwarding:%s" % label.split("[")[0][:20], "input": dict(kw, quantity=label),
                                      "observed": "pressure_base.%s differs from v2p(volume-base %s) by up to %.3g" % (label, label, float(numpy.nanmax(numpy.abs(got - want))) if got.shape == want.shape else float("nan")),
                                      "expected": "the same-named (T,V) quantity converted along every isotherm"})
                        break
            except Exception as e:
                fails.append({"witness_id": "real-forwarding-raises", "input": dict(kw), "observed": "raises %r" % (e,), "expected": "pressure-base quantities"})
        if fails:
            break
    s.bounded_standin("C06.forwarding_on_real_calculators", "4 synthetic calculators (orthorhombic; monoclinic with static_only; trigonal7 with P_MIN = 6 GPa on a square 15 x 15 grid; cubic on a pressure grid listed from 20 GPa DOWN to 5 GPa): named quantities, every component by "
                      "attribute in six spellings, by item and through materialised items(), compliances", evals, evals, fails,
                      ["calculator.Calculator", CA + "__getattr__", CA + "v2p", "calculator.CijPressureBaseModulusInterface.items"])


def real_runs(s):
    from scipy.interpolate import PchipInterpolator
    fails, evals, distinct = [], 0, 0
    cases = [("akimotoite", {"qha": {"settings": {"NT": 8, "DT": 200, "DT_SAMPLE": 200, "NTV": 31, "DELTA_P": 1.0, "DELTA_P_SAMPLE": 1.0}}})]
    if s.tier == "thorough":
        cases.append(("diopside", {"qha": {"settings": {"NT": 6, "DT": 300, "DT_SAMPLE": 300, "NTV": 21, "DELTA_P": 0.5, "DELTA_P_SAMPLE": 0.5}}}))
    for ex, settings in cases:
        with calc_env.Case(ex, settings) as case:
          try:
            calc = case.build()
            pb, vb = calc.pressure_base, calc.volume_base
            Ptv = numpy.asarray(calc.qha_calculator.volume_base.pressures)
            p = numpy.asarray(pb.p_array)
            V = numpy.asarray(calc.v_array)
            Vtp = numpy.asarray(pb.volumes)
            nt = Ptv.shape[0] - 4
            evals += 1
            distinct += 1
            msg = None
            conv = calc_env.quiet(lambda: numpy.asarray(pb.pressures))
            if conv.shape != (Ptv.shape[0], len(p)):
                msg = "pressure_base.pressures has shape %s, the (T,P) grid is %s" % (conv.shape, (Ptv.shape[0], len(p)))
            elif not numpy.allclose(conv[:nt], p[None, :], rtol=1e-9, atol=1e-12):
                msg = "converting the pressure field does not return the requested pressures (max dev %.3g)" % numpy.abs(conv[:nt] - p[None, :]).max()
            if msg is None and not numpy.all(numpy.diff(Vtp[:nt], axis=1) < 0):
                msg = "V(T,P) is not decreasing in P"
            for t in range(nt):
                if msg:
                    break
                order = numpy.argsort(V)
                Pof = PchipInterpolator(V[order], Ptv[t][order])
                back = Pof(Vtp[t])
                step = numpy.abs(numpy.diff(Ptv[t])).max()
                if not numpy.allclose(back, p, rtol=0, atol=2e-3 * step + 1e-9):
                    msg = "P(T, V(T,P)) differs from P at T index %d (max dev %.3g, grid step %.3g)" % (t, numpy.abs(back - p).max(), step)
                for name in ("bulk_modulus_voigt_reuss_hill", "shear_modulus_voigt", "c11", "c44t"):
                    fv = calc_env.quiet(lambda: numpy.asarray(getattr(vb, name)))[t]
                    fpa = calc_env.quiet(lambda: numpy.asarray(getattr(pb, name)))
                    if fpa.shape != (Ptv.shape[0], len(p)):
                        msg = "pressure_base.%s has shape %s" % (name, fpa.shape)
                        break
                    fp = fpa[t]
                    ref = PchipInterpolator(V[order], fv[order])(Vtp[t])
                    scale = numpy.abs(numpy.diff(fv)).max()
                    evals += 1
                    if not numpy.allclose(fp, ref, rtol=0, atol=0.05 * scale + 1e-12):
                        msg = "pressure_base.%s differs from volume_base.%s at the volume where P(T,V)=P (T index %d, max dev %.3g, one grid step changes it by %.3g)" % (
                            name, name, t, numpy.abs(fp - ref).max(), scale)
                        break
          except Exception as e:
            msg = "the calculation / conversion raises %r" % (e,)
          if msg:
                fails.append({"witness_id": "real:%s" % ex, "input": {"example": ex, "settings": settings}, "observed": msg, "expected": "conversion at the volume where P(T,V)=P"})
                break
        # overshooting grid must be rejected
        over = {"qha": {"settings": dict(settings["qha"]["settings"], NTV=401, DELTA_P=2.0, DELTA_P_SAMPLE=2.0)}}
        evals += 1
        distinct += 1
        with calc_env.Case(ex, over) as case:
            try:
                case.build()
                fails.append({"witness_id": "overshoot:%s" % ex, "input": {"example": ex, "settings": over}, "observed": "calculation accepted",
                              "expected": "ValueError: requested pressures above the computed range"})
                break
            except ValueError:
                pass
            except Exception as e:
                fails.append({"witness_id": "overshoot:%s" % ex, "input": {"example": ex, "settings": over}, "observed": "raises %r" % (e,), "expected": "ValueError"})
                break
    s.bounded_standin("C06.real_calculations", "%d shipped example(s) on a reduced grid: pressure field conversion, monotonic V(T,P), P(T,V(T,P))=P and four quantities against an "
                      "independent monotone interpolation along every isotherm; one overshooting grid per example" % len(cases), evals, distinct, fails,
                      ["calculator.CijPressureBaseInterface", QA + "QHACalculator.desired_pressure_status"])


MANIFEST = {
    "engine": "symnp", "category": "other",
    "technique": "contract-based deductive verification of forwarding / rejection logic (call-site obligations on the real classes, symbolic "
                 "pressure fields with forking, z3 NRA lemma on qha's Lagrange kernel); bounded run-time contracts on real calculations",
    "text": "Discharged: every public pressure-base quantity (8 named properties, both modulus mappings for all 21 keys, names reached through "
            "__getattr__, the pressure field) is v2p(same-named volume-base quantity, P(T,V), requested pressures) of ITS OWN calculator, also with "
            "two calculators read in interleaved order; v2p is qha's interpolation; qha's four-point Lagrange kernel reproduces its nodes and maps "
            "the pressure field to the requested pressures (z3, distinct nodes); desired_pressure_status raises ValueError iff some isotherm's "
            "largest pressure is below some requested pressure, on symbolic fields of sizes up to 3x2 with all comparison paths forked; the "
            "loader runs read_input, refine_grid and the range check in order and lets the rejection propagate. Bounded: conversion identities "
            "and independent re-interpolation on real calculations, overshooting grid rejected.",
    "note": "QHA's bracket search, P(T,V) monotonicity and interpolation accuracy are external (A-QHA): bounded only (1 quick / 2 thorough "
            "examples). Field sizes in the rejection proof are enumerated (values symbolic).",
}
