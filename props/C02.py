"""C02 -- adiabatic - isothermal gap is T V (dP/dT)^2 / (9 e_i e_j C_V); zero for shear and at T = 0."""
import importlib, types
import numpy
import z3
from vf import core, smt, symnp
from vf.symnp import SymArr, Sc
from contracts.nonshear_env import Env, HK, K_RY, H_RY
from contracts import tasks_env
from specs import phonon
from props import C01

LEVEL = "proof"
EXPLANATION = ("real nonshear.isothermal_to_adiabatic / value_adiabatic on symbolic arrays of symbolic size against "
               "-d2F/dTdV of the property statement; real tasks.py + shear.py with stubbed non-shear contributions for the "
               "shear clause (15 keys enumerated, values symbolic)")
MOD = "nonshear."
L, O = C01.L, C01.O


def spec_gap(env, swap_e=False, power=2):
    ex = phonon.spec_exprs()

    def body(lead, q, m):
        t, v = lead
        return phonon.to_z3(ex["dPdT"], C01.mode_env(env, t, v, q, m))
    S = env.mode_sum((env.nt, env.ntv), body)          # dP_ph/dT, weights normalised, Gamma acoustic excluded

    def elem(i):
        t, v = i
        T, V = env.T.elem((t,)), env.V.elem((v,))
        e0, e1 = env.e0.elem((v,)), env.e1.elem((v,))
        if swap_e:
            e1 = e0
        s = S.elem(i)
        return z3.If(T == 0, z3.RealVal(0), T * V * (s * s if power == 2 else s) / (9 * e0 * e1 * env.Cv.elem(i)))
    return SymArr((env.nt, env.ntv), elem)


def run(s):
    env = Env()
    C01.ENV["env"] = env
    ns = env.nonshear
    tier = s.tier
    s.trust("z3 5.1 QF_NRA / cvc5 1.4", "vf/symnp.py", "sympy.diff (spec side)", "finite-sum lemmas (A-SUMS)")
    s.assume("A-FP", "A-NUMPY", "A-SYMPY", "A-SUMS", "A-QHA: cv_tv_au is C_V of the same spectrum (external)",
             "precondition np = 3*na, V>0, e>0, w_q>0, omega>0 off the Gamma-acoustic slots, T>=0, C_V>0")
    s.undecided_part("that QHA's cv_tv_au is the heat capacity of the same spectrum (external, numba)")
    base = env.facts

    def arrays(name, code, spec, functions=(), equal_e=False, replay=None):
        def ob():
            env.equal_e = equal_e
            r = symnp.prove_code_equals(code, spec, base, tier=tier, name=name)
            if replay is not None:
                C01.attach_replay(r, *replay)
            return r
        return s.oblige(name, ob, functions, fallback=(lambda: C01.fallback_battery(*replay)) if replay is not None else None)

    with env.active():
        for kind, cls, c in (("longitudinal", L, 5), ("off_diagonal", O, 15)):
            def fresh(kind=kind, c=c):
                o = env.make(kind)
                C01.preset(o, mode_gamma=C01.spec_mode_gamma(env, c), Q1=C01.spec_Q1(env), Q2=C01.spec_Q2(env))
                return o
            arrays("C02.%s.isothermal_to_adiabatic" % kind, lambda f=fresh: f().isothermal_to_adiabatic, lambda: spec_gap(env),
                   [MOD + cls + ".isothermal_to_adiabatic"], equal_e=(kind == "longitudinal"), replay=(kind, "isothermal_to_adiabatic"))
            VI = SymArr.atom("VI_" + kind, (env.nt, env.ntv))
            GAP = SymArr.atom("GAP_" + kind, (env.nt, env.ntv))

            def va(kind=kind, VI=VI, GAP=GAP):
                o = env.make(kind)
                C01.preset(o, value_isothermal=VI, isothermal_to_adiabatic=GAP)
                return o.value_adiabatic
            arrays("C02.%s.value_adiabatic" % kind, va, VI + GAP, [MOD + cls + ".value_adiabatic"], replay=(kind, "frame"))
            arrays("C02.%s.chain" % kind, lambda kind=kind: (lambda o: o.value_adiabatic - o.value_isothermal)(env.make(kind)),
                   lambda: spec_gap(env), [MOD + cls + ".value_adiabatic"], equal_e=(kind == "longitudinal"), replay=(kind, "isothermal_to_adiabatic"))

        # lemmas over the contract: non-negative on the diagonal for C_V > 0, exactly zero at T = 0
        def nonneg():
            env.equal_e = True
            g = spec_gap(env)
            idx, rng = symnp.index_vars(g.shape)
            nz = symnp.SumNormalizer(base + rng, tier)
            t = nz.canon(g.elem(idx))
            goal = z3.And(t >= 0, z3.Implies(env.T.elem((idx[0],)) == 0, t == 0))
            return nz.decide(goal, nz.facts(goal), "nonneg")
        s.oblige("C02.lemma.diagonal_gap_nonnegative_and_zero_at_T0", nonneg)

        # canaries
        def fresh_off():
            o = env.make("off_diagonal")
            C01.preset(o, mode_gamma=C01.spec_mode_gamma(env, 15), Q1=C01.spec_Q1(env), Q2=C01.spec_Q2(env))
            return o

        def can(spec):
            env.equal_e = False
            return symnp.prove_code_equals(lambda: fresh_off().isothermal_to_adiabatic, spec, base, tier=tier)
        s.canary("C02.canary.both_factors_e_i", lambda: can(lambda: spec_gap(env, swap_e=True)))
        s.canary("C02.canary.dPdT_not_squared", lambda: can(lambda: spec_gap(env, power=1)))

    # ---------------- the e_i, e_j of the formula are the strain FRACTIONS: what the task layer hands to the contributions
    def fractions():
        from props import C04
        tasks = importlib.import_module("cij.core.tasks")
        r = None
        for k in tasks_env.all_keys():
            if not k.is_shear:
                r = C04.l2_obligation(tasks, k, tier)
                if r.status != core.PROVED:
                    r.detail = "strain fractions handed to the contribution of %r: %s" % (k, r.detail)
                    return r
        return r
    s.oblige("C02.strain_fractions_are_normalised(6 non-shear keys)", fractions, ["tasks.PhononContributionTaskParams._make_param_by_strain_key"])

    # ---------------- shear: adiabatic is the isothermal object, and is fed by isothermal dependencies only
    s.oblige("C02.shear.value_adiabatic_is_value_isothermal", shear_identity, ["shear.ShearElasticModulusPhononContribution.value_adiabatic"])
    s.oblige("C02.tasks.shear_adiabatic_equals_isothermal(15 keys)", lambda: shear_tasks(tier),
             ["tasks.PhononContributionTaskList.calculate", "tasks.PhononContributionTask.get_modulus_adiabatic",
              "tasks.PhononContributionTask.get_modulus_isothermal"], kind="finite")
    s.canary("C02.canary.shear_differs_if_fed_adiabatic", lambda: shear_tasks(tier, perturbed=True))
    def calculate_ob():
        # tasks.py is one of this property's anchored files: calculate() stores, for every task, the adiabatic value of ITS contribution (isothermal + gap for i, j <= 3; for a
        # shear task the solver applied to the ISOTHERMAL results of its dependencies) -- the loop-rule obligation of C04, registered here with the value-level replay
        from props import C04
        out = C04.calculate_loop_rule(tier)
        return out[0] if isinstance(out, tuple) else out

    def calculate_fb():
        from props import C04
        return C04.native_plumbing_values()
    s.oblige("C02.tasks.calculate_stores_each_task's_own_adiabatic_value(loop rule)", calculate_ob, ["tasks.PhononContributionTaskList.calculate"], fallback=calculate_fb)
    s.oblige("C02.heat_capacity_forwarding", heat_capacity, ["qha_adapter.QHAVolumeBaseInterface.heat_capacity"], kind="finite")
    if s.tier == "thorough":
        from vf import lean
        s.oblige("C02.lemmas.FiniteSums(lean)", lambda: lean.check_file("lemmas/FiniteSums.lean"), ["lemmas/FiniteSums.lean (sum rules: linearity, congruence, combination, "
                                                                                                     "positivity, permutation, weight scaling)"])
    if not s.__dict__.get("_p"):          # not when this check itself runs as a sub-session of another property
        # the strain fractions e_i, e_j of the gap are made by FullThermalElasticModulus.get_axial_strains (normalised logarithmic derivatives of the fitted axis lengths, sign
        # included: an axis that lengthens under compression has a negative fraction) -- C05's obligations on that glue, registered here as well
        from props import C05, C15
        sub = core.SubSession(s, lambda n: n.replace("C05.", "C02.strain_fractions."), lambda n: n.startswith("C05.axial_strains_"))
        sub.__dict__["glue_only"] = True
        sub.run(C05)
        # both tensors are DELIVERED through the writer rules (which quantity a keyword writes): C15's registry and writer-path obligations, registered here as well
        core.SubSession(s, lambda n: n.replace("C15.", "C02.delivery."), lambda n: n in ("C15.registry", "C15.writer_paths")).run(C15)
    s.min_obligations = 11


def shear_identity():
    from cij.core.phonon_contribution.shear import ShearElasticModulusPhononContribution as S
    from cij.util import c_
    for key in tasks_env.all_keys():
        if not key.is_shear:
            continue
        o = S(numpy.array([[0.2, 0.3, 0.5]]), key)
        marker = object()
        o._value_isothermal = marker          # LazyProperty cache slot
        if o.value_adiabatic is not marker or o.value_isothermal is not marker:
            return core.refuted("finite", "value_adiabatic of %r is not the isothermal value object" % (key,), witness_id="shear-identity",
                                replay={"reproduced": True, "key": repr(key)})
    return core.proved("finite", "for the 15 shear keys value_adiabatic returns the very object value_isothermal returns")


def shear_tasks(tier, perturbed=False):
    keys = tasks_env.all_keys()
    n = 0
    for strain in ([[0.2, 0.3, 0.5], [0.25, 0.35, 0.4]], [[1 / 3, 1 / 3, 1 / 3]] * 2, [[0.1, 0.1, 0.8], [0.6, 0.3, 0.1]]):
        tl, iso, adi = tasks_env.run_tasks(strain, keys)
        for k in keys:
            if not k.is_shear:
                continue
            n += 1
            a_, i_ = adi[k], iso[k]
            if perturbed:       # canary: pretend the adiabatic shear value was assembled from adiabatic dependencies
                a_ = Sc(z3.substitute(i_.z, *[(z3.Real(nm), z3.Real(nm.replace("_T_", "_S_"))) for nm in tasks_env.uses_only(i_.z, "T")[1]
                                                if "_T_" in nm]))
            only_t, names = tasks_env.uses_only(a_.z, "T")
            r = smt.prove(a_.z == i_.z, tier=tier)
            if r.status != core.PROVED or not only_t:
                r.status = core.REFUTED if (r.status == core.REFUTED or not only_t) else r.status
                r.detail = "key %r strain %r: adiabatic %s isothermal; atoms %s" % (k, strain[0], "!=" if r.status == core.REFUTED else "?=", names[:6])
                r.witness_id = "shear-adiabatic:%r" % (k,)
                if not perturbed:
                    r.replay = native_shear_replay(k, strain)
                return r
    return core.proved("z3", "%d (key, strain field) cases: stored adiabatic value == stored isothermal value as a linear form in "
                             "isothermal atoms only" % n)


def native_shear_replay(key, strain):
    """real numbers: adiabatic non-shear values differ from isothermal ones; the shear key must not see the difference"""
    import cij.core.tasks as tasks

    class NL(tasks_env._Stub):
        kind = "L"
        value_isothermal = property(lambda self: numpy.full((2, 2), 100.0 + 7 * float(numpy.ravel(self.e[0])[0])))
        value_adiabatic = property(lambda self: numpy.full((2, 2), 103.0 + 7 * float(numpy.ravel(self.e[0])[0])))

    class NO(NL):
        kind = "O"
    from contracts.nonshear_env import patched
    with patched(tasks, LongitudinalElasticModulusPhononContribution=NL, OffDiagonalElasticModulusPhononContribution=NO):
        tl = tasks.PhononContributionTaskList(types.SimpleNamespace())
        tl.resolve(numpy.asarray(strain, dtype=float), tasks_env.all_keys())
        tl.calculate()
        a_, i_ = tl.get_adiabatic_results()[key], tl.get_isothermal_results()[key]
    bad = not numpy.allclose(a_, i_)
    return {"reproduced": bool(bad), "key": repr(key), "adiabatic": numpy.asarray(a_).tolist(), "isothermal": numpy.asarray(i_).tolist()}


def heat_capacity():
    qa = importlib.import_module("cij.core.qha_adapter")
    marker = object()
    v = qa.QHAVolumeBaseInterface(types.SimpleNamespace(cv_tv_au=marker, cv_tp_au=object(), bt_tv_au=object(), bs_tv_au=object()))
    if v.heat_capacity is not marker:
        return core.refuted("finite", "QHAVolumeBaseInterface.heat_capacity does not forward cv_tv_au", witness_id="heat-capacity",
                            replay={"reproduced": True})
    return core.proved("finite", "heat_capacity forwards calculator.cv_tv_au")


MANIFEST = {
    "engine": "symnp", "category": "proof",
    "technique": "contract-based deductive verification: real isothermal_to_adiabatic/value_adiabatic on symbolic arrays (z3/cvc5, "
                 "sum rules) against -d2F/dTdV; real tasks.py/shear.py with stubbed dependencies for the shear clause",
    "text": "isothermal_to_adiabatic of both non-shear classes is executed from /repo on symbolic arrays of symbolic size and proved "
            "equal to T V (dP/dT)^2/(9 e_i e_j C_V) with dP/dT = -d2F_ph/dTdV derived symbolically from the property's free energy "
            "(T = 0 rows zero); value_adiabatic = value_isothermal + gap; non-negativity on the diagonal and the zero at T = 0 are "
            "lemmas over that contract. For every one of the 15 shear keys the real scheduler and shear solver, run with the non-shear "
            "contributions replaced by distinct isothermal/adiabatic atoms, store an adiabatic value that is provably the isothermal "
            "one and contains isothermal atoms only.",
    "note": "A-FP, numpy stub semantics, finite-sum lemmas, sympy.diff; C_V is whatever the QHA layer hands over (forwarding is "
            "checked, its physical meaning is external); the shear clause is enumerated over keys and three strain fields with "
            "symbolic values.",
}
