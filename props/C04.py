"""C04 -- phonon tensor assembly is complete, request-independent, isotropic in the limit.

Lemmas (rank function, parameter normalisation, equality contract) are discharged deductively / by complete
enumeration over the 21 keys; isotropy and axis covariance are proved for ALL values of the C01 contract
parameters (A, P, gap: symbolic) at enumerated strain fields; the work-list plumbing (all request sets and orders)
is a bounded stand-in with symbolic values.
"""
import importlib, itertools, random, types
import numpy
import z3
from vf import core, smt, symnp
from vf.symnp import Sc, SymArr, Dim, SymNumpy
from contracts import tasks_env
from contracts.nonshear_env import patched

LEVEL = "other"
EXPLANATION = ("proof of the lemmas that carry the property (well-founded dependency rank, parameter normalisation for symbolic "
               "strain arrays of symbolic length, equality contract, isotropy/covariance for all contract parameters) on the real "
               "tasks.py/shear.py; the scheduler's work-list over all request sets/orders is a bounded stand-in (stated bound), never "
               "counted as discharged")
T = "tasks."
A_, P_, G_ = z3.Reals("A_ph P_ph Gap")


def rank(key):
    if not key.is_shear:
        return 0
    return 1 if key.voigt[0] == key.voigt[1] else 2


class ContractStub(tasks_env._Stub):
    """C01/C02 contracts of the non-shear contributions as functions of the strain fractions (A, P, gap opaque reals)"""

    def _e(self):
        return numpy.asarray(self.e[0], dtype=float), numpy.asarray(self.e[1], dtype=float)

    def _mk(self, coef_a, coef_p, coef_g, const_p=0.0):
        out = numpy.empty(coef_a.shape, dtype=object)
        for i in range(coef_a.size):
            out[i] = Sc(symnp.rat(float(coef_a[i])) * A_ + (symnp.rat(float(coef_p[i])) + symnp.rat(const_p)) * P_ + symnp.rat(float(coef_g[i])) * G_)
        return out


class LongC(ContractStub):
    kind = "L"

    @property
    def value_isothermal(self):
        e0, e1 = self._e()
        return self._mk(1 / (5 * e0 * e1), 1 / (3 * e0), 0 * e0)

    @property
    def value_adiabatic(self):
        e0, e1 = self._e()
        return self._mk(1 / (5 * e0 * e1), 1 / (3 * e0), 1 / (9 * e0 * e1))


class OffC(ContractStub):
    kind = "O"

    @property
    def value_isothermal(self):
        e0, e1 = self._e()
        return self._mk(1 / (15 * e0 * e1), 0 * e0, 0 * e0, const_p=1.0)

    @property
    def value_adiabatic(self):
        e0, e1 = self._e()
        return self._mk(1 / (15 * e0 * e1), 0 * e0, 1 / (9 * e0 * e1), const_p=1.0)


def assemble(strain, keys, stubs=(LongC, OffC)):
    tasks = importlib.import_module("cij.core.tasks")
    with patched(tasks, LongitudinalElasticModulusPhononContribution=stubs[0], OffDiagonalElasticModulusPhononContribution=stubs[1]):
        tl = tasks.PhononContributionTaskList(types.SimpleNamespace())
        tl.resolve(numpy.asarray(strain, dtype=float), list(keys))
        tl.calculate()
        return tl, tl.get_isothermal_results(), tl.get_adiabatic_results()


def coeffs(sc):
    """(coefficient of A, P, Gap) of a linear form"""
    z = sc.z if isinstance(sc, Sc) else symnp.term(sc)
    out = []
    zero = [(A_, z3.RealVal(0)), (P_, z3.RealVal(0)), (G_, z3.RealVal(0))]
    base = z3.simplify(z3.substitute(z, *zero))
    for v in (A_, P_, G_):
        one = [(w, z3.RealVal(1 if w.eq(v) else 0)) for w in (A_, P_, G_)]
        c = z3.simplify(z3.substitute(z, *one) - base)
        out.append(float(c.as_fraction()) if z3.is_rational_value(c) else None)
    return out, (float(base.as_fraction()) if z3.is_rational_value(base) else None)


def run(s):
    tasks = importlib.import_module("cij.core.tasks")
    from cij.util import c_
    tier = s.tier
    rnd = random.Random(s.seed)
    keys = tasks_env.all_keys()
    shear_keys = [k for k in keys if k.is_shear]
    s.trust("z3 5.1", "vf/symnp.py", "networkx.topological_sort (A-NX)", "numpy.linalg.eigh output (checked in C03)")
    s.assume("A-NX: networkx.topological_sort returns a topological order of a DAG",
             "A-ALLCLOSE: strain fields within numpy.allclose tolerance are identified as one task",
             "C01/C02 contracts of the non-shear contributions (c_ii = A/(5 e_i e_j)+P/(3 e_i), c_ij = A/(15 e_i e_j)+P, adiabatic gap G/(9 e_i e_j))",
             "A-FP")
    s.undecided_part("completeness / request-independence of the work-list for ALL 2^21 x n! request sets and orders and all strain fields: "
                     "bounded enumeration only (lists, DiGraph, allclose-based equality are outside the deductive engines)")

    # ---------------- L1: well-founded dependency relation [F over the 15 shear keys; strains generic]
    def l1():
        for strain in ([[0.2, 0.3, 0.5]], [[1 / 3, 1 / 3, 1 / 3]], [[0.25, 0.25, 0.5]]):
            for key in shear_keys:
                with tasks_env.stubbed() as tk:
                    t = tk.PhononContributionTask(numpy.array(strain), key, None)
                    deps = t.get_dependencies()
                if not deps:
                    return core.refuted("finite", "shear key %r has no dependencies" % (key,), witness_id="nodeps%r" % (key,), replay={"reproduced": True})
                for st, k in deps:
                    if rank(k) >= rank(key):
                        return core.refuted("finite", "%r (rank %d) depends on %r (rank %d): no well-founded order" % (key, rank(key), k, rank(k)),
                                            witness_id="rank%r%r" % (key, k), replay={"reproduced": True})
            for key in keys:
                if not key.is_shear:
                    with tasks_env.stubbed() as tk:
                        if tk.PhononContributionTask(numpy.array(strain), key, None).get_dependencies() != []:
                            return core.refuted("finite", "non-shear key %r has dependencies" % (key,), witness_id="nonshear-deps", replay={"reproduced": True})
        return core.proved("finite", "rank 0 = non-shear, 1 = c44 c55 c66, 2 = mixed: every dependency of a shear key has strictly smaller rank "
                                     "(depth <= 2, acyclic) for 15 keys x 3 strain fields")
    s.oblige("C04.L1.dependency_rank_decreases", l1, [T + "PhononContributionTask.get_dependencies", "shear.get_modulus_keys", "shear.get_modulus_keys_rotated"],
             kind="finite")

    # ---------------- L2: parameter normalisation on a symbolic strain array of symbolic length
    def l2(key):
        return lambda: l2_obligation(tasks, key, tier)
    for key in keys:
        if not key.is_shear:
            s.oblige("C04.L2.normalised_fractions[c%d%d]" % key.voigt, l2(key), [T + "PhononContributionTaskParams._make_param_by_strain_key"])

    def _unused_l2(key):
        ntv = Dim("ntv")
        E = SymArr.atom("e", (ntv, 3), lambda idx, v: v > 0)

        def ob():
            with patched(tasks, numpy=SymNumpy()):
                def thunk():
                    r = tasks.PhononContributionTaskParams._make_param_by_strain_key(E, key)
                    if not (isinstance(r, tuple) and len(r) == 2 and all(symnp.is_arr(x) for x in r)):
                        raise symnp.ShapeObligation("result is not a pair of arrays")
                    return SymNumpy().stack_list(list(r))
                i, _, k, _ = key.standard
                tot = lambda v: E.elem((v, z3.IntVal(0))) + E.elem((v, z3.IntVal(1))) + E.elem((v, z3.IntVal(2)))
                spec = SymArr((2, ntv), lambda idx: z3.If(idx[0] == 0, E.elem((idx[1], z3.IntVal(i - 1))), E.elem((idx[1], z3.IntVal(k - 1)))) / tot(idx[1]))
                r = symnp.prove_code_equals(thunk, spec, [], tier=tier, name="make_param%r" % (key,))
                if r.status == core.REFUTED:
                    r.replay = native_l2(tasks, key)
                    r.witness_id = "make_param%r" % (key,)
                return r
        return ob

    def l2_shear():
        for key in shear_keys:
            st = numpy.array([[0.2, 0.3, 0.5]])
            r = tasks.PhononContributionTaskParams._make_param_by_strain_key(st, key)
            if not (isinstance(r, tuple) and r[0] is st and r[1] == key):
                return core.refuted("finite", "shear parameters of %r are not (strain, key)" % (key,), witness_id="shearparam", replay={"reproduced": True})
            p = tasks.PhononContributionTaskParams.create(st, key)
            if p.calc_type is not key.calc_type:
                return core.refuted("finite", "calc_type of %r" % (key,), witness_id="calctype", replay={"reproduced": True})
        return core.proved("finite", "shear keys keep (strain, key); create() stores key.calc_type")
    s.oblige("C04.L2.shear_params_and_create", l2_shear, [T + "PhononContributionTaskParams.create"], kind="finite")

    # ---------------- equality / hash contract [F]
    def eq_contract():
        P = tasks.PhononContributionTaskParams
        s1, s2 = numpy.array([[0.2, 0.3, 0.5], [0.25, 0.35, 0.4]]), numpy.array([[0.3, 0.2, 0.5], [0.35, 0.25, 0.4]])
        for k1 in keys:
            for k2 in keys:
                for sa, sb in ((s1, s1), (s1, s1.copy()), (s1, s2)):
                    a, b = P.create(sa, k1), P.create(sb, k2)
                    same_params = (k1.calc_type == k2.calc_type) and (
                        (k1 == k2 and numpy.allclose(sa, sb)) if k1.is_shear else
                        numpy.allclose(numpy.array(a.params), numpy.array(b.params)))
                    got = (a == b)
                    if bool(got) != bool(same_params) or bool(b == a) != bool(got):
                        return core.refuted("finite", "PhononContributionTaskParams equality of (%r,%s) and (%r,%s) is %s" % (
                            k1, "s1", k2, "s1" if sb is not s2 else "s2", got), witness_id="eq%r%r" % (k1, k2), replay={"reproduced": True})
                    if got and hash(a) != hash(b):
                        return core.refuted("finite", "equal parameters hash differently (%r)" % (k1,), witness_id="hash%r" % (k1,), replay={"reproduced": True})
        return core.proved("finite", "21x21 keys x {same, copied, different} strain fields: == is symmetric, true exactly for same type, same "
                                     "(shear) key and equal strains / equal normalised fractions; equal => equal hash")
    s.oblige("C04.task_params_equality_contract", eq_contract, [T + "PhononContributionTaskParams.__eq__", T + "PhononContributionTaskParams.__hash__"],
             kind="finite")

    # ---------------- L3: isotropy and axis covariance for all (A, P, gap)
    def l3_isotropy():
        n = 0
        for e in ([1 / 3, 1 / 3, 1 / 3], [1.0, 1.0, 1.0], [0.2, 0.2, 0.2]):
            strain = [list(e), list(e)]
            tl, iso, adi = assemble(strain, keys)
            for which, res in (("isothermal", iso), ("adiabatic", adi)):
                val = {k: coeffs(res[k][0])[0] for k in keys}
                g = lambda a, b: numpy.array(val[c_(a, b)], dtype=float)
                checks = [("c11=c22", g(1, 1) - g(2, 2)), ("c11=c33", g(1, 1) - g(3, 3)), ("c12=c13", g(1, 2) - g(1, 3)), ("c12=c23", g(1, 2) - g(2, 3)),
                          ("c44=c55", g(4, 4) - g(5, 5)), ("c44=c66", g(4, 4) - g(6, 6)), ("c44=(c11-c12)/2", g(4, 4) - (g(1, 1) - g(1, 2)) / 2)]
                for k in keys:
                    if k.voigt not in ((1, 1), (2, 2), (3, 3), (1, 2), (1, 3), (2, 3), (4, 4), (5, 5), (6, 6)):
                        checks.append(("c%d%d=0" % k.voigt, g(*k.voigt)))
                scale = numpy.abs(g(1, 1)) + 1e-300
                for label, d in checks:
                    n += 1
                    if numpy.any(numpy.abs(d) > 1e-10 * scale):
                        return core.refuted("z3", "equal strains %r, %s tensor: %s fails; coefficient difference (A,P,gap) = %s" % (e, which, label, d.tolist()),
                                            witness_id="isotropy:" + label, replay={"reproduced": True, "strain": e})
        return core.proved("linear-forms", "%d coefficient identities: with equal strains the assembled tensor is isotropic for all A, P, gap" % n)
    s.oblige("C04.L3.isotropic_for_equal_strains", l3_isotropy, [T + "PhononContributionTaskList.calculate", "shear.get_target_elastic_modulus"])

    def l3_covariance():
        n = 0
        fields = [[[0.2, 0.3, 0.5], [0.25, 0.35, 0.4]], [[0.1, 0.1, 0.8], [0.3, 0.3, 0.4]], [[0.6, 0.3, 0.1], [0.5, 0.2, 0.3]]]
        if tier == "thorough":
            for _ in range(10):
                fields.append([[rnd.uniform(0.05, 0.9) for _ in range(3)] for _ in range(2)])
        for strain in fields:
            base = assemble(strain, keys)
            scale = max(abs(x) for k in keys for row in range(2) for x in coeffs(base[1][k][row])[0])   # magnitude of the tensor
            for perm in itertools.permutations(range(3)):
                if perm == (0, 1, 2):
                    continue
                st2 = [[row[perm[a]] for a in range(3)] for row in strain]
                other = assemble(st2, keys)
                for which in (1, 2):
                    for key in keys:
                        a, b, c, d = key.standard
                        src = c_(perm[a - 1] + 1, perm[b - 1] + 1, perm[c - 1] + 1, perm[d - 1] + 1)
                        for row in range(2):
                            x = numpy.array(coeffs(other[which][key][row])[0], dtype=float)
                            y = numpy.array(coeffs(base[which][src][row])[0], dtype=float)
                            n += 1
                            if numpy.any(numpy.abs(x - y) > 1e-10 * scale):
                                return core.refuted("z3", "relabelling axes by %s: %r of the relabelled crystal %s differs from %r of the original %s"
                                                    % (perm, key, x.tolist(), src, y.tolist()), witness_id="covariance:%r%r" % (perm, key),
                                                    replay={"reproduced": True, "strain": strain, "perm": perm})
        return core.proved("linear-forms", "%d coefficient identities over %d strain fields x 5 relabellings x 21 keys x {isothermal, adiabatic}" % (n, len(fields)))
    s.oblige("C04.L3.axis_relabelling_covariance", l3_covariance, [T + "PhononContributionTaskList.calculate", "shear.strain_rotated"])

    s.canary("C04.canary.isotropy_with_c44=(c11+c12)/2", lambda: canary_iso(keys, c_))
    # ---------------- plumbing: bounded stand-in with symbolic values
    plumbing(s, tasks, keys, rnd)
    # the isotropy / covariance lemmas above ASSUME the C01 contract of the non-shear classes (prefactors 1/(5 e_i e_j), 1/(15 e_i e_j), 1/(3 e); which strain
    # fraction goes with which axis).  nonshear.py is one of this property's anchored files: the assumption is discharged here on the real classes by the
    # corresponding obligations of C01 (same obligation code, registered under this property)
    from props import C01
    C01.run(core.SubSession(s, lambda n: n.replace("C01.", "C04.nonshear_contract."), lambda n: ".prefactors" in n or ".mode_gamma[" in n or "value_isothermal" in n
                            or n.endswith(".chain")))
    s.min_obligations = 11


def l2_obligation(tasks, key, tier):
    """_make_param_by_strain_key(strain, key) = (e_i / sum e, e_k / sum e) on a symbolic strain array of symbolic length"""
    ntv = Dim("ntv_l2")
    E = SymArr.atom("e_l2", (ntv, 3), lambda idx, v: v > 0)
    with patched(tasks, numpy=SymNumpy()):
        def thunk():
            r = tasks.PhononContributionTaskParams._make_param_by_strain_key(E, key)
            if not (isinstance(r, tuple) and len(r) == 2 and all(symnp.is_arr(x) for x in r)):
                raise symnp.ShapeObligation("result is not a pair of arrays")
            return SymNumpy().stack_list(list(r))
        i, _, k, _ = key.standard
        tot = lambda v: E.elem((v, z3.IntVal(0))) + E.elem((v, z3.IntVal(1))) + E.elem((v, z3.IntVal(2)))
        spec = SymArr((2, ntv), lambda idx: z3.If(idx[0] == 0, E.elem((idx[1], z3.IntVal(i - 1))), E.elem((idx[1], z3.IntVal(k - 1)))) / tot(idx[1]))
        r = symnp.prove_code_equals(thunk, spec, [], tier=tier, name="make_param%r" % (key,))
        if r.status == core.REFUTED:
            r.replay = native_l2(tasks, key)
            r.witness_id = "make_param%r" % (key,)
        return r


def canary_iso(keys, c_):
    tl, iso, adi = assemble([[1 / 3] * 3], keys)
    g = lambda a, b: numpy.array(coeffs(iso[c_(a, b)][0])[0], dtype=float)
    d = g(4, 4) - (g(1, 1) + g(1, 2)) / 2
    if numpy.any(numpy.abs(d) > 1e-10 * numpy.abs(g(1, 1))):
        return core.refuted("linear-forms", "perturbed isotropy relation refuted")
    return core.proved("linear-forms", "perturbed relation holds?!")


def native_l2(tasks, key):
    st = numpy.array([[1.0, 1.0, 1.0], [0.2, 0.3, 0.5], [2.0, 1.0, 1.0]])
    got = tasks.PhononContributionTaskParams._make_param_by_strain_key(st, key)
    i, _, k, _ = key.standard
    want = (st[:, i - 1] / st.sum(axis=1), st[:, k - 1] / st.sum(axis=1))
    bad = not (numpy.allclose(got[0], want[0]) and numpy.allclose(got[1], want[1]))
    return {"reproduced": bool(bad), "strain": st.tolist(), "observed": [numpy.asarray(g).tolist() for g in got], "expected": [w.tolist() for w in want]}


def plumbing(s, tasks, keys, rnd):
    """real resolve/calculate/get_*_results, non-shear contributions = atoms indexed by (type, strain pair)"""
    fields = {"generic": [[0.2, 0.3, 0.5], [0.25, 0.35, 0.4]], "two-equal": [[0.25, 0.25, 0.5], [0.3, 0.3, 0.4]],
              "all-equal": [[1 / 3, 1 / 3, 1 / 3]] * 2, "un-normalised": [[1.0, 1.0, 1.0], [1.0, 1.0, 1.0]], "un-normalised-generic": [[1.0, 2.0, 3.0], [2.0, 1.0, 1.5]]}
    n_random = 60 if s.tier == "quick" else 4000
    evals, fails, distinct = 0, [], set()

    def check(strain, req, ref, label, tl=None):
        """returns failure dict or None"""
        nonlocal evals
        evals += 1
        try:
            if tl is None:
                with tasks_env.stubbed() as tk:
                    tl = tk.PhononContributionTaskList(types.SimpleNamespace())
                    tl.resolve(numpy.asarray(strain, dtype=float), list(req))
                    tl.calculate()
                    iso, adi = tl.get_isothermal_results(), tl.get_adiabatic_results()
            else:
                with tasks_env.stubbed():
                    tl.resolve(numpy.asarray(strain, dtype=float), list(req))
                    tl.calculate()
                    iso, adi = tl.get_isothermal_results(), tl.get_adiabatic_results()
        except Exception as e:
            return {"observed": "raises %r" % (e,), "expected": "every requested key receives a value"}
        for k in req:
            if k not in iso or k not in adi:
                return {"observed": "no value for %r" % (k,), "expected": "every requested key receives a value"}
            for which, res in (("T", iso), ("S", adi)):
                want = ref[which][k]
                r = smt.prove(symnp.term(res[k]) == want, timeout_ms=3000, fallback=False)
                if r.status != core.PROVED:
                    return {"observed": "%s value of %r differs from the value it has when requested alone" % (which, k), "expected": str(want)[:200]}
        # closed under dependencies and topologically ordered
        pos = {id(t): n for n, t in enumerate(tl.data)}
        for t in tl.data:
            for st, k in t.get_dependencies():
                p = tasks.PhononContributionTaskParams.create(st, k)
                idx = [n for n, u in enumerate(tl.data) if u.task_params == p]
                if not idx:
                    return {"observed": "dependency %r of %r is not in the task list" % (k, t.key), "expected": "closed under dependencies"}
                if min(idx) >= pos[id(t)]:
                    return {"observed": "%r is evaluated before its dependency %r" % (t.key, k), "expected": "topological order"}
        return None

    for fname, strain in fields.items():
        # reference: each key requested alone
        ref = {"T": {}, "S": {}}
        ok = True
        for k in keys:
            try:
                with tasks_env.stubbed() as tk:
                    tl = tk.PhononContributionTaskList(types.SimpleNamespace())
                    tl.resolve(numpy.asarray(strain, dtype=float), [k])
                    tl.calculate()
                    ref["T"][k] = symnp.term(tl.get_isothermal_results()[k])
                    ref["S"][k] = symnp.term(tl.get_adiabatic_results()[k])
                evals += 1
            except Exception as e:
                fails.append({"witness_id": "single:%s:%r" % (fname, k), "input": {"strain": strain, "request": [repr(k)]}, "observed": "raises %r" % (e,),
                              "expected": "a value"})
                ok = False
                break
        if not ok:
            break
        reqs = []
        if fname in ("generic", "two-equal"):
            reqs += [list(p) for p in itertools.combinations(keys, 2)]               # all 210 pairs
            reqs += [[k] + [q for q in keys if q != k] for k in keys]                 # each key first, full set
        for _ in range(n_random if fname == "generic" else max(10, n_random // 6)):
            sub = rnd.sample(keys, rnd.randint(1, 21))
            reqs.append(sub)
        full = list(keys)
        for _ in range(10 if s.tier == "quick" else 50):
            rnd.shuffle(full)
            reqs.append(list(full))
        for req in reqs:
            sig = (fname, tuple(k.voigt for k in req))
            if sig in distinct:
                continue
            distinct.add(sig)
            f = check(strain, req, ref, fname)
            if f:
                f.update({"witness_id": "plumbing:%s:%s" % (fname, [k.voigt for k in req][:6]), "input": {"strain": strain, "request": [repr(k) for k in req]}})
                fails.append(f)
                break
        if fails:
            break
    # history: one list object asked again with a different strain field must give what a fresh list gives
    if not fails:
        seq = [fields["generic"], [[0.3, 0.2, 0.5], [0.35, 0.25, 0.4]], fields["all-equal"], fields["generic"]]
        with tasks_env.stubbed() as tk:
            shared = tk.PhononContributionTaskList(types.SimpleNamespace())
        for step, strain in enumerate(seq):
            ref = {"T": {}, "S": {}}
            with tasks_env.stubbed() as tk:
                fresh = tk.PhononContributionTaskList(types.SimpleNamespace())
                fresh.resolve(numpy.asarray(strain, dtype=float), list(keys))
                fresh.calculate()
                for k in keys:
                    ref["T"][k] = symnp.term(fresh.get_isothermal_results()[k])
                    ref["S"][k] = symnp.term(fresh.get_adiabatic_results()[k])
            f = check(strain, keys, ref, "history", tl=shared)
            distinct.add(("history", step))
            if f:
                f.update({"witness_id": "history:step%d" % step, "input": {"history": "one task list, resolve+calculate with strain fields %r in turn" % (seq[:step + 1],)}})
                fails.append(f)
                break
    s.bounded_standin("C04.plumbing(request sets, orders, histories)",
                      "strain fields %s; all 21 singletons, all 210 pairs and 21 'key first' full orders (generic, two-equal), %d random subsets x orders, "
                      "full set in shuffled orders, one 4-step history on a shared task list; values symbolic (atoms per (type, strain pair))"
                      % (sorted(fields), n_random), evals, len(distinct), fails,
                      [T + "PhononContributionTaskList.resolve", T + "PhononContributionTaskList.calculate", T + "PhononContributionTaskList.get_isothermal_results",
                       T + "PhononContributionTaskList.get_adiabatic_results", T + "PhononContributionTaskResults.__getitem__",
                       T + "PhononContributionTaskResults.__setitem__", T + "PhononContributionTaskResults.get_results_by_strain_keys"])


MANIFEST = {
    "engine": "symnp", "category": "other",
    "technique": "contract-based deductive verification of the lemmas (rank function, normalisation on symbolic arrays via z3, equality "
                 "contract, isotropy/covariance as coefficient identities for all contract parameters); bounded run-time contracts for the work-list",
    "text": "Discharged: (L1) every dependency of a shear key has strictly smaller rank (acyclic, depth <= 2) on the real get_dependencies "
            "for all 15 keys; (L2) _make_param_by_strain_key on a symbolic strain array of symbolic length returns e_i/sum e, e_k/sum e for "
            "the six non-shear keys; the equality/hash contract of task parameters over 21x21 keys; (L3) with the C01/C02 contracts "
            "(A, P, gap symbolic) for the non-shear inputs and the real scheduler + shear solver on top, the assembled tensor is isotropic for "
            "equal strains and covariant under the 5 axis relabellings for all A, P, gap (coefficient identities) at enumerated strain fields. "
            "Bounded: completeness, request-independence (value identical to the singleton request), closure and topological order over "
            "enumerated request sets/orders/histories with symbolic values.",
    "note": "The work-list loop itself (lists, networkx DiGraph, allclose equality) is outside the deductive engines: bounded stand-in, "
            "210 pairs + 42 full orders + 60 (quick) / 4000 (thorough) random requests per generic field, 5 strain fields, one 4-step "
            "history. Isotropy/covariance are unbounded in A, P, gap but enumerated in the strain field (3 quick / 13 thorough fields). "
            "networkx.topological_sort trusted; A-ALLCLOSE.",
}
