"""C04 -- phonon tensor assembly is complete, request-independent, isotropic in the limit.

Lemmas (rank function, parameter normalisation, equality contract) are discharged deductively / by complete
enumeration over the 21 keys; isotropy and axis covariance are proved for ALL values of the C01 contract
parameters (A, P, gap: symbolic) at enumerated strain fields; the work-list plumbing (all request sets and orders)
is a bounded stand-in with symbolic values.
"""
import importlib, itertools, random, types
import numpy
import z3
from vf import core, smt, symnp
from vf.symnp import Sc, SymArr, Dim, SymNumpy
from contracts import tasks_env
from contracts.nonshear_env import patched

LEVEL = "other"
EXPLANATION = ("proof of the lemmas that carry the property (well-founded dependency rank, parameter normalisation for symbolic "
               "strain arrays of symbolic length, equality contract, isotropy/covariance for all contract parameters) on the real "
               "tasks.py/shear.py; resolve()'s work-list loop and calculate()'s evaluation loop (with the real PhononContributionTaskResults methods) under the Hoare loop rule on "
               "abstract work list / task list / graph / result stores: for request lists, dependency lists and task lists of any length every request is answered with the "
               "canonical value of its class; bounded plumbing runs (request sets, orders, histories) in addition")
T = "tasks."
A_, P_, G_ = z3.Reals("A_ph P_ph Gap")


def rank(key):
    if not key.is_shear:
        return 0
    return 1 if key.voigt[0] == key.voigt[1] else 2


class ContractStub(tasks_env._Stub):
    """C01/C02 contracts of the non-shear contributions as functions of the strain fractions (A, P, gap opaque reals)"""

    def _e(self):
        return numpy.asarray(self.e[0], dtype=float), numpy.asarray(self.e[1], dtype=float)

    def _mk(self, coef_a, coef_p, coef_g, const_p=0.0):
        out = numpy.empty(coef_a.shape, dtype=object)
        for i in range(coef_a.size):
            out[i] = Sc(symnp.rat(float(coef_a[i])) * A_ + (symnp.rat(float(coef_p[i])) + symnp.rat(const_p)) * P_ + symnp.rat(float(coef_g[i])) * G_)
        return out


class LongC(ContractStub):
    kind = "L"

    @property
    def value_isothermal(self):
        e0, e1 = self._e()
        return self._mk(1 / (5 * e0 * e1), 1 / (3 * e0), 0 * e0)

    @property
    def value_adiabatic(self):
        e0, e1 = self._e()
        return self._mk(1 / (5 * e0 * e1), 1 / (3 * e0), 1 / (9 * e0 * e1))


class OffC(ContractStub):
    kind = "O"

    @property
    def value_isothermal(self):
        e0, e1 = self._e()
        return self._mk(1 / (15 * e0 * e1), 0 * e0, 0 * e0, const_p=1.0)

    @property
    def value_adiabatic(self):
        e0, e1 = self._e()
        return self._mk(1 / (15 * e0 * e1), 0 * e0, 1 / (9 * e0 * e1), const_p=1.0)


def assemble(strain, keys, stubs=(LongC, OffC)):
    tasks = importlib.import_module("cij.core.tasks")
    with patched(tasks, LongitudinalElasticModulusPhononContribution=stubs[0], OffDiagonalElasticModulusPhononContribution=stubs[1]):
        tl = tasks.PhononContributionTaskList(types.SimpleNamespace())
        tl.resolve(numpy.asarray(strain, dtype=float), list(keys))
        tl.calculate()
        return tl, tl.get_isothermal_results(), tl.get_adiabatic_results()


# ----------------------------------------------------------------------------------------------------------------------
# resolve(): the work-list loop under the loop rule (vf/looprule.py) -- request list, strain field and dependency lists of ANY length
def resolve_loop_rule(s_tier):
    from vf import looprule
    from contracts import tasks_loop_env as E
    tasks = importlib.import_module("cij.core.tasks")
    I_ = z3.IntSort()
    fn = tasks.PhononContributionTaskList.resolve
    stubs = {"itertools": E.ItertoolsStub, "nx": E.NxStub, "list": E.list_stub, "len": E.len_stub, "enumerate": E.enumerate_stub, "PhononContributionTaskParams": E.ParamsStub, "PhononContributionTask": E.TaskStub}
    for name, val in fn.__globals__.items():
        import networkx, itertools as _it
        if val is networkx:
            stubs[name] = E.NxStub
        if val is _it:
            stubs[name] = E.ItertoolsStub
    pieces = looprule.Pieces(fn, 0, stubs=stubs)
    if not isinstance(pieces.loop, __import__("ast").While):
        raise core.OutsideSubset("resolve's loop is no longer a while loop over the work list")
    c_, j_ = z3.Const("c_", E.Cls), z3.Int("j_")
    axioms = [z3.ForAll([c_], z3.And(E.NDEP(c_) >= 0, E.RANK(c_) >= 0)),
              z3.ForAll([c_, j_], z3.Implies(z3.And(j_ >= 0, j_ < E.NDEP(c_)), E.RANK(E.depcls(c_, j_)) < E.RANK(c_))), E.NREQ >= 0]

    def rng(n, *xs):
        return z3.And(*[z3.And(x >= 0, x < n) for x in xs])

    def invariant(v, g):
        """v: view with L, N, QS, QK, QD, TS, TK, EDGE, NODE; g: ghost with QJ, QR, WD, AD, WR, AR (closures). -> [(name, arity, formula builder)]"""
        tc = lambda t: E.CLS(v.TS(t), v.TK(t))
        return [
            ("no two tasks of one class", 2, lambda a, b: z3.Implies(z3.And(rng(v.N, a, b), a != b), tc(a) != tc(b))),
            ("every pending entry is a request or a dependency of an existing task", 1, lambda p: z3.Implies(rng(v.L, p), z3.And(v.QD(p) >= -1, z3.If(
                v.QD(p) == -1,
                z3.And(rng(E.NREQ, g.QR(p)), v.QS(p) == E.STRAIN0, v.QK(p) == E.KEYS(g.QR(p))),
                z3.And(v.QD(p) < v.N, rng(E.NDEP(tc(v.QD(p))), g.QJ(p)), v.QS(p) == E.DEPS(tc(v.QD(p)), g.QJ(p)), v.QK(p) == E.DEPK(tc(v.QD(p)), g.QJ(p))))))),
            ("every dependency of every task is pending or resolved by an edge", 2, lambda t, j: z3.Implies(z3.And(rng(v.N, t), rng(E.NDEP(tc(t)), j)), z3.Or(
                z3.And(rng(v.L, g.WD(t, j)), v.QD(g.WD(t, j)) == t, g.QJ(g.WD(t, j)) == j),
                z3.And(g.WD(t, j) == -1, rng(v.N, g.AD(t, j)), tc(g.AD(t, j)) == E.depcls(tc(t), j), v.EDGE(g.AD(t, j), t))))),
            ("every request is pending or has its task", 1, lambda r: z3.Implies(rng(E.NREQ, r), z3.Or(
                z3.And(rng(v.L, g.WR(r)), v.QD(g.WR(r)) == -1, g.QR(g.WR(r)) == r),
                z3.And(g.WR(r) == -1, rng(v.N, g.AR(r)), tc(g.AR(r)) == E.CLS(E.STRAIN0, E.KEYS(r)))))),
            ("edges lead from a task of lower rank to its dependant", 2, lambda a, b: z3.Implies(v.EDGE(a, b), z3.And(rng(v.N, a, b), E.RANK(tc(a)) < E.RANK(tc(b))))),
            ("graph nodes are the task indices", 1, lambda a: v.NODE(a) == rng(v.N, a)),
            ("sizes", 0, lambda: z3.And(v.L >= 0, v.N >= 0)),
        ]

    def quantified(inv):
        out = []
        vs = [z3.Int("q%d" % i) for i in range(2)]
        for name, ar, f in inv:
            out.append(f(*vs[:ar]) if ar == 0 else z3.ForAll(vs[:ar], f(*vs[:ar])))
        return out

    def goals(inv, tag):
        sk = [z3.Int("sk%d_%s" % (i, tag)) for i in range(2)]
        return [("%s: %s" % (tag, name), f(*sk[:ar])) for name, ar, f in inv]

    def prove_all(gs, facts, what, qf_facts=None):
        t = 0.0
        for name, g in gs:
            r = None
            if qf_facts is not None:
                # first attempt: hypotheses instantiated over a pool of index terms (quantifier-free: fast and independent of the solver's instantiation heuristics);
                # a counter-model of the instances only means the pool was too small -- the quantified query decides then
                r = smt.prove(g, qf_facts, tier=s_tier, name=name, timeout_ms=10000, fallback=False)
                t += r.time_s
                if r.status != core.PROVED:
                    r = None
            if r is None:
                r = smt.prove(g, facts, tier=s_tier, name=name, timeout_ms=20000 if s_tier == "quick" else 90000)
                t += r.time_s
            if r.status == core.PROVED:
                continue
            r.detail = "%s: premise `%s` of the loop rule is not valid | %s" % (what, name, r.detail)
            if r.status == core.REFUTED:
                r.replay, r.witness_id = native_plumbing_small(), "resolve-loop:%s" % name.split(":")[1].strip()[:40]
            return r, t
        return None, t

    class Ghost:
        pass
    total, nprem, npaths = 0.0, 0, 0
    me = types.SimpleNamespace(calculator=None)
    # ---------------- premise 1: {true} prefix {Inv}
    empty = types.SimpleNamespace(L=z3.IntVal(0), N=z3.IntVal(0), QS=lambda p: E.STRAIN0, QK=lambda p: E.KEYS(p), QD=lambda p: z3.IntVal(-1), TS=lambda t: E.STRAIN0,
                                  TK=lambda t: E.KEYS(t), EDGE=lambda a, b: z3.BoolVal(False), NODE=lambda a: z3.BoolVal(False))
    lv = E.Live(empty)
    E.LIVE[0] = lv
    out = pieces.run_prefix({"self": me, "strain": E.AbsStrain(E.STRAIN0), "keys": E.ReqSeq()})
    if out.kind != "fall":
        return core.refuted("looprule", "resolve returns before its work loop", witness_id="resolve-loop:prefix", replay=native_plumbing_small())
    env0 = out.env
    for k, v in list(env0.items()):
        if E.generic_initial_queue(v):          # `[(strain, key, None) for key in keys]`: the same initial work list as list(product([strain], keys, [None]))
            E.list_stub(E.Product(([E.AbsStrain(E.STRAIN0)], E.ReqSeq(), [None])))
            env0[k] = E.WorkList()
    names = {"q": [k for k, v in env0.items() if isinstance(v, E.WorkList)], "tasks": [k for k, v in env0.items() if isinstance(v, list) and v == [] and k != "keys"],
             "graph": [k for k, v in env0.items() if isinstance(v, E.Graph)]}
    if any(len(v) != 1 for v in names.values()):
        raise core.OutsideSubset("loop state of resolve: %s among the locals %s" % (names, sorted(env0)))
    qn, tn, gn = names["q"][0], names["tasks"][0], names["graph"][0]
    if getattr(me, "strain", None) is None or not isinstance(getattr(me, "keys", None), E.ReqSeq):
        return core.refuted("looprule", "resolve does not record the strain field and the request list before the work loop (get_*_results read them)", witness_id="resolve-loop:self",
                            replay=native_plumbing_small())
    E.search_sites(pieces.loop.body, tn)
    g0 = Ghost()
    g0.QJ, g0.QR = (lambda p: z3.IntVal(0)), (lambda p: p)
    g0.WD, g0.AD = (lambda t, j: z3.IntVal(-1)), (lambda t, j: z3.IntVal(0))
    g0.WR, g0.AR = (lambda r: r), (lambda r: z3.IntVal(0))
    r, t = prove_all(goals(invariant(lv, g0), "initially") + [("initially: bound " + d, b) for d, b in lv.bounds], axioms, "prefix")
    total += t
    nprem += 7
    if r:
        return r
    # ---------------- premise 2: {Inv, work list not empty} body {Inv}
    pre = E.State("pre")
    gpre = Ghost()
    gpre.QJ, gpre.QR, gpre.WD, gpre.AD, gpre.WR, gpre.AR = pre.QJ, pre.QR, pre.WD, pre.AD, pre.WR, pre.AR
    pre_view = types.SimpleNamespace(L=pre.L, N=pre.N, QS=pre.QS, QK=pre.QK, QD=pre.QD, TS=pre.TS, TK=pre.TK, EDGE=pre.EDGE, NODE=pre.NODE)
    hyp = quantified(invariant(pre_view, gpre))
    results = []

    def one_path():
        lv = E.Live(pre)
        E.LIVE[0] = lv
        env = dict(env0)
        env[qn], env[tn], env[gn] = E.WorkList(), E.TaskList(), E.Graph()
        env["self"] = types.SimpleNamespace(calculator=None)
        hdr = pieces.loop_header(env)[1]
        guard = symnp.truth(symnp.term_bool(hdr)) if hasattr(symnp, "term_bool") else bool(hdr)
        if not guard:
            return ("exit", lv, None)
        o = pieces.run_body(env)
        return ("body", lv, o)
    paths = symnp.Paths(axioms, max_paths=64)
    outs = paths.run(one_path)
    for pc, (kind, lv, o) in outs:
        if kind == "exit":
            continue
        npaths += 1
        if o.kind != "fall":
            return core.refuted("looprule", "the loop body leaves the loop (%s)" % o.kind, witness_id="resolve-loop:body", replay=native_plumbing_small())
        ev = lv.events
        pops = [e for e in ev if e[0] == "pop"]
        srch = [e for e in ev if e[0] == "search"]
        apps = [e for e in ev if e[0] == "append_task"]
        push = [e for e in ev if e[0] == "push_deps"]
        if len(pops) != 1 or len(srch) != 1 or len(apps) > 1 or len(push) != 1 or any(e[0] in ("push_one", "init_queue", "toposort") for e in ev):
            raise core.OutsideSubset("the loop body's effects %s do not have the shape pop / search / [new task] / [edge] / push dependencies" % [e[0] for e in ev])
        _, p, s_, k_, d_ = pops[0]
        curr = apps[0][1] if apps else srch[0][2]
        cdep, L0, dpush = push[0][1], push[0][2], push[0][3]
        cpop = E.CLS(s_, k_)
        g1 = Ghost()
        g1.QR = gpre.QR
        g1.QJ = lambda x: z3.If(z3.And(x >= L0, x < L0 + E.NDEP(cdep)), x - L0, gpre.QJ(x))
        g1.WR = lambda x: z3.If(z3.And(d_ == -1, x == gpre.QR(p)), z3.IntVal(-1), gpre.WR(x))
        g1.AR = lambda x: z3.If(z3.And(d_ == -1, x == gpre.QR(p)), curr, gpre.AR(x))
        g1.WD = lambda a, b: z3.If(z3.And(a == curr, b >= 0, b < E.NDEP(cdep)), L0 + b, z3.If(z3.And(d_ >= 0, a == d_, b == gpre.QJ(p)), z3.IntVal(-1), gpre.WD(a, b)))
        g1.AD = lambda a, b: z3.If(z3.And(d_ >= 0, a == d_, b == gpre.QJ(p)), curr, gpre.AD(a, b))
        inst = []
        sk = [z3.Int("sk%d_after" % i) for i in range(2)]
        terms = [sk[0], sk[1], p, curr, d_, gpre.QJ(p), gpre.QR(p), L0, pre.N]
        for ar, f in lv.schemas:
            for tt in terms:
                inst.append(f(tt))
        facts = axioms + hyp + pc + lv.facts + inst
        # instance pool for the quantifier-free attempt
        pool = [sk[0], sk[1], p, curr, d_, gpre.QJ(p), gpre.QR(p), L0, pre.N, pre.QD(sk[0]), gpre.QJ(sk[0]), gpre.QR(sk[0]), gpre.WD(sk[0], sk[1]), gpre.AD(sk[0], sk[1]),
                gpre.WR(sk[0]), gpre.AR(sk[0]), gpre.WD(d_, gpre.QJ(p)), gpre.AD(d_, gpre.QJ(p)), sk[0] - L0, sk[1] - L0]
        qf = [E.NREQ >= 0] + pc + lv.facts + inst
        for name_, ar, f in invariant(pre_view, gpre):
            qf += [f()] if ar == 0 else ([f(a) for a in pool] if ar == 1 else [f(a, b) for a in pool for b in pool])
        for ar, f in lv.schemas:
            qf += [f(a) for a in pool]
        classes = [cpop, cdep] + [pre.tcls(a) for a in pool]
        for c0 in classes:
            qf += [E.NDEP(c0) >= 0, E.RANK(c0) >= 0]
            qf += [z3.Implies(z3.And(j0 >= 0, j0 < E.NDEP(c0)), E.RANK(E.depcls(c0, j0)) < E.RANK(c0)) for j0 in (sk[1], gpre.QJ(p), gpre.QJ(sk[0]), sk[0] - L0)]
        gs = goals(invariant(lv, g1), "after")
        gs += [("after: the dependencies pushed are those of the task just reached, tagged with its index", z3.And(cdep == cpop, dpush == curr))]
        gs += [("after: bound " + d, b) for d, b in lv.bounds]
        r, t = prove_all(gs, facts, "body, path %s" % [e[0] for e in ev], qf_facts=qf)
        total += t
        nprem += len(gs)
        if r:
            return r
    if npaths < 4:
        raise core.OutsideSubset("only %d paths through the loop body were explored (found / new task x request / dependency expected)" % npaths)
    # ---------------- premise 3: {Inv, work list empty} suffix {post}
    lv = E.Live(pre)
    E.LIVE[0] = lv
    env = dict(env0)
    env[qn], env[tn], env[gn] = E.WorkList(), E.TaskList(), E.Graph()
    me3 = types.SimpleNamespace(calculator=None)
    env["self"] = me3
    outs = pieces.run_suffix(env)
    if outs.kind not in ("fall", "return"):
        return core.refuted("looprule", "code after the work loop: %s" % outs.kind, witness_id="resolve-loop:suffix")
    evn = [e[0] for e in lv.events]
    data = getattr(me3, "data", None)
    if evn.count("toposort") != 1 or evn.count("iterate_order") != 1 or not (isinstance(data, list) and len(data) == 1 and isinstance(data[0], E.AbsTask)):
        raise core.OutsideSubset("after the work loop: events %s, self.data = %r (expected: self.data = [tasks[i] for i in topological_sort(graph)])" % (evn, data))
    # the generic-element reading of `[tasks[i] for i in order]` is sound only for that very shape (an order-preserving map assigned as it is): checked on the AST
    import ast as _ast
    shape_ok = False
    for st in pieces.suffix:
        if isinstance(st, _ast.Assign) and len(st.targets) == 1 and isinstance(st.targets[0], _ast.Attribute) and st.targets[0].attr == "data" and isinstance(st.value, _ast.ListComp):
            lc = st.value
            g = lc.generators
            shape_ok = len(g) == 1 and not g[0].ifs and isinstance(g[0].target, _ast.Name) and isinstance(lc.elt, _ast.Subscript) and isinstance(lc.elt.value, _ast.Name) and \
                lc.elt.value.id == tn and isinstance(lc.elt.slice, _ast.Name) and lc.elt.slice.id == g[0].target.id and isinstance(g[0].iter, (_ast.Name, _ast.Call))
            if shape_ok and isinstance(g[0].iter, _ast.Name):
                src = [x for x in pieces.suffix if isinstance(x, _ast.Assign) and any(isinstance(t_, _ast.Name) and t_.id == g[0].iter.id for t_ in x.targets)]
                shape_ok = len(src) == 1 and isinstance(src[0].value, _ast.Call) and _ast.unparse(src[0].value.func).endswith("topological_sort")
            elif shape_ok:
                shape_ok = _ast.unparse(g[0].iter.func).endswith("topological_sort")
    if not shape_ok:
        raise core.OutsideSubset("after the work loop self.data is not assigned as `[tasks[i] for i in topological_sort(graph)]`")
    gvar = [e for e in lv.events if e[0] == "iterate_order"][0][1]
    # A-NX: ORD is a bijection of [0, N) (inverse POS) that places a before b for every edge a -> b -- applicable because the graph is acyclic (edges raise RANK)
    a_, b_ = z3.Ints("a_ b_")
    nx_contract = [z3.ForAll([a_], z3.Implies(rng(pre.N, a_), z3.And(rng(pre.N, E.ORD(a_)), rng(pre.N, E.POS(a_)), E.POS(E.ORD(a_)) == a_, E.ORD(E.POS(a_)) == a_))),
                   z3.ForAll([a_, b_], z3.Implies(pre.EDGE(a_, b_), E.POS(a_) < E.POS(b_)))]
    facts = axioms + hyp + [pre.L == 0, rng(pre.N, gvar)] + nx_contract          # gvar: the generic position of the comprehension over the order
    r0, t0, j0 = z3.Ints("r0 t0 j0")
    tc = pre.tcls
    post = [
        ("post: self.data[g] is the task ORD(g) of the graph order", z3.Implies(rng(pre.N, gvar), z3.And(data[0].strain.z == pre.TS(E.ORD(gvar)), data[0].key.z == pre.TK(E.ORD(gvar))))),
        ("post: every request has a task", z3.Implies(rng(E.NREQ, r0), z3.And(rng(pre.N, pre.AR(r0)), tc(pre.AR(r0)) == E.CLS(E.STRAIN0, E.KEYS(r0))))),
        ("post: every dependency of every task has a task that comes EARLIER in self.data", z3.Implies(z3.And(rng(pre.N, t0), rng(E.NDEP(tc(t0)), j0)), z3.And(
            rng(pre.N, pre.AD(t0, j0)), tc(pre.AD(t0, j0)) == E.depcls(tc(t0), j0), E.POS(pre.AD(t0, j0)) < E.POS(t0)))),
        ("post: the graph handed to topological_sort is acyclic (every edge raises the rank)", z3.Implies(pre.EDGE(r0, t0), E.RANK(tc(r0)) < E.RANK(tc(t0)))),
        ("post: one task per class", z3.Implies(z3.And(rng(pre.N, r0, t0), r0 != t0), tc(r0) != tc(t0))),
    ]
    r, t = prove_all(post + [("exit: bound " + d, b) for d, b in lv.bounds], facts, "suffix")
    total += t
    nprem += len(post)
    if r:
        return r
    note = dict(pieces.dropped(), premises=nprem, body_paths=npaths,
                invariant=[n for n, _, _ in invariant(pre_view, gpre)],
                post=[n for n, _ in post], not_proved="termination (each pop replaces an entry by entries of strictly smaller rank: multiset order, not mechanised)")
    return core.proved("z3", "loop rule on PhononContributionTaskList.resolve for request lists, strain fields and dependency lists of ANY length: %d premises over %d paths of the loop body "
                       "(initialisation, preservation, exit) generated by executing the method's own statements on an abstract work list; post: every request has a task, the task "
                       "list is closed under get_dependencies, no class twice, every dependency precedes its dependant in self.data (A-NX)" % (nprem, npaths), time_s=total), note


# ----------------------------------------------------------------------------------------------------------------------
# calculate() and get_*_results(): the evaluation loop under the loop rule, the real PhononContributionTaskResults methods executed on class-keyed abstract stores
def calculate_loop_rule(s_tier):
    from vf import looprule
    from contracts import tasks_loop_env as E, tasks_calc_env as V
    tasks = importlib.import_module("cij.core.tasks")
    fn = tasks.PhononContributionTaskList.calculate
    pieces = looprule.Pieces(fn, 0)
    import ast as _ast
    if not isinstance(pieces.loop, _ast.For) or pieces.prefix or [st for st in pieces.suffix if not isinstance(st, _ast.Pass)]:
        raise core.OutsideSubset("calculate() is no longer a single loop over the task list")
    shape = V.map_shape(tasks.PhononContributionTaskResults.get_results_by_strain_keys)
    I_ = z3.IntSort()
    N = z3.Int("N")
    TS, TK = z3.Function("TS", I_, E.Strain), z3.Function("TK", I_, E.Key)
    tc = lambda t: E.CLS(TS(t), TK(t))
    A1, A2 = z3.Function("A1", I_, I_, I_), z3.Function("A2", I_, I_, I_)
    AR = z3.Function("AR", I_, I_)
    HT, HS = z3.Function("HAS_T", E.Cls, z3.BoolSort()), z3.Function("HAS_S", E.Cls, z3.BoolSort())
    GT, GS = z3.Function("GET_T", E.Cls, V.Val), z3.Function("GET_S", E.Cls, V.Val)
    g = z3.Int("g")
    a_, b_, c_ = z3.Int("a_"), z3.Int("b_"), z3.Const("c_", E.Cls)

    def rng(n, *xs):
        return z3.And(*[z3.And(x >= 0, x < n) for x in xs])
    # post-condition of resolve() (obligation C04.resolve.loop_rule) in the vocabulary of the two dependency groups
    resolve_post = [
        z3.ForAll([a_], z3.Implies(rng(N, a_), z3.And(rng(N, E.ORD(a_)), rng(N, E.POS(a_)), E.POS(E.ORD(a_)) == a_, E.ORD(E.POS(a_)) == a_))),
        z3.ForAll([a_, b_], z3.Implies(z3.And(rng(N, a_), V.ISSHEAR(tc(a_)), rng(V.NK1(tc(a_)), b_)),
                                       z3.And(rng(N, A1(a_, b_)), tc(A1(a_, b_)) == V.D1(tc(a_), b_), E.POS(A1(a_, b_)) < E.POS(a_)))),
        z3.ForAll([a_, b_], z3.Implies(z3.And(rng(N, a_), V.ISSHEAR(tc(a_)), rng(V.NK2(tc(a_)), b_)),
                                       z3.And(rng(N, A2(a_, b_)), tc(A2(a_, b_)) == V.D2(tc(a_), b_), E.POS(A2(a_, b_)) < E.POS(a_)))),
        z3.ForAll([a_], z3.Implies(rng(E.NREQ, a_), z3.And(rng(N, AR(a_)), tc(AR(a_)) == E.CLS(E.STRAIN0, E.KEYS(a_))))), N >= 0, E.NREQ >= 0]
    axioms = V.value_axioms() + resolve_post

    def invariant(hasT, getT, hasS, getS, pos):
        return [("stored isothermal values are the canonical values of their classes", z3.ForAll([c_], z3.Implies(hasT(c_), getT(c_) == V.VALT(c_)))),
                ("stored adiabatic values are the canonical values of their classes", z3.ForAll([c_], z3.Implies(hasS(c_), getS(c_) == V.VALS(c_)))),
                ("every task before the current position has both results stored", z3.ForAll([a_], z3.Implies(z3.And(a_ >= 0, a_ < pos), z3.And(hasT(tc(E.ORD(a_))), hasS(tc(E.ORD(a_)))))))]

    def setup(live_pos):
        lv = V.Live(lambda c: HT(c), lambda c: GT(c), lambda c: HS(c), lambda c: GS(c))
        V.LIVE[0] = lv
        mk = lambda which: types.SimpleNamespace()
        resT, resS = tasks.PhononContributionTaskResults.__new__(tasks.PhononContributionTaskResults), tasks.PhononContributionTaskResults.__new__(tasks.PhononContributionTaskResults)
        resT.data, resS.data = V.AbsStore("T"), V.AbsStore("S")
        me = types.SimpleNamespace(data=V.DataSeq(), modulus_isothermal_values=resT, modulus_adiabatic_values=resS, strain=E.AbsStrain(E.STRAIN0), keys=V.KeySeq(0), calculator=None)
        return lv, me
    # every hypothesis as an instance generator: the premises are proved from explicitly chosen instances only (quantifier-free queries: no reliance on the solver's
    # instantiation heuristics, which made the first version of this proof flip between proved and unknown)
    R_bij = lambda a: z3.Implies(rng(N, a), z3.And(rng(N, E.ORD(a)), rng(N, E.POS(a)), E.POS(E.ORD(a)) == a, E.ORD(E.POS(a)) == a))
    R_dep = {1: lambda a, b: z3.Implies(z3.And(rng(N, a), V.ISSHEAR(tc(a)), rng(V.NK1(tc(a)), b)), z3.And(rng(N, A1(a, b)), tc(A1(a, b)) == V.D1(tc(a), b), E.POS(A1(a, b)) < E.POS(a))),
             2: lambda a, b: z3.Implies(z3.And(rng(N, a), V.ISSHEAR(tc(a)), rng(V.NK2(tc(a)), b)), z3.And(rng(N, A2(a, b)), tc(A2(a, b)) == V.D2(tc(a), b), E.POS(A2(a, b)) < E.POS(a)))}
    R_req = lambda a: z3.Implies(rng(E.NREQ, a), z3.And(rng(N, AR(a)), tc(AR(a)) == E.CLS(E.STRAIN0, E.KEYS(a))))
    K2T = lambda c: z3.Implies(HT(c), GT(c) == V.VALT(c))
    K2S = lambda c: z3.Implies(HS(c), GS(c) == V.VALS(c))
    K1 = lambda h, pos: z3.Implies(z3.And(h >= 0, h < pos), z3.And(HT(tc(E.ORD(h))), HS(tc(E.ORD(h)))))
    VAL_ax = lambda c: z3.And(V.NK1(c) >= 0, V.NK2(c) >= 0, z3.If(V.ISSHEAR(c), z3.And(V.VALT(c) == V.SHT(c, V.CAN1(c), V.CAN2(c)), V.VALS(c) == V.SHS(c, V.CAN1(c), V.CAN2(c))),
                                                                   z3.And(V.VALT(c) == V.NST(c), V.VALS(c) == V.NSS(c))))
    CAN_ax = {1: lambda c, j: V.CAN1(c)[j] == z3.If(z3.And(j >= 0, j < V.NK1(c)), V.VALT(V.D1(c, j)), V.DEF),
              2: lambda c, j: V.CAN2(c)[j] == z3.If(z3.And(j >= 0, j < V.NK2(c)), V.VALT(V.D2(c, j)), V.DEF)}
    Aof, Dof, NKof = {1: A1, 2: A2}, {1: V.D1, 2: V.D2}, {1: V.NK1, 2: V.NK2}
    t_here = E.ORD(g)
    c_here = tc(t_here)
    base = [N >= 0, E.NREQ >= 0, rng(N, g), R_bij(g), VAL_ax(c_here)]

    def dep_instances(grp, j, pos):
        """everything known about the j-th dependency of group grp of the task at the current position"""
        dep = Aof[grp](t_here, j)
        return [R_dep[grp](t_here, j), R_bij(dep), R_bij(E.POS(dep)), K1(E.POS(dep), pos), K2T(Dof[grp](c_here, j)), K2S(Dof[grp](c_here, j))]
    total, nprem, npaths = 0.0, 0, 0

    def prove(goal, facts, name):
        r = smt.prove(goal, facts, tier=s_tier, name=name, timeout_ms=20000 if s_tier == "quick" else 90000)
        if r.status == core.REFUTED:
            # the hypotheses enter through hand-picked instances: a model of their negated goal shows that THIS derivation fails, not that the premise is false
            r = core.unknown("z3", "premise not derivable from the instantiated hypotheses (counter-model of the instances: %s)" % str(r.model)[:300], time_s=r.time_s)
        return r

    # ---------------- premise: {Inv(g), 0 <= g < N} body {Inv(g+1)}
    with patched(tasks, PhononContributionTaskParams=V.AbsParams):
        paths = symnp.Paths(list(base), max_paths=64)
        base_facts = len(paths.facts)

        def one_path():
            lv, me = setup(g)

            def on_generic(group, c, j):
                paths.facts.extend([rng(NKof[group](c_here), j)] + dep_instances(group, j, g))
            lv.on_generic = on_generic
            hdr = pieces.loop_header({"self": me})[1]
            if not isinstance(hdr, V.DataSeq):
                raise core.OutsideSubset("calculate() does not loop over self.data")
            try:
                o = pieces.run_body({"self": me}, V.CalcTask(c_here))
            except StopIteration:
                return ("stop", lv, None)
            except AssertionError as e:
                if str(e).startswith("REFUTE:"):
                    return ("refute", lv, str(e)[8:])
                raise
            return ("body", lv, o)
        outs = paths.run(one_path)
    generic_facts = list(paths.facts[base_facts:])
    for pc, (kind, lv, o) in outs:
        npaths += 1
        facts = base + pc + lv.facts + generic_facts
        if kind == "refute":
            return core.refuted("looprule", o, witness_id="calculate-loop:order", replay=native_plumbing_small())
        if kind == "stop":
            # a look-up found nothing: the path must be impossible under the invariant and resolve's post-condition
            r = prove(z3.BoolVal(False), facts, "lookup-succeeds")
            total += r.time_s
            nprem += 1
            if r.status != core.PROVED:
                r.detail = "calculate(): a result is looked up (%s) that need not have been stored yet (StopIteration) | %s" % ([e for e in lv.events if e[0] == "lookup"][-1:], r.detail)
                if r.status == core.REFUTED:
                    r.replay, r.witness_id = native_plumbing_small(), "calculate-loop:lookup"
                return r, None
            continue
        if o.kind != "fall":
            return core.refuted("looprule", "the loop body of calculate() leaves the loop (%s)" % o.kind, witness_id="calculate-loop:body", replay=native_plumbing_small())
        hasT, getT, hasS, getS = lv.has["T"], lv.get["T"], lv.has["S"], lv.get["S"]
        stores = [e for e in lv.events if e[0] == "store"]
        if sorted(e[1] for e in stores) != ["S", "T"]:
            raise core.OutsideSubset("the loop body stores %s" % [e[1] for e in stores])
        shear_path = any(e[0] == "shear_value" for e in lv.events)
        staged = []
        if shear_path:
            # the two dictionaries handed to the solver are the canonical dictionaries of the class: pointwise at an arbitrary position, then extensionality
            toks = [t_ for t_ in z3_array_args([e[3] for e in stores])]
            sk = z3.Int("sk_j")
            for grp in (1, 2):
                cand = [tk for tk in toks if True]
                # the dictionary terms occur as the 2nd / 3rd argument of the stored SHT / SHS values
                for v in [e[3] for e in stores]:
                    if z3.is_app(v) and v.num_args() == 3:
                        tok = v.arg(grp)
                        goal = tok[sk] == (V.CAN1 if grp == 1 else V.CAN2)(c_here)[sk]
                        r = prove(goal, facts + dep_instances(grp, sk, g) + [CAN_ax[grp](c_here, sk)], "the group-%d dictionary is the canonical one (position sk)" % grp)
                        total += r.time_s
                        nprem += 1
                        if r.status != core.PROVED:
                            r.detail = "calculate(), shear task: the dictionary of dependency group %d handed to the solver is not shown to hold the canonical values of exactly that group | %s" % (grp, r.detail)
                            if r.status == core.REFUTED:
                                r.replay, r.witness_id = native_plumbing_small(), "calculate-loop:dict%d" % grp
                            return r, None
                        staged.append(tok == (V.CAN1 if grp == 1 else V.CAN2)(c_here))
        sk_c, sk_h = z3.Const("sk_c", E.Cls), z3.Int("sk_h")
        inst = [K2T(sk_c), K2S(sk_c), K1(sk_h, g)]
        gs = [("after: stored isothermal values canonical", z3.Implies(hasT(sk_c), getT(sk_c) == V.VALT(sk_c))),
              ("after: stored adiabatic values canonical", z3.Implies(hasS(sk_c), getS(sk_c) == V.VALS(sk_c))),
              ("after: every task up to the current position has both results stored", z3.Implies(z3.And(sk_h >= 0, sk_h < g + 1), z3.And(hasT(tc(E.ORD(sk_h))), hasS(tc(E.ORD(sk_h))))))]
        gs += [("after: " + d, b_) for d, b_ in lv.bounds]
        for name, goal in gs:
            r = prove(goal, facts + staged + inst, name)
            total += r.time_s
            nprem += 1
            if r.status != core.PROVED:
                r.detail = "calculate(), %s task: premise `%s` of the loop rule is not valid | %s" % ("shear" if shear_path else "non-shear", name, r.detail)
                if r.status == core.REFUTED:
                    r.replay, r.witness_id = native_plumbing_small(), "calculate-loop:%s" % name[7:40]
                return r, None
    if npaths < 2:
        raise core.OutsideSubset("only %d path(s) through the body of calculate() (shear / non-shear expected)" % npaths)
    # ---------------- exit: {Inv(N)} get_isothermal_results() / get_adiabatic_results()
    post_names = []
    for which, getter, VAL, H, G in (("T", "get_isothermal_results", V.VALT, HT, GT), ("S", "get_adiabatic_results", V.VALS, HS, GS)):
        with patched(tasks, PhononContributionTaskParams=V.AbsParams):
            paths = symnp.Paths([N >= 0, E.NREQ >= 0], max_paths=16)
            nb = len(paths.facts)

            def get_path():
                lv, me = setup(N)

                def on_generic(group, c, j):
                    if group != 0:
                        raise core.OutsideSubset("get_*_results iterates a dependency key list")
                    t = AR(j)
                    paths.facts.extend([rng(E.NREQ, j), R_req(j), R_bij(t), R_bij(E.POS(t)), K1(E.POS(t), N), K2T(E.CLS(E.STRAIN0, E.KEYS(j))), K2S(E.CLS(E.STRAIN0, E.KEYS(j)))])
                lv.on_generic = on_generic
                try:
                    res = getattr(tasks.PhononContributionTaskList, getter)(me)
                except StopIteration:
                    return ("stop", lv, None)
                return ("ok", lv, res)
            outs = paths.run(get_path)
        for pc, (kind, lv, res) in outs:
            facts = [N >= 0, E.NREQ >= 0] + pc + lv.facts + list(paths.facts[nb:])
            if kind == "stop":
                r = prove(z3.BoolVal(False), facts, "request-lookup-succeeds")
                total += r.time_s
                nprem += 1
                if r.status != core.PROVED:
                    r.detail = "%s(): a requested component has no stored result (StopIteration) | %s" % (getter, r.detail)
                    if r.status == core.REFUTED:
                        r.replay, r.witness_id = native_plumbing_small(), "results:" + getter
                    return r, None
                continue
            if not isinstance(res, dict) or len(res) != 1:
                raise core.OutsideSubset("%s() returns %r" % (getter, res))
            (k, v), = res.items()
            jr = [e[3] for e in lv.events if e[0] == "iterate_keys" and e[1] == 0][-1]
            goal = z3.And(k.z == E.KEYS(jr), v.z == VAL(E.CLS(E.STRAIN0, E.KEYS(jr))))
            name = "post: %s()[key r] is the canonical %s value of the class of (strain, key r) -- a function of that class alone" % (getter, "isothermal" if which == "T" else "adiabatic")
            r = prove(goal, facts, name)
            total += r.time_s
            nprem += 1
            post_names.append(name)
            if r.status != core.PROVED:
                r.detail = "%s | %s" % (name, r.detail)
                if r.status == core.REFUTED:
                    r.replay, r.witness_id = native_plumbing_small(), "results:" + getter
                return r, None
    note = {"loop_construct_replaced_by_rule": "for task in self.data (calculate)", "get_results_by_strain_keys_shape": shape, "premises": nprem, "body_paths": npaths,
            "invariant": ["stored isothermal / adiabatic values are the canonical values of their classes", "every task before the current position has both results stored"], "post": post_names,
            "assumes": "post-condition of resolve() (C04.resolve.loop_rule), that get_dependencies() lists exactly (strain, get_modulus_keys()) + (strain_rotated, get_modulus_keys_rotated()) "
                       "(C04.dependencies_are_the_two_key_groups), C01/C02/C03 contracts: contribution values are functions of the task's class and, for shear, of the two dictionaries"}
    return core.proved("z3", "loop rule on calculate() and the real PhononContributionTaskResults methods for task lists and key lists of ANY length: %d premises over %d paths; every look-up of a "
                       "dependency's result succeeds, shear tasks receive the ISOTHERMAL results of exactly their two key groups for both of their values, every stored value is the canonical "
                       "value of its class, and get_isothermal_results() / get_adiabatic_results() answer every request with the canonical value of its class (request-independent)"
                       % (nprem, npaths), time_s=total), note


def z3_array_args(vals):
    return [v.arg(k) for v in vals if z3.is_app(v) and v.num_args() == 3 for k in (1, 2)]


def dependency_groups():
    """[F over the 15 shear keys, several strain fields] get_dependencies() = [(strain, k) for k in get_modulus_keys()] + [(strain_rotated, k) for k in get_modulus_keys_rotated()]"""
    n = 0
    with tasks_env.stubbed() as tk:
        for strain in ([[0.2, 0.3, 0.5]], [[1 / 3, 1 / 3, 1 / 3]], [[0.25, 0.25, 0.5], [0.3, 0.3, 0.4]]):
            for key in [k for k in tasks_env.all_keys() if k.is_shear]:
                t = tk.PhononContributionTask(numpy.array(strain), key, None)
                deps = list(t.get_dependencies())
                want = [(t.calculator.strain, k) for k in t.calculator.get_modulus_keys()] + [(t.calculator.strain_rotated, k) for k in t.calculator.get_modulus_keys_rotated()]
                n += 1
                if len(deps) != len(want) or any(not (numpy.array_equal(a[0], b[0]) and a[1] == b[1]) for a, b in zip(deps, want)):
                    return core.refuted("finite", "get_dependencies() of %r is not the two key groups the evaluation looks up" % (key,), witness_id="depgroups%r" % (key,), replay={"reproduced": True})
            for key in [k for k in tasks_env.all_keys() if not k.is_shear]:
                if list(tk.PhononContributionTask(numpy.array(strain), key, None).get_dependencies()):
                    return core.refuted("finite", "non-shear key %r has dependencies" % (key,), witness_id="depgroups%r" % (key,), replay={"reproduced": True})
    return core.proved("finite", "%d (strain field, shear key) pairs: the dependencies are exactly the two groups calculate() looks up; non-shear keys have none" % n)


def resolve_traces(seed=0, n=8):
    """engine self-check and vacuity guard of the loop rule: resolve's own prefix / body / suffix, executed by CPython on the REAL classes (contributions stubbed) for
    concrete request lists, reproduce resolve() itself, and the invariant of the loop-rule obligation (ghost witnesses found by search) holds at every loop head"""
    from vf import looprule
    rnd = random.Random(seed)
    keys = tasks_env.all_keys()
    heads, bad = 0, []
    with tasks_env.stubbed() as tk:
        fn = tk.PhononContributionTaskList.resolve
        P = tk.PhononContributionTaskParams
        for trial in range(n):
            req = rnd.sample(keys, rnd.randint(1, 7)) + ([keys[0]] if trial % 3 == 0 else [])
            strain = numpy.array([[0.2, 0.3, 0.5], [0.25, 0.35, 0.4]] if trial % 2 else [[1 / 3, 1 / 3, 1 / 3]])
            ref = tk.PhononContributionTaskList(types.SimpleNamespace())
            ref.resolve(strain, list(req))
            me = tk.PhononContributionTaskList(types.SimpleNamespace())
            pc = looprule.Pieces(fn, 0)
            env = pc.run(pc.prefix, {"self": me, "strain": strain, "keys": list(req)}).env
            qn = [k for k, v in env.items() if isinstance(v, list) and v and isinstance(v[0], tuple) and len(v[0]) == 3][0]
            tn = [k for k, v in env.items() if isinstance(v, list) and v == []][0]
            gn = [k for k, v in env.items() if type(v).__name__ == "DiGraph"][0]
            while True:
                q, tasks_, graph = env[qn], env[tn], env[gn]
                heads += 1
                cls = lambda s_, k_: P.create(s_, k_)
                deps = lambda t: list(t.get_dependencies())
                for a in range(len(tasks_)):
                    for b in range(a):
                        if tasks_[a].task_params == tasks_[b].task_params:
                            bad.append("two tasks of one class")
                for (s_, k_, d) in q:
                    if d is None:
                        if not (s_ is strain and any(k_ == r for r in req)):
                            bad.append("pending entry without dependant is not a request")
                    elif not (0 <= d < len(tasks_) and any(cls(s_, k_) == cls(ds, dk) for ds, dk in deps(tasks_[d]))):
                        bad.append("pending entry is not a dependency of its dependant")
                for t, task in enumerate(tasks_):
                    for ds, dk in deps(task):
                        c = cls(ds, dk)
                        pend = any(d == t and cls(s_, k_) == c for (s_, k_, d) in q)
                        res = any(tasks_[a].task_params == c and graph.has_edge(a, t) for a in range(len(tasks_)))
                        if not (pend or res):
                            bad.append("a dependency is neither pending nor resolved")
                for r in req:
                    c = cls(strain, r)
                    if not (any(d is None and cls(s_, k_) == c for (s_, k_, d) in q) or any(t.task_params == c for t in tasks_)):
                        bad.append("a request is neither pending nor has a task")
                for a, b in graph.edges():
                    if not (rank(tasks_[a].key) < rank(tasks_[b].key)):
                        bad.append("an edge does not raise the rank")
                if sorted(graph.nodes()) != list(range(len(tasks_))):
                    bad.append("graph nodes are not the task indices")
                if bad:
                    return heads, bad
                _, test = pc.loop_header(env)
                if not test:
                    break
                env = pc.run_body(env).env
            pc.run_suffix(env)
            if [t.key for t in me.data] != [t.key for t in ref.data] or me.keys != ref.keys:
                bad.append("prefix + iterated body + suffix differ from resolve() itself for request %s" % [repr(k) for k in req])
                return heads, bad
    return heads, bad


def native_plumbing_values():
    """native replay for the evaluation loop: on the real classes (contributions = symbolic atoms per class) every requested component's isothermal AND adiabatic term equals
    the term it gets when requested alone -- reduced key lists with the shear key last / first, isotropic and generic strain fields"""
    try:
        keys = tasks_env.all_keys()
        from cij.util import c_
        rnd = random.Random(4)
        reqs = [[c_(1, 1), c_(1, 2), c_(4, 4)], [c_(4, 4), c_(1, 1), c_(1, 2)], [c_(2, 2), c_(2, 5)], [c_(1, 2), c_(4, 4)], [c_(1, 1), c_(1, 4)], [c_(6, 6), c_(3, 3), c_(1, 3), c_(5, 6)]]
        reqs += [rnd.sample(keys, rnd.randint(2, 7)) for _ in range(6)]
        fields = [[[1 / 3, 1 / 3, 1 / 3]], [[0.2, 0.3, 0.5], [0.25, 0.35, 0.4]], [[0.25, 0.25, 0.5]]]
        alone = {}
        n = 0
        for fi, strain in enumerate(fields):
            for req in reqs:
                tl, iso, adi = tasks_env.run_tasks(strain, req)
                for k in req:
                    if (fi, k) not in alone:
                        _, i1, a1 = tasks_env.run_tasks(strain, [k])
                        alone[(fi, k)] = (str(z3.simplify(symnp.term(numpy.ravel(i1[k])[0]))), str(z3.simplify(symnp.term(numpy.ravel(a1[k])[0]))))
                    got = (str(z3.simplify(symnp.term(numpy.ravel(iso[k])[0]))), str(z3.simplify(symnp.term(numpy.ravel(adi[k])[0]))))
                    n += 1
                    if got != alone[(fi, k)]:
                        which = "isothermal" if got[0] != alone[(fi, k)][0] else "adiabatic"
                        return {"reproduced": True, "strain_field": strain, "request": [repr(x) for x in req], "component": repr(k),
                                "observed": "%s value in this request: %s" % (which, got[0 if which == "isothermal" else 1][:200]),
                                "expected": "as when requested alone: %s" % alone[(fi, k)][0 if which == "isothermal" else 1][:200]}
    except Exception as e:
        return {"reproduced": True, "raised": repr(e)[:300]}
    return {"reproduced": False, "evaluations": n, "note": "%d (strain field, request, component) cases on the real scheduler: isothermal and adiabatic terms equal those of the singleton request" % n}


def native_plumbing_small():
    """native replay for the scheduler: small request lists in several orders on the real classes (stubbed contributions): every request answered, dependencies first"""
    try:
        keys = tasks_env.all_keys()
        rnd = random.Random(2)
        for trial in range(12):
            req = rnd.sample(keys, rnd.randint(1, 6))
            strain = [[0.2, 0.3, 0.5], [0.25, 0.35, 0.4]] if trial % 2 else [[1 / 3, 1 / 3, 1 / 3]]
            tl, iso, adi = tasks_env.run_tasks(strain, req)
            if set(iso) != set(req) or set(adi) != set(req):
                return {"reproduced": True, "request": [repr(k) for k in req], "observed": "answered keys %s" % sorted(repr(k) for k in iso)}
            seen = []
            for t in tl.data:
                for st, k in t.get_dependencies():
                    p = tl.data[0].task_params.__class__.create(st, k)
                    if not any(q == p for q in seen):
                        return {"reproduced": True, "request": [repr(k) for k in req], "observed": "task %r is scheduled before its dependency %r" % (t.key, k)}
                seen.append(t.task_params)
    except Exception as e:
        return {"reproduced": True, "raised": repr(e)[:300]}
    return {"reproduced": False, "evaluations": 12, "note": "12 random request lists on the real scheduler: every request answered, dependencies scheduled first"}


def coeffs(sc):
    """(coefficient of A, P, Gap) of a linear form"""
    z = sc.z if isinstance(sc, Sc) else symnp.term(sc)
    out = []
    zero = [(A_, z3.RealVal(0)), (P_, z3.RealVal(0)), (G_, z3.RealVal(0))]
    base = z3.simplify(z3.substitute(z, *zero))
    for v in (A_, P_, G_):
        one = [(w, z3.RealVal(1 if w.eq(v) else 0)) for w in (A_, P_, G_)]
        c = z3.simplify(z3.substitute(z, *one) - base)
        out.append(float(c.as_fraction()) if z3.is_rational_value(c) else None)
    return out, (float(base.as_fraction()) if z3.is_rational_value(base) else None)


def run(s):
    tasks = importlib.import_module("cij.core.tasks")
    from cij.util import c_
    tier = s.tier
    rnd = random.Random(s.seed)
    keys = tasks_env.all_keys()
    shear_keys = [k for k in keys if k.is_shear]
    s.trust("z3 5.1", "vf/symnp.py", "networkx.topological_sort (A-NX)", "numpy.linalg.eigh output (checked in C03)")
    s.assume("A-NX: networkx.topological_sort returns a topological order of a DAG",
             "A-ALLCLOSE: strain fields within numpy.allclose tolerance are identified as one task",
             "C01/C02 contracts of the non-shear contributions (c_ii = A/(5 e_i e_j)+P/(3 e_i), c_ij = A/(15 e_i e_j)+P, adiabatic gap G/(9 e_i e_j))",
             "A-FP")
    s.undecided_part("termination of the work loop of resolve() (each pop replaces an entry by entries of strictly smaller rank: multiset order, not mechanised); task identity is the "
                     "equivalence class of the parameters (A-ALLCLOSE: numpy.allclose treated as transitive, hash consistent with it); the values of the contributions enter the "
                     "evaluation loop as uninterpreted functions of the class (non-shear: C01/C02) and of the class and the two result dictionaries (shear: C03)")

    # ---------------- L1: well-founded dependency relation [F over the 15 shear keys; strains generic]
    def l1():
        for strain in ([[0.2, 0.3, 0.5]], [[1 / 3, 1 / 3, 1 / 3]], [[0.25, 0.25, 0.5]]):
            for key in shear_keys:
                with tasks_env.stubbed() as tk:
                    t = tk.PhononContributionTask(numpy.array(strain), key, None)
                    deps = t.get_dependencies()
                if not deps:
                    return core.refuted("finite", "shear key %r has no dependencies" % (key,), witness_id="nodeps%r" % (key,), replay={"reproduced": True})
                for st, k in deps:
                    if rank(k) >= rank(key):
                        return core.refuted("finite", "%r (rank %d) depends on %r (rank %d): no well-founded order" % (key, rank(key), k, rank(k)),
                                            witness_id="rank%r%r" % (key, k), replay={"reproduced": True})
            for key in keys:
                if not key.is_shear:
                    with tasks_env.stubbed() as tk:
                        if tk.PhononContributionTask(numpy.array(strain), key, None).get_dependencies() != []:
                            return core.refuted("finite", "non-shear key %r has dependencies" % (key,), witness_id="nonshear-deps", replay={"reproduced": True})
        return core.proved("finite", "rank 0 = non-shear, 1 = c44 c55 c66, 2 = mixed: every dependency of a shear key has strictly smaller rank "
                                     "(depth <= 2, acyclic) for 15 keys x 3 strain fields")
    s.oblige("C04.L1.dependency_rank_decreases", l1, [T + "PhononContributionTask.get_dependencies", "shear.get_modulus_keys", "shear.get_modulus_keys_rotated"],
             kind="finite")

    # ---------------- L2: parameter normalisation on a symbolic strain array of symbolic length
    def l2(key):
        return lambda: l2_obligation(tasks, key, tier)
    for key in keys:
        if not key.is_shear:
            s.oblige("C04.L2.normalised_fractions[c%d%d]" % key.voigt, l2(key), [T + "PhononContributionTaskParams._make_param_by_strain_key"])

    def _unused_l2(key):
        ntv = Dim("ntv")
        E = SymArr.atom("e", (ntv, 3), lambda idx, v: v > 0)

        def ob():
            with patched(tasks, numpy=SymNumpy()):
                def thunk():
                    r = tasks.PhononContributionTaskParams._make_param_by_strain_key(E, key)
                    if not (isinstance(r, tuple) and len(r) == 2 and all(symnp.is_arr(x) for x in r)):
                        raise symnp.ShapeObligation("result is not a pair of arrays")
                    return SymNumpy().stack_list(list(r))
                i, _, k, _ = key.standard
                tot = lambda v: E.elem((v, z3.IntVal(0))) + E.elem((v, z3.IntVal(1))) + E.elem((v, z3.IntVal(2)))
                spec = SymArr((2, ntv), lambda idx: z3.If(idx[0] == 0, E.elem((idx[1], z3.IntVal(i - 1))), E.elem((idx[1], z3.IntVal(k - 1)))) / tot(idx[1]))
                r = symnp.prove_code_equals(thunk, spec, [], tier=tier, name="make_param%r" % (key,))
                if r.status == core.REFUTED:
                    r.replay = native_l2(tasks, key)
                    r.witness_id = "make_param%r" % (key,)
                return r
        return ob

    def l2_shear():
        for key in shear_keys:
            st = numpy.array([[0.2, 0.3, 0.5]])
            r = tasks.PhononContributionTaskParams._make_param_by_strain_key(st, key)
            if not (isinstance(r, tuple) and r[0] is st and r[1] == key):
                return core.refuted("finite", "shear parameters of %r are not (strain, key)" % (key,), witness_id="shearparam", replay={"reproduced": True})
            p = tasks.PhononContributionTaskParams.create(st, key)
            if p.calc_type is not key.calc_type:
                return core.refuted("finite", "calc_type of %r" % (key,), witness_id="calctype", replay={"reproduced": True})
        return core.proved("finite", "shear keys keep (strain, key); create() stores key.calc_type")
    s.oblige("C04.L2.shear_params_and_create", l2_shear, [T + "PhononContributionTaskParams.create"], kind="finite")

    # ---------------- equality / hash contract [F]
    def eq_contract():
        P = tasks.PhononContributionTaskParams
        s1, s2 = numpy.array([[0.2, 0.3, 0.5], [0.25, 0.35, 0.4]]), numpy.array([[0.3, 0.2, 0.5], [0.35, 0.25, 0.4]])
        for k1 in keys:
            for k2 in keys:
                for sa, sb in ((s1, s1), (s1, s1.copy()), (s1, s2)):
                    a, b = P.create(sa, k1), P.create(sb, k2)
                    same_params = (k1.calc_type == k2.calc_type) and (
                        (k1 == k2 and numpy.allclose(sa, sb)) if k1.is_shear else
                        numpy.allclose(numpy.array(a.params), numpy.array(b.params)))
                    got = (a == b)
                    if bool(got) != bool(same_params) or bool(b == a) != bool(got):
                        return core.refuted("finite", "PhononContributionTaskParams equality of (%r,%s) and (%r,%s) is %s" % (
                            k1, "s1", k2, "s1" if sb is not s2 else "s2", got), witness_id="eq%r%r" % (k1, k2), replay={"reproduced": True})
                    if got and hash(a) != hash(b):
                        return core.refuted("finite", "equal parameters hash differently (%r)" % (k1,), witness_id="hash%r" % (k1,), replay={"reproduced": True})
        return core.proved("finite", "21x21 keys x {same, copied, different} strain fields: == is symmetric, true exactly for same type, same "
                                     "(shear) key and equal strains / equal normalised fractions; equal => equal hash")
    s.oblige("C04.task_params_equality_contract", eq_contract, [T + "PhononContributionTaskParams.__eq__", T + "PhononContributionTaskParams.__hash__"],
             kind="finite")

    # ---------------- L3: isotropy and axis covariance for all (A, P, gap)
    def l3_isotropy():
        n = 0
        for e in ([1 / 3, 1 / 3, 1 / 3], [1.0, 1.0, 1.0], [0.2, 0.2, 0.2]):
            strain = [list(e), list(e)]
            tl, iso, adi = assemble(strain, keys)
            for which, res in (("isothermal", iso), ("adiabatic", adi)):
                val = {k: coeffs(res[k][0])[0] for k in keys}
                g = lambda a, b: numpy.array(val[c_(a, b)], dtype=float)
                checks = [("c11=c22", g(1, 1) - g(2, 2)), ("c11=c33", g(1, 1) - g(3, 3)), ("c12=c13", g(1, 2) - g(1, 3)), ("c12=c23", g(1, 2) - g(2, 3)),
                          ("c44=c55", g(4, 4) - g(5, 5)), ("c44=c66", g(4, 4) - g(6, 6)), ("c44=(c11-c12)/2", g(4, 4) - (g(1, 1) - g(1, 2)) / 2)]
                for k in keys:
                    if k.voigt not in ((1, 1), (2, 2), (3, 3), (1, 2), (1, 3), (2, 3), (4, 4), (5, 5), (6, 6)):
                        checks.append(("c%d%d=0" % k.voigt, g(*k.voigt)))
                scale = numpy.abs(g(1, 1)) + 1e-300
                for label, d in checks:
                    n += 1
                    if numpy.any(numpy.abs(d) > 1e-10 * scale):
                        return core.refuted("z3", "equal strains %r, %s tensor: %s fails; coefficient difference (A,P,gap) = %s" % (e, which, label, d.tolist()),
                                            witness_id="isotropy:" + label, replay={"reproduced": True, "strain": e})
        return core.proved("linear-forms", "%d coefficient identities: with equal strains the assembled tensor is isotropic for all A, P, gap" % n)
    s.oblige("C04.L3.isotropic_for_equal_strains", l3_isotropy, [T + "PhononContributionTaskList.calculate", "shear.get_target_elastic_modulus"])

    def l3_covariance():
        n = 0
        # generic fields and fields with special structure a data-dependent shortcut could key on: the same anisotropic triple at every volume, a first row that is
        # isotropic while later rows are not, two axes equal, nearly cubic
        fields = [[[0.2, 0.3, 0.5], [0.25, 0.35, 0.4]], [[0.1, 0.1, 0.8], [0.3, 0.3, 0.4]], [[0.6, 0.3, 0.1], [0.5, 0.2, 0.3]],
                  [[0.2, 0.3, 0.5], [0.2, 0.3, 0.5]], [[1 / 3, 1 / 3, 1 / 3], [0.3, 0.32, 0.38]], [[0.3331, 0.3334, 0.3335], [0.3329, 0.3334, 0.3337]]]
        if tier == "thorough":
            for _ in range(10):
                fields.append([[rnd.uniform(0.05, 0.9) for _ in range(3)] for _ in range(2)])
        for strain in fields:
            base = assemble(strain, keys)
            scale = max(abs(x) for k in keys for row in range(2) for x in coeffs(base[1][k][row])[0])   # magnitude of the tensor
            for perm in itertools.permutations(range(3)):
                if perm == (0, 1, 2):
                    continue
                st2 = [[row[perm[a]] for a in range(3)] for row in strain]
                other = assemble(st2, keys)
                for which in (1, 2):
                    for key in keys:
                        a, b, c, d = key.standard
                        src = c_(perm[a - 1] + 1, perm[b - 1] + 1, perm[c - 1] + 1, perm[d - 1] + 1)
                        for row in range(2):
                            x = numpy.array(coeffs(other[which][key][row])[0], dtype=float)
                            y = numpy.array(coeffs(base[which][src][row])[0], dtype=float)
                            n += 1
                            if numpy.any(numpy.abs(x - y) > 1e-10 * scale):
                                return core.refuted("z3", "relabelling axes by %s: %r of the relabelled crystal %s differs from %r of the original %s"
                                                    % (perm, key, x.tolist(), src, y.tolist()), witness_id="covariance:%r%r" % (perm, key),
                                                    replay={"reproduced": True, "strain": strain, "perm": perm})
        return core.proved("linear-forms", "%d coefficient identities over %d strain fields x 5 relabellings x 21 keys x {isothermal, adiabatic}" % (n, len(fields)))
    s.oblige("C04.L3.axis_relabelling_covariance", l3_covariance, [T + "PhononContributionTaskList.calculate", "shear.strain_rotated"])

    s.canary("C04.canary.isotropy_with_c44=(c11+c12)/2", lambda: canary_iso(keys, c_))
    # ---------------- plumbing: bounded stand-in with symbolic values
    plumbing(s, tasks, keys, rnd)
    def resolve_ob():
        out = resolve_loop_rule(tier)
        if isinstance(out, tuple):
            s.notes["resolve_loop_rule"] = out[1]
            return out[0]
        return out
    s.oblige("C04.resolve.loop_rule(all request lists)", resolve_ob, [T + "PhononContributionTaskList.resolve"], fallback=native_plumbing_small)
    try:
        heads, bad = resolve_traces(s.seed, 8 if tier == "quick" else 60)
        s.crosscheck("looprule pieces of resolve vs resolve() on the real classes; loop-rule invariant evaluated at %d concrete loop heads (vacuity guard)" % heads, heads, bad)
        s.notes["traces_validated_against_impl"] = heads
    except core.OutsideSubset:
        pass
    except Exception as e:
        s.notes["resolve_traces"] = "not applicable to this source: %r" % (e,)

    def calculate_ob():
        out = calculate_loop_rule(tier)
        if isinstance(out, tuple):
            if out[1] is not None:
                s.notes["calculate_loop_rule"] = out[1]
            return out[0]
        return out
    s.oblige("C04.calculate_and_results.loop_rule(all task lists)", calculate_ob, [T + "PhononContributionTaskList.calculate", T + "PhononContributionTaskList.get_isothermal_results",
                                                                                 T + "PhononContributionTaskList.get_adiabatic_results", T + "PhononContributionTaskResults.get_results_by_strain_keys",
                                                                                 T + "PhononContributionTaskResults.__getitem__", T + "PhononContributionTaskResults.__setitem__"],
             fallback=lambda: (lambda a, b: a if a.get("reproduced") else b)(native_plumbing_small(), native_plumbing_values()))
    s.oblige("C04.dependencies_are_the_two_key_groups", dependency_groups, [T + "PhononContributionTask.get_dependencies"], kind="finite")

    # the isotropy / covariance lemmas above ASSUME the C01 contract of the non-shear classes (prefactors 1/(5 e_i e_j), 1/(15 e_i e_j), 1/(3 e); which strain
    # fraction goes with which axis).  nonshear.py is one of this property's anchored files: the assumption is discharged here on the real classes by the
    # corresponding obligations of C01 (same obligation code, registered under this property)
    from props import C01
    core.SubSession(s, lambda n: n.replace("C01.", "C04.nonshear_contract."), lambda n: ".prefactors" in n or ".mode_gamma[" in n or "value_isothermal" in n
                            or n.endswith(".chain")).run(C01)
    # "every requested component receives a value": the request of a calculation is EVERY component the static table lists -- also one whose static value is zero at every
    # volume (its phonon part is not zero when the axes strain differently)
    def request_is_every_column():
        from contracts.nonshear_env import duck_of
        from cij.util import c_
        cal = importlib.import_module("cij.core.calculator")
        fm = importlib.import_module("cij.core.full_modulus")
        for cols in ([(1, 1), (2, 2), (3, 3), (1, 2), (1, 3), (2, 3), (4, 4), (5, 5), (6, 6), (1, 4), (4, 5)], [(4, 5), (1, 1), (3, 6)], [(k, l) for k in range(1, 7) for l in range(k, 7)]):
            keys = [c_(i, j) for i, j in cols]
            vols = [types.SimpleNamespace(volume=600.0 - 20 * v, static_elastic_modulus={k: (0.0 if (k.voigt in ((1, 4), (4, 5), (3, 6)) or n_ % 4 == 3) else 100.0 + n_ + v) for n_, k in enumerate(keys)})
                    for v in range(3)]
            me = duck_of(cal.Calculator, elast_data=types.SimpleNamespace(volumes=vols))
            got = list(me.modulus_keys)
            if got != keys:
                return core.refuted("callsite", "static table with the columns %s (some of them zero at every volume): Calculator.modulus_keys = %s" % (["c%d%d" % k.voigt for k in keys], ["c%d%d" % k.voigt for k in got]),
                                    witness_id="request-keys", replay={"reproduced": True, "columns": ["c%d%d" % k.voigt for k in keys], "modulus_keys": ["c%d%d" % k.voigt for k in got]})
            full = duck_of(fm.FullThermalElasticModulus, calculator=me)
            if list(full.modulus_keys) != keys:
                return core.refuted("callsite", "FullThermalElasticModulus.modulus_keys differs from the calculator's list", witness_id="request-keys-fm", replay={"reproduced": True})
        return core.proved("callsite", "Calculator.modulus_keys and FullThermalElasticModulus.modulus_keys are the columns of the static table, in order, zero-valued ones included")
    s.oblige("C04.request_is_every_tabulated_component", request_is_every_column, ["calculator.Calculator.modulus_keys", "full_modulus.FullThermalElasticModulus.modulus_keys"], kind="finite")
    s.min_obligations = 11


def l2_obligation(tasks, key, tier):
    """_make_param_by_strain_key(strain, key) = (e_i / sum e, e_k / sum e) on a symbolic strain array of symbolic length"""
    ntv = Dim("ntv_l2")
    E = SymArr.atom("e_l2", (ntv, 3), lambda idx, v: v > 0)
    with patched(tasks, numpy=SymNumpy()):
        def thunk():
            r = tasks.PhononContributionTaskParams._make_param_by_strain_key(E, key)
            if not (isinstance(r, tuple) and len(r) == 2 and all(symnp.is_arr(x) for x in r)):
                raise symnp.ShapeObligation("result is not a pair of arrays")
            return SymNumpy().stack_list(list(r))
        i, _, k, _ = key.standard
        tot = lambda v: E.elem((v, z3.IntVal(0))) + E.elem((v, z3.IntVal(1))) + E.elem((v, z3.IntVal(2)))
        spec = SymArr((2, ntv), lambda idx: z3.If(idx[0] == 0, E.elem((idx[1], z3.IntVal(i - 1))), E.elem((idx[1], z3.IntVal(k - 1)))) / tot(idx[1]))
        r = symnp.prove_code_equals(thunk, spec, [], tier=tier, name="make_param%r" % (key,))
        if r.status == core.REFUTED:
            r.replay = native_l2(tasks, key)
            r.witness_id = "make_param%r" % (key,)
        return r


def canary_iso(keys, c_):
    tl, iso, adi = assemble([[1 / 3] * 3], keys)
    g = lambda a, b: numpy.array(coeffs(iso[c_(a, b)][0])[0], dtype=float)
    d = g(4, 4) - (g(1, 1) + g(1, 2)) / 2
    if numpy.any(numpy.abs(d) > 1e-10 * numpy.abs(g(1, 1))):
        return core.refuted("linear-forms", "perturbed isotropy relation refuted")
    return core.proved("linear-forms", "perturbed relation holds?!")


def native_l2(tasks, key):
    st = numpy.array([[1.0, 1.0, 1.0], [0.2, 0.3, 0.5], [2.0, 1.0, 1.0]])
    got = tasks.PhononContributionTaskParams._make_param_by_strain_key(st, key)
    i, _, k, _ = key.standard
    want = (st[:, i - 1] / st.sum(axis=1), st[:, k - 1] / st.sum(axis=1))
    bad = not (numpy.allclose(got[0], want[0]) and numpy.allclose(got[1], want[1]))
    return {"reproduced": bool(bad), "strain": st.tolist(), "observed": [numpy.asarray(g).tolist() for g in got], "expected": [w.tolist() for w in want]}


def plumbing(s, tasks, keys, rnd):
    """real resolve/calculate/get_*_results, non-shear contributions = atoms indexed by (type, strain pair)"""
    fields = {"generic": [[0.2, 0.3, 0.5], [0.25, 0.35, 0.4]], "two-equal": [[0.25, 0.25, 0.5], [0.3, 0.3, 0.4]],
              "all-equal": [[1 / 3, 1 / 3, 1 / 3]] * 2, "un-normalised": [[1.0, 1.0, 1.0], [1.0, 1.0, 1.0]], "un-normalised-generic": [[1.0, 2.0, 3.0], [2.0, 1.0, 1.5]]}
    n_random = 60 if s.tier == "quick" else 4000
    evals, fails, distinct = 0, [], set()

    def check(strain, req, ref, label, tl=None):
        """returns failure dict or None"""
        nonlocal evals
        evals += 1
        try:
            if tl is None:
                with tasks_env.stubbed() as tk:
                    tl = tk.PhononContributionTaskList(types.SimpleNamespace())
                    tl.resolve(numpy.asarray(strain, dtype=float), list(req))
                    tl.calculate()
                    iso, adi = tl.get_isothermal_results(), tl.get_adiabatic_results()
            else:
                with tasks_env.stubbed():
                    tl.resolve(numpy.asarray(strain, dtype=float), list(req))
                    tl.calculate()
                    iso, adi = tl.get_isothermal_results(), tl.get_adiabatic_results()
        except Exception as e:
            return {"observed": "raises %r" % (e,), "expected": "every requested key receives a value"}
        for k in req:
            if k not in iso or k not in adi:
                return {"observed": "no value for %r" % (k,), "expected": "every requested key receives a value"}
            for which, res in (("T", iso), ("S", adi)):
                want = ref[which][k]
                r = smt.prove(symnp.term(res[k]) == want, timeout_ms=3000, fallback=False)
                if r.status != core.PROVED:
                    return {"observed": "%s value of %r differs from the value it has when requested alone" % (which, k), "expected": str(want)[:200]}
        # closed under dependencies and topologically ordered
        pos = {id(t): n for n, t in enumerate(tl.data)}
        for t in tl.data:
            for st, k in t.get_dependencies():
                p = tasks.PhononContributionTaskParams.create(st, k)
                idx = [n for n, u in enumerate(tl.data) if u.task_params == p]
                if not idx:
                    return {"observed": "dependency %r of %r is not in the task list" % (k, t.key), "expected": "closed under dependencies"}
                if min(idx) >= pos[id(t)]:
                    return {"observed": "%r is evaluated before its dependency %r" % (t.key, k), "expected": "topological order"}
        return None

    for fname, strain in fields.items():
        # reference: each key requested alone
        ref = {"T": {}, "S": {}}
        ok = True
        for k in keys:
            try:
                with tasks_env.stubbed() as tk:
                    tl = tk.PhononContributionTaskList(types.SimpleNamespace())
                    tl.resolve(numpy.asarray(strain, dtype=float), [k])
                    tl.calculate()
                    ref["T"][k] = symnp.term(tl.get_isothermal_results()[k])
                    ref["S"][k] = symnp.term(tl.get_adiabatic_results()[k])
                evals += 1
            except Exception as e:
                fails.append({"witness_id": "single:%s:%r" % (fname, k), "input": {"strain": strain, "request": [repr(k)]}, "observed": "raises %r" % (e,),
                              "expected": "a value"})
                ok = False
                break
        if not ok:
            break
        reqs = []
        if fname in ("generic", "two-equal"):
            reqs += [list(p) for p in itertools.combinations(keys, 2)]               # all 210 pairs
            reqs += [[k] + [q for q in keys if q != k] for k in keys]                 # each key first, full set
        for _ in range(n_random if fname == "generic" else max(10, n_random // 6)):
            sub = rnd.sample(keys, rnd.randint(1, 21))
            reqs.append(sub)
        full = list(keys)
        for _ in range(10 if s.tier == "quick" else 50):
            rnd.shuffle(full)
            reqs.append(list(full))
        for req in reqs:
            sig = (fname, tuple(k.voigt for k in req))
            if sig in distinct:
                continue
            distinct.add(sig)
            f = check(strain, req, ref, fname)
            if f:
                f.update({"witness_id": "plumbing:%s:%s" % (fname, [k.voigt for k in req][:6]), "input": {"strain": strain, "request": [repr(k) for k in req]}})
                fails.append(f)
                break
        if fails:
            break
    # history: one list object asked again with a different strain field must give what a fresh list gives
    if not fails:
        seq = [fields["generic"], [[0.3, 0.2, 0.5], [0.35, 0.25, 0.4]], fields["all-equal"], fields["generic"]]
        with tasks_env.stubbed() as tk:
            shared = tk.PhononContributionTaskList(types.SimpleNamespace())
        for step, strain in enumerate(seq):
            ref = {"T": {}, "S": {}}
            with tasks_env.stubbed() as tk:
                fresh = tk.PhononContributionTaskList(types.SimpleNamespace())
                fresh.resolve(numpy.asarray(strain, dtype=float), list(keys))
                fresh.calculate()
                for k in keys:
                    ref["T"][k] = symnp.term(fresh.get_isothermal_results()[k])
                    ref["S"][k] = symnp.term(fresh.get_adiabatic_results()[k])
            f = check(strain, keys, ref, "history", tl=shared)
            distinct.add(("history", step))
            if f:
                f.update({"witness_id": "history:step%d" % step, "input": {"history": "one task list, resolve+calculate with strain fields %r in turn" % (seq[:step + 1],)}})
                fails.append(f)
                break
    s.bounded_standin("C04.plumbing(request sets, orders, histories)",
                      "strain fields %s; all 21 singletons, all 210 pairs and 21 'key first' full orders (generic, two-equal), %d random subsets x orders, "
                      "full set in shuffled orders, one 4-step history on a shared task list; values symbolic (atoms per (type, strain pair))"
                      % (sorted(fields), n_random), evals, len(distinct), fails,
                      [T + "PhononContributionTaskList.resolve", T + "PhononContributionTaskList.calculate", T + "PhononContributionTaskList.get_isothermal_results",
                       T + "PhononContributionTaskList.get_adiabatic_results", T + "PhononContributionTaskResults.__getitem__",
                       T + "PhononContributionTaskResults.__setitem__", T + "PhononContributionTaskResults.get_results_by_strain_keys"])


MANIFEST = {
    "engine": "symnp", "category": "other",
    "technique": "contract-based deductive verification of the lemmas (rank function, normalisation on symbolic arrays via z3, equality "
                 "contract, isotropy/covariance as coefficient identities for all contract parameters) and of resolve()'s work-list loop (Hoare loop rule: "
                 "the method's own statements executed on an abstract work list, invariant premises by z3) and of calculate() / get_*_results() (loop rule, the real "
                 "results-store methods executed on class-keyed abstract stores, quantifier-free premises); bounded run-time contracts in addition",
    "text": "Discharged: (L1) every dependency of a shear key has strictly smaller rank (acyclic, depth <= 2) on the real get_dependencies "
            "for all 15 keys; (L2) _make_param_by_strain_key on a symbolic strain array of symbolic length returns e_i/sum e, e_k/sum e for "
            "the six non-shear keys; the equality/hash contract of task parameters over 21x21 keys; (L3) with the C01/C02 contracts "
            "(A, P, gap symbolic) for the non-shear inputs and the real scheduler + shear solver on top, the assembled tensor is isotropic for "
            "equal strains and covariant under the 5 axis relabellings for all A, P, gap (coefficient identities) at enumerated strain fields; "
            "(resolve) prefix, loop body and suffix of the real method are cut from its current AST and executed on an abstract work list / task list / graph "
            "(tasks = classes of their parameters): initialisation, preservation over all four paths of the body and exit of a seven-clause invariant are "
            "discharged for request lists, strain fields and dependency lists of any length -- every request has a task, no class twice, the list is closed "
            "under get_dependencies, every edge raises the rank (acyclic) and, by networkx's contract, every dependency precedes its dependant in self.data; the "
            "invariant is also evaluated at every loop head of concrete runs of the same pieces on the real classes (vacuity guard, pieces = function); "
            "(calculate) the evaluation loop and the real __setitem__ / __getitem__ / get_results_by_strain_keys run on class-keyed abstract stores: from resolve's "
            "post-condition every look-up of a dependency's result succeeds, a shear task receives the isothermal results of exactly its two key groups for both of its "
            "values, every stored value is the canonical value of its class (defined by recursion on the rank) and get_isothermal_results / get_adiabatic_results answer "
            "request r with the canonical value of the class of (strain, key r) -- completeness and request-independence for all request lists; the C01 "
            "contract the lemmas assume is discharged on the real non-shear classes. Bounded as well: completeness, request-independence (value identical to the singleton request), closure and topological order over "
            "enumerated request sets/orders/histories with symbolic values.",
    "note": "Task identity is abstracted to an equivalence class (A-ALLCLOSE: allclose treated as transitive); termination of the work loop is not mechanised; contribution "
            "values are uninterpreted functions of the class (C01-C03 contracts). Bounded stand-in: "
            "210 pairs + 42 full orders + 60 (quick) / 4000 (thorough) random requests per generic field, 5 strain fields, one 4-step "
            "history. Isotropy/covariance are unbounded in A, P, gap but enumerated in the strain field (3 quick / 13 thorough fields). "
            "networkx.topological_sort trusted; A-ALLCLOSE.",
}
