"""C12 -- results are finite and real on the whole grid for every valid configuration."""
import importlib, itertools, json, os, types, warnings
import numpy
import z3
from vf import core, smt, symnp, extreal
from vf.extreal import XF, XNumpy, FIN
from contracts.nonshear_env import patched
from contracts import calc_env, fill_env
from props import C11

LEVEL = "other"
EXPLANATION = ("overflow/NaN obligations on the real Bose-factor code in an extended-real model of float64 (all Q in [1e-6, 1e100]); limit "
               "lemmas; finite enumerations over the schema's interpolators and systems and over the 15 shear frames; whole calculations on "
               "re-configured example data as a bounded stand-in")
NS = "nonshear.LongitudinalElasticModulusPhononContribution."


def run(s):
    ns = importlib.import_module("cij.core.phonon_contribution.nonshear")
    tier = s.tier
    s.trust("z3 5.1 (QF_NRA)", "vf/extreal.py (IEEE inf/nan rules, exp thresholds 709.78 / -745.13)")
    s.assume("A-FP: rounding error is not modelled: operations are exact on reals with overflow to +-inf beyond the largest double and IEEE "
             "rules for inf/nan; exp is bounded by 1+x+x^2/2+x^3/6 <= exp(x) (x>=0), exp(x) <= 1/(1-x) (x<1), exp(x)exp(-x)=1",
             "precondition of the Bose factors: 1e-6 <= hbar*omega/kT <= 1e100 (30 cm^-1 at 1e4 K gives 4e-3)",
             "T = 0 rows are masked to zero (obligations of C01/C02)")
    s.undecided_part("rounding error and accuracy; finiteness of QHA's own quantities (external)")
    q = z3.Real("Q")
    pre = [q >= z3.RealVal("1/1000000"), q <= z3.RealVal(10) ** 100]

    def bose(name, bound):
        def ob():
            XF.exps = []
            o = ns.LongitudinalElasticModulusPhononContribution.__new__(ns.LongitudinalElasticModulusPhononContribution)
            o._Q = XF(FIN, q)
            with patched(ns, numpy=XNumpy()):
                val = getattr(o, name)
            if not isinstance(val, XF):
                return core.refuted("extreal", "%s returns %r" % (name, type(val).__name__), witness_id=name + ":type")
            ax = XF.axioms() + cubic_axioms()
            goal = z3.And(val.kind == FIN, val.r >= 0, val.r <= bound(q))
            r = smt.prove(goal, pre + ax, tier=tier, name=name)
            if r.status == core.REFUTED:
                r.replay = native_bose(ns, name, r.model)
                r.witness_id = name + ":nonfinite"
            return r
        return ob
    s.oblige("C12.Q1_finite_for_all_Q", bose("Q1", lambda q: z3.RealVal(1)), [NS + "Q1"], fallback=lambda: dict(native_bose(ns, "Q1", None), evaluations=13))
    s.oblige("C12.Q2_finite_for_all_Q", bose("Q2", lambda q: (1 + q) * (1 + q)), [NS + "Q2"], fallback=lambda: dict(native_bose(ns, "Q2", None), evaluations=13))

    def old_q2():
        XF.exps = []
        Q = XF(FIN, q)
        val = Q ** 2 * Q.exp() / (Q.exp() - 1) ** 2          # the expression before the overflow repair
        return smt.prove(val.kind == FIN, pre + XF.axioms(), tier=tier)
    s.canary("C12.canary.Q2_written_with_exp(+Q)_is_nan_above_709", old_q2)

    # ---------------- limits: Q1, Q2 -> 0 as Q -> infinity (T -> 0), so c(T) -> c(0)
    def limits():
        XF.exps = []
        o = ns.LongitudinalElasticModulusPhononContribution.__new__(ns.LongitudinalElasticModulusPhononContribution)
        o._Q = XF(FIN, q)
        with patched(ns, numpy=XNumpy()):
            q1, q2 = o.Q1, o.Q2
        ax = XF.axioms() + cubic_axioms()
        goal = z3.And(q1.kind == FIN, q2.kind == FIN, q1.r * q <= 2, q2.r * q <= 24)
        return smt.prove(goal, [q >= 1, q <= z3.RealVal(10) ** 100] + ax, tier=tier, name="limits")
    s.oblige("C12.lemma.Q1<=2/Q_and_Q2<=24/Q_for_Q>=1", limits, [NS + "Q1", NS + "Q2"])

    # ---------------- real dtype / orthonormal frames of the 15 shear keys [F]
    def frames():
        from cij.core.phonon_contribution.shear import ShearElasticModulusPhononContribution as S
        from cij.util import c_
        n = 0
        for i in range(1, 7):
            for j in range(i, 7):
                k = c_(i, j)
                if not k.is_shear:
                    continue
                n += 1
                o = S(numpy.array([[0.2, 0.3, 0.5]]), k)
                T, L = numpy.asarray(o.transformation_matrix), numpy.asarray(o.fictitious_strain_rotated)
                sr = numpy.asarray(o.strain_rotated)
                if numpy.iscomplexobj(T) or numpy.iscomplexobj(L) or numpy.iscomplexobj(sr) or not (numpy.all(numpy.isfinite(T)) and numpy.all(numpy.isfinite(sr))):
                    return core.refuted("finite", "shear key %r: complex or non-finite rotated frame" % (k,), witness_id="frame%r" % (k,), replay={"reproduced": True})
                if not numpy.allclose(T.T @ T, numpy.eye(3), atol=1e-12):
                    return core.refuted("finite", "shear key %r: frame not orthonormal" % (k,), witness_id="ortho%r" % (k,), replay={"reproduced": True})
        return core.proved("finite", "%d shear keys: real, finite, orthonormal frames" % n)
    s.oblige("C12.shear_frames_real", frames, ["shear.ShearElasticModulusPhononContribution.transformation_matrix",
                                               "shear.ShearElasticModulusPhononContribution.fictitious_strain_rotated"], kind="finite")

    # ---------------- configuration enumeration over the schema [F]
    with open(os.path.join(core.REPO, "cij/data/schema/config.schema.json")) as fp:
        schema = json.load(fp)
    es = schema["definitions"]["elast_settings"]["properties"]
    interps = es["mode_gamma"]["properties"]["interpolator"]["enum"]
    systems = es["symmetry"]["properties"]["system"]["enum"]
    mg = importlib.import_module("cij.core.mode_gamma")
    for method in interps:
        s.oblige("C12.interpolator_finite[%s]" % method, lambda method=method: interp_finite(mg, method), ["mode_gamma.interpolate_modes"], kind="finite")

    def systems_ob():
        for system in systems:
            try:
                R, b = fill_env.relation_matrix(system)
            except Exception as e:
                return core.refuted("finite", "crystal system %r of the schema has no usable relations file: %r" % (system, e), witness_id="system:" + system,
                                    replay={"reproduced": True})
            if R.shape[1] != 21 or not numpy.all(numpy.isfinite(R)):
                return core.refuted("finite", "relations of %r do not parse to 21 columns" % system, witness_id="system:" + system, replay={"reproduced": True})
        if sorted(systems) != sorted(fill_env.SYSTEMS):
            return core.refuted("finite", "schema systems %s differ from the nine supported ones" % systems, witness_id="systems", replay={"reproduced": True})
        return core.proved("finite", "the %d systems of the schema each have a packaged relations file that parses" % len(systems))
    s.oblige("C12.systems_have_relations", systems_ob, ["config.schema.json", "fill.fill_cij"], kind="finite")

    # ---------------- whole calculation [bounded]
    phonon_terms(s)
    whole(s)
    # "the calculation completes": the range check in front of the (T,V) -> (T,P) conversion refuses a pressure grid exactly when it overshoots the computed range, and the
    # grid is the requested one -- C06's obligations on the QHA layer (qha_adapter.py, outside this property's anchored files), registered here as well
    from props import C06
    core.SubSession(s, lambda n: n.replace("C06.", "C12.pressure_range."), lambda n: n in ("C06.overshooting_grid_rejected", "C06.pressure_grid_is_the_requested_one")).run(C06)
    s.min_obligations = 12


def cubic_axioms():
    out = []
    for x, e in XF.exps:
        out.append(z3.Implies(x >= 0, e >= 1 + x + x * x / 2 + x * x * x / 6))
    return out


def native_bose(ns, name, model):
    vals = [1e-6, 1e-3, 1.0, 100.0, 690.0, 700.0, 709.0, 710.0, 745.0, 746.0, 1e3, 1e10, 1e100]
    try:
        import fractions
        vals.insert(0, float(fractions.Fraction((model or {}).get("Q", "1"))))
    except Exception:
        pass
    for v in vals:
        o = ns.LongitudinalElasticModulusPhononContribution.__new__(ns.LongitudinalElasticModulusPhononContribution)
        o._Q = numpy.array([v])
        with warnings.catch_warnings(), numpy.errstate(all="ignore"):
            warnings.simplefilter("ignore")
            got = getattr(o, name)
        if not numpy.all(numpy.isfinite(got)):
            return {"reproduced": True, "Q": v, "observed": repr(got.tolist())}
    return {"reproduced": False}


def interp_finite(mg, method):
    """every schema interpolator x admissible order: finite on the sampled range and on the expanded grid"""
    V = numpy.linspace(900, 500, 9)
    W = 300.0 * (V / 700.0) ** -1.3
    grid = numpy.linspace(900 * 1.2, 500 / 1.2, 25)
    for order in C11.admissible(method, len(V)):
        try:
            with warnings.catch_warnings(), numpy.errstate(all="ignore"):
                warnings.simplefilter("ignore")
                w, g, dg = C11.call_method(mg, method, V, W, grid, order)
        except Exception as e:
            return core.refuted("finite", "interpolator %r (order %d) cannot be used: %r" % (method, order, e), witness_id="interp-raise:" + method,
                                replay={"reproduced": True})
        if not (numpy.all(numpy.isfinite(w)) and numpy.all(numpy.isfinite(g)) and numpy.all(numpy.isfinite(dg))):
            return core.refuted("finite", "interpolator %r (order %d) gives non-finite values on the expanded volume grid" % (method, order),
                                witness_id="interp-nonfinite:" + method, replay={"reproduced": True, "nan_count": int(numpy.isnan(w).sum())})
    # node-based methods also accept orders at or above the number of sampled volumes (every volume is then a node)
    if method in ("lagrange", "krogh", "pchip"):
        V5 = numpy.linspace(900, 600, 5)
        W5 = 300.0 * (V5 / 700.0) ** -1.3
        g5 = numpy.linspace(900 * 1.2, 600 / 1.2, 15)
        for order in (5, 6, 7, 8):
            try:
                with warnings.catch_warnings(), numpy.errstate(all="ignore"):
                    warnings.simplefilter("ignore")
                    w, g, dg = C11.call_method(mg, method, V5, W5, g5, order)
            except Exception as e:
                return core.refuted("finite", "interpolator %r with order %d on 5 volumes cannot be used: %r" % (method, order, e), witness_id="interp-raise-high-order:" + method,
                                    replay={"reproduced": True})
            if not (numpy.all(numpy.isfinite(w)) and numpy.all(numpy.isfinite(g)) and numpy.all(numpy.isfinite(dg))):
                return core.refuted("finite", "interpolator %r with order %d on 5 volumes gives non-finite values" % (method, order), witness_id="interp-nonfinite-high-order:" + method,
                                    replay={"reproduced": True})
    return core.proved("finite", "%s: finite frequency, gamma, V dgamma/dV on the grid expanded by 1.2 for orders %s (and orders 5-8 on 5 volumes for node-based methods)"
                       % (method, C11.admissible(method, len(V))))


def check_calculator(calc):
    """-> None or message: isothermal finite everywhere, adiabatic where C_V > 0 or T = 0, real dtype"""
    T = numpy.asarray(calc.qha_calculator.t_array)
    cv = numpy.asarray(calc.qha_calculator.volume_base.heat_capacity)
    for key, v in calc.modulus_isothermal.items():
        v = numpy.asarray(v)
        if numpy.iscomplexobj(v):
            return "isothermal %r is complex" % (key,)
        if not numpy.all(numpy.isfinite(v)):
            t, j = numpy.argwhere(~numpy.isfinite(v))[0]
            return "isothermal %r is not finite at T=%g K (grid point %d,%d)" % (key, T[t], t, j)
    ok = (cv > 0) | (T[:, None] == 0)
    for key, v in calc.modulus_adiabatic.items():
        v = numpy.asarray(v)
        if numpy.iscomplexobj(v):
            return "adiabatic %r is complex" % (key,)
        bad = ~numpy.isfinite(v) & ok
        if numpy.any(bad):
            t, j = numpy.argwhere(bad)[0]
            return "adiabatic %r is not finite at T=%g K where C_V=%g" % (key, T[t], cv[t, j])
    if 0.0 in T.tolist():
        t0 = T.tolist().index(0.0)
        for key in calc.modulus_isothermal:
            a, b = numpy.asarray(calc.modulus_isothermal[key])[t0], numpy.asarray(calc.modulus_adiabatic[key])[t0]
            if not numpy.allclose(a, b, rtol=0, atol=0):
                return "adiabatic and isothermal %r differ at T = 0" % (key,)
    return None


def phonon_terms(s):
    """bounded: the real non-shear contribution classes on synthetic spectra -- q-point lists that do and do not start at Gamma (the exclusion is positional), temperature
    grids with T = 0 first / inside / absent and steps down to 0.5 K, frequencies up to 4000 cm^-1: every isothermal and adiabatic value is a finite real number"""
    from oracles import phonon as oracle
    rnd = numpy.random.RandomState(s.seed + 3)
    n = 24 if s.tier == "quick" else 600
    fails, evals = [], 0
    for t in range(n):
        nq, na = int(rnd.randint(1, 5)), int(rnd.randint(1, 4))
        layout = ("zero_first", "no_zero", "zero_inside", "descending")[t % 4]
        d = oracle.random_data(t, nt=4, nv=3, nq=nq, na=na, equal_e=(t % 2 == 0), t_layout=layout)
        if t % 3 == 0:          # arbitrarily low T > 0 and stiff modes: hbar*omega/kT far above the overflow threshold of exp
            d["T"] = numpy.array([0.0, 0.5, 1.0, 1.5]) if layout == "zero_first" else numpy.array([0.5, 1.0, 1.5, 2.0])
            d["omega"] = d["omega"] * 2.5
            d["omega"][:, 0, :3] = 0.0
        for kind in (("longitudinal",) if t % 2 == 0 else ("off_diagonal",)):
            evals += 1
            try:
                with warnings.catch_warnings(), numpy.errstate(all="ignore"):
                    warnings.simplefilter("ignore")
                    o = oracle.native_contribution(d, kind)
                    vals = {"value_isothermal": numpy.asarray(o.value_isothermal), "value_adiabatic": numpy.asarray(o.value_adiabatic)}
            except Exception as e:
                fails.append({"witness_id": "phonon-terms:%d" % t, "input": {"seed": t, "nq": nq, "na": na, "T": d["T"].tolist(), "first_q_point": list(d["qcoords"][0])},
                              "observed": "raises %r" % (e,), "expected": "finite values"})
                break
            bad = [k for k, v in vals.items() if v.shape != (4, 3) or numpy.iscomplexobj(v) or not numpy.all(numpy.isfinite(v))]
            if bad:
                fails.append({"witness_id": "phonon-terms:%d" % t, "input": {"seed": t, "kind": kind, "nq": nq, "na": na, "T": d["T"].tolist(), "first_q_point": list(d["qcoords"][0]),
                                                                              "max_omega": float(d["omega"].max())},
                              "observed": "%s contains nan / inf / complex entries: %s" % (bad, numpy.asarray(vals[bad[0]]).tolist()), "expected": "finite real numbers at every (T, V)"})
                break
        if fails:
            break
    s.bounded_standin("C12.phonon_terms_finite(synthetic spectra)", "%d synthetic spectra (1-4 q-points whose list starts at Gamma or not, 1-3 atoms, T grids with 0 K first / inside / "
                      "absent, steps down to 0.5 K, frequencies up to 3750 cm^-1), seed %d" % (n, s.seed), evals, evals, fails,
                      [NS + "value_isothermal", NS + "value_adiabatic", NS + "Q1", NS + "Q2", "nonshear.average_over_modes"])


def whole(s):
    rnd = numpy.random.RandomState(s.seed)
    combos = []
    interps = ["lsq_poly", "spline", "lagrange", "krogh", "pchip"]
    grids = [(0, 0.5, 12), (0.5, 0.5, 10), (0, 5, 10), (0, 100, 12), (0, 500, 6), (0.5, 100, 8)]
    for ex in ("akimotoite", "diopside"):
        for it in interps:
            for g in grids:
                combos.append((ex, it, g))
    rnd.shuffle(combos)
    n = 3 if s.tier == "quick" else 40
    # always include the low-temperature grid that produced NaN before the Bose-factor repair
    chosen = [("akimotoite", "lsq_poly", (0.5, 0.5, 10))] + combos[:n - 1]
    fails, evals = [], 0
    for ex, it, (tmin, dt, nt) in chosen:
        order = 3
        settings = {"qha": {"settings": {"T_MIN": tmin, "DT": dt, "NT": nt, "DT_SAMPLE": dt, "NTV": 41, "DELTA_P": 1.0, "DELTA_P_SAMPLE": 1.0}},
                    "elast": {"settings": {"mode_gamma": {"interpolator": it, "order": order}}}}
        evals += 1
        with calc_env.Case(ex, settings) as case:
            try:
                calc = case.build()
                msg = check_calculator(calc)
            except Exception as e:
                msg = "calculation does not complete: %r" % (e,)
        if msg:
            fails.append({"witness_id": "whole:%s:%s:%s" % (ex, it, (tmin, dt)), "input": {"example": ex, "interpolator": it, "T_MIN": tmin, "DT": dt, "NT": nt},
                          "observed": msg, "expected": "every modulus finite and real"})
            break
    # synthetic sets (cheap): a q list that does not start at Gamma, unsorted crossing modes, every crystal system with mixed shear keys, lowest temperatures
    if not fails:
        syn = [dict(seed=s.seed + 11, system="monoclinic", gamma_first=False), dict(seed=s.seed + 12, system="trigonal7", nq=1, lattice=False), dict(seed=s.seed + 13, system="cubic", na=1, nq=2),
               dict(seed=s.seed + 14, system="orthorhombic", na=2, nq=2, flat_modes=True), dict(seed=s.seed + 15, system="cubic", na=2, nq=1, flat_modes=True)]
        if s.tier == "thorough":
            syn += [dict(seed=s.seed + 20 + i, system=sy, gamma_first=bool(i % 2), nq=1 + i % 4, na=1 + i % 3) for i, sy in enumerate(["orthorhombic", "monoclinic", "trigonal7", "cubic"] * 3)]
        for j, kw in enumerate(syn):
            tmin, dt, nt = [(0.5, 0.5, 8), (0, 1.0, 8), (0, 250, 8)][j % 3]
            if kw.get("flat_modes"):
                tmin, dt, nt = (0, 200, 8)
            it = interps[j % len(interps)]
            st = {"qha": {"settings": {"T_MIN": tmin, "DT": dt, "NT": nt, "DT_SAMPLE": dt}}, "elast": {"settings": {"mode_gamma": {"interpolator": it, "order": 3}}}}
            evals += 1
            with calc_env.synthetic_case(settings=st, **kw) as case:
                try:
                    msg = check_calculator(case.build())
                except Exception as e:
                    msg = "calculation does not complete: %r" % (e,)
            if msg:
                fails.append({"witness_id": "whole-synthetic:%d" % j, "input": dict(kw, interpolator=it, T_MIN=tmin, DT=dt, NT=nt), "observed": msg, "expected": "every modulus finite and real"})
                break
    if not fails:
        # minimal configurations: the user names the interpolation method and nothing else (the order comes from the packaged defaults), on the smallest data sets the
        # package's own default order admits (5 volumes) -- every method of `interps`, every run
        for j, it in enumerate(interps):
            kw = dict(seed=s.seed + 30 + j, system=("cubic", "orthorhombic")[j % 2], na=1, nq=2, nv=5)
            evals += 1
            with calc_env.synthetic_case(settings={"elast": {"settings": {"mode_gamma": {"interpolator": it}}}}, omit=[("elast", "settings", "mode_gamma", "order")], **kw) as case:
                try:
                    msg = check_calculator(case.build())
                except Exception as e:
                    msg = "calculation does not complete: %r" % (e,)
            if msg:
                fails.append({"witness_id": "whole-minimal-config:%s" % it, "input": dict(kw, interpolator=it, order="not given (packaged default)"), "observed": msg,
                              "expected": "every modulus finite and real"})
                break
    s.bounded_standin("C12.whole_calculation(examples re-configured)", "%d of %d (example, interpolator, temperature grid) configurations incl. DT = 0.5 K and "
                      "T_MIN in {0, 0.5}; trigonal7 (c14, c15) and monoclinic (c15, c25, c35, c46) component sets; synthetic sets (q list off Gamma, crossing modes, three "
                      "systems, DT down to 0.5 K, branches with gamma = 0 and 2e-6); minimal configurations (method named, order left to the packaged defaults) for all five methods "
                      "on 5-volume sets; seed %d" % (len(chosen), len(combos), s.seed),
                      evals, len(chosen), fails, ["calculator.Calculator"])


MANIFEST = {
    "engine": "extreal", "category": "other",
    "technique": "contract-based deductive verification of overflow/NaN obligations: real Q1/Q2 code run in an extended-real model of float64 "
                 "(z3 QF_NRA); finite enumeration over schema enums and shear frames; bounded whole-calculation runs",
    "text": "The real Bose-factor properties Q1 and Q2 are executed on an extended-real scalar (finite / +-inf / nan with IEEE rules, exp overflow "
            "and underflow thresholds) and proved finite, with explicit bounds, for every Q in [1e-6, 1e100]; the pre-repair expression is kept as "
            "a canary (nan above 709). Lemmas Q1 <= 2/Q, Q2 <= 24/Q give c(T) -> c(0); with the T = 0 masks of C01/C02 the thermal terms vanish "
            "at T = 0. Enumerated completely: the 15 shear frames are real and orthonormal; every interpolator of the schema is finite on the "
            "expanded grid for its admissible orders (hermite and akima are known findings); every crystal system of the schema has a relations "
            "file that parses. Bounded: whole calculations on re-configured example data (DT down to 0.5 K, T_MIN 0 / 0.5, five interpolators).",
    "note": "Rounding is not modelled (A-FP); QHA's own quantities are external; whole-calculation part is bounded: 3 (quick) / 40 (thorough) "
            "configurations of the two intact shipped examples.",
}
