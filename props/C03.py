"""C03 -- shear components obtained by strain-energy rotation are exact tensor algebra.

Partial-concrete runs of the REAL shear.py: the 15 shear keys are enumerated (taken from voigt.py itself), the
elastic tensor is 21 z3 reals placed inside the real dictionaries, the strain field has a symbolic number of rows.
"""
import importlib, itertools, types
import numpy
import z3
from vf import core, smt, symnp
from vf.symnp import Sc, SB, SymArr, Dim, SymNumpy
from contracts.nonshear_env import patched

LEVEL = "proof"
EXPLANATION = ("real shear.py executed per shear key with a symbolic elastic tensor (21 reals): the returned term is proved, on "
               "every value-dependent path, to be the target component up to 1e-12 relative to the tensor's 1-norm; strain_rotated "
               "on symbolic arrays of symbolic length; eigen-frame obligations on the real eigh output")
TOL = 1e-12
MOD = "shear."
CLS = MOD + "ShearElasticModulusPhononContribution."


class NumpyProxy:
    """real numpy, except that closeness tests on symbolic scalars become symbolic conditions (forked by Paths)"""

    def __init__(self, real):
        self._real = real

    def __getattr__(self, name):
        return getattr(self._real, name)

    def _sym(self, x):
        return isinstance(x, Sc)

    def isclose(self, a, b, rtol=1e-05, atol=1e-08, equal_nan=False):
        if self._sym(a) or self._sym(b):
            az, bz = symnp.term(a), symnp.term(b)
            absb = z3.If(bz >= 0, bz, -bz)
            d = az - bz
            lim = symnp.rat(atol) + symnp.rat(rtol) * absb
            return SB(z3.And(d <= lim, -d <= lim))
        return self._real.isclose(a, b, rtol=rtol, atol=atol, equal_nan=equal_nan)

    def allclose(self, a, b, rtol=1e-05, atol=1e-08, equal_nan=False):
        if self._sym(a) or self._sym(b):
            return bool(self.isclose(a, b, rtol=rtol, atol=atol))
        return self._real.allclose(a, b, rtol=rtol, atol=atol, equal_nan=equal_nan)

    def all(self, a, *args, **kw):
        if isinstance(a, SB):
            return a
        return self._real.all(a, *args, **kw)

    any = all

    def abs(self, a):
        if self._sym(a):
            return Sc(z3.If(a.z >= 0, a.z, -a.z))
        return self._real.abs(a)

    absolute = fabs = abs


class Recording(dict):
    def __init__(self, *a, **k):
        super().__init__(*a, **k)
        self.asked = []

    def __getitem__(self, k):
        self.asked.append(k)
        return super().__getitem__(k)


def all_keys():
    from cij.util import c_
    return [c_(i, j) for i in range(1, 7) for j in range(i, 7)]


def tensor_symbols():
    return {k: z3.Real("c%d%d" % k.voigt) for k in all_keys()}


def full_tensor(csym):
    from cij.util import c_
    return {(i, j, k, l): csym[c_(i, j, k, l)] for i, j, k, l in itertools.product((1, 2, 3), repeat=4)}


def exact(x):
    return symnp.rat(float(x))


def rotated_forms(T, csym):
    """exact rotated tensor C'_aabb = sum T_ia T_ja T_kb T_lb C_ijkl built by the checker (T entries as exact rationals)"""
    from cij.util import c_
    C = full_tensor(csym)
    out = {}
    for a in range(3):
        for b in range(a, 3):
            tot = z3.RealVal(0)
            acc = {}
            for (i, j, k, l), sym in C.items():
                w = T[i - 1, a] * T[j - 1, a] * T[k - 1, b] * T[l - 1, b]
                if w != 0.0:
                    acc[sym] = acc.get(sym, 0.0)
                    # accumulate exactly
                    acc[sym] = acc[sym] + 0  # placeholder to keep key order
            # exact rational accumulation
            import fractions
            fr = {}
            for (i, j, k, l), sym in C.items():
                w = fractions.Fraction(float(T[i - 1, a])) * fractions.Fraction(float(T[j - 1, a])) * \
                    fractions.Fraction(float(T[k - 1, b])) * fractions.Fraction(float(T[l - 1, b]))
                if w:
                    fr[sym] = fr.get(sym, 0) + w
            for sym, w in fr.items():
                tot = tot + z3.RealVal(str(w)) * sym
            out[c_(a + 1, a + 1, b + 1, b + 1)] = Sc(tot)
    return out


def abs_sum(csym):
    tot = z3.RealVal(0)
    for v in csym.values():
        tot = tot + z3.If(v >= 0, v, -v)
    return tot


def run(s):
    shear = importlib.import_module("cij.core.phonon_contribution.shear")
    tier = s.tier
    S = shear.ShearElasticModulusPhononContribution
    keys = [k for k in all_keys() if k.is_shear]
    s.trust("z3 5.1 (QF_LRA/NRA)", "numpy.linalg.eigh (its output is checked: orthonormality, T L T^t = eps)", "vf/symnp.py")
    s.assume("A-FP: arithmetic on the 21 tensor components is real arithmetic; entries of T are the exact rationals of the float64 "
             "values eigh returned (tolerance 1e-12 relative to the tensor's 1-norm absorbs their rounding)",
             "the rotated-frame inputs handed over ARE the rotated tensor (modelling statement; plumbing is C04)")
    if len(keys) != 15:
        s.crashed.append(("keys", "voigt.py yields %d shear keys" % len(keys)))
    csym = tensor_symbols()
    csym2 = {k: z3.Real("d%d%d" % k.voigt) for k in all_keys()}
    strain0 = numpy.array([[0.2, 0.3, 0.5], [0.25, 0.35, 0.4]])

    # ---------------- 1/2. fictitious strain and its eigen-frame [F over 15 keys, on the real code]
    def frames():
        for key in keys:
            o = S(strain0, key)
            eps = numpy.zeros((3, 3))
            (i, j), (k, l) = key.i, key.j
            for (p, q) in ((i, j), (j, i), (k, l), (l, k)):
                eps[p - 1, q - 1] = 1
            fs = numpy.asarray(o.fictitious_strain)
            if fs.shape != (3, 3) or not numpy.array_equal(fs, eps):
                return core.refuted("finite", "fictitious strain of %r is\n%s" % (key, fs), witness_id="eps%r" % (key,), replay={"reproduced": True})
            T, Lm = numpy.asarray(o.transformation_matrix), numpy.asarray(o.fictitious_strain_rotated)
            bad = []
            if numpy.iscomplexobj(T) or numpy.iscomplexobj(Lm):
                bad.append("complex dtype")
            elif T.shape != (3, 3) or Lm.shape != (3, 3):
                bad.append("shape")
            else:
                if not numpy.allclose(T.T @ T, numpy.eye(3), atol=TOL, rtol=0):
                    bad.append("T not orthonormal")
                if not numpy.allclose(T @ Lm @ T.T, eps, atol=TOL, rtol=0):
                    bad.append("T L T^t != fictitious strain")
                if not numpy.allclose(Lm, numpy.diag(numpy.diag(Lm)), atol=0, rtol=0):
                    bad.append("L not diagonal")
            if bad:
                return core.refuted("finite", "eigen-frame of %r: %s" % (key, bad), witness_id="frame%r" % (key,),
                                    replay={"reproduced": True, "T": T.tolist(), "L": Lm.tolist()})
        return core.proved("finite", "15 keys: fictitious strain is the symmetric 0/1 matrix of the key; T real orthonormal, L diagonal, "
                                     "T L T^t = strain to 1e-12")
    s.oblige("C03.fictitious_strain_and_frame", frames, [CLS + n for n in ("fictitious_strain", "fictitious_strain_rotated", "transformation_matrix")],
             kind="finite")

    # ---------------- 3/4. the solver returns the target component; the target is never asked for
    def solver(key, canary=None):
        proxy = NumpyProxy(numpy)
        with patched(shear, numpy=proxy):
            def thunk():
                o = S(strain0, key)
                T = numpy.asarray(o.transformation_matrix, dtype=float)
                o.modulus = Recording({k: Sc(v) for k, v in csym.items()})
                o.modulus_rotated = Recording(rotated_forms(T, csym))
                res = o.get_target_elastic_modulus()
                asked1, asked1r = list(o.modulus.asked), list(o.modulus_rotated.asked)
                # the same solver object given a SECOND tensor (the interface of the property: .modulus / .modulus_rotated are set, then the
                # target is asked for): the answer must be the second tensor's component -- no value may survive from the first evaluation
                o.modulus = Recording({k: Sc(v) for k, v in csym2.items()})
                o.modulus_rotated = Recording(rotated_forms(T, csym2))
                res2 = o.get_target_elastic_modulus()
                o.modulus.asked[:0], o.modulus_rotated.asked[:0] = asked1, asked1r
                return res, o, res2
            paths = symnp.Paths([], max_paths=256)
            outs = paths.run(thunk)
        bound = abs_sum(csym)
        for pc, (res, o, res2) in outs:
            if canary is None:
                try:
                    d2 = symnp.term(res2) - csym2[key]
                except Exception:
                    return core.refuted("symnp", "%r: second result is %r" % (key, type(res2).__name__), witness_id="type2%r" % (key,))
                b2 = abs_sum(csym2) + bound
                r = smt.prove(z3.And(d2 <= TOL * b2, -d2 <= TOL * b2), pc, tier=tier, name="shear-second%r" % (key,))
                if r.status != core.PROVED:
                    r.detail = "key %r: a solver object evaluated a second time, with another tensor, does not return that tensor's component (state kept from the first evaluation) | %s" % (key, r.detail)
                    if r.status == core.REFUTED:
                        r.replay = native_history(shear, key)
                        r.witness_id = "solver-second-use%r" % (key,)
                    return r
            asked = list(o.modulus.asked)
            if key in asked:
                return core.refuted("finite", "the solver for %r asks for its own target among the known components" % (key,),
                                    witness_id="asks-target%r" % (key,), replay={"reproduced": True})
            if any(k.is_shear for k in o.modulus_rotated.asked):
                return core.refuted("finite", "the solver for %r asks for a shear component in the rotated frame" % (key,),
                                    witness_id="asks-rotated-shear%r" % (key,), replay={"reproduced": True})
            if set(asked) != set(o.get_modulus_keys()) or set(o.modulus_rotated.asked) != set(o.get_modulus_keys_rotated()):
                return core.refuted("finite", "%r: components used %s differ from the components announced %s" % (key, sorted(map(repr, set(asked))),
                                                                                                           sorted(map(repr, set(o.get_modulus_keys())))),
                                    witness_id="announced%r" % (key,), replay={"reproduced": True})
            if not isinstance(res, Sc):
                try:
                    res = Sc(symnp.term(res))      # a plain number (e.g. every energy term was skipped)
                except Exception:
                    return core.refuted("symnp", "%r: result is %r" % (key, type(res).__name__), witness_id="type%r" % (key,))
            target = csym[key] if canary is None else canary(csym, key)
            d = res.z - target
            goal = z3.And(d <= TOL * bound, -d <= TOL * bound)
            r = smt.prove(goal, pc, tier=tier, name="shear%r" % (key,))
            if r.status != core.PROVED:
                r.detail = "key %r on path %s: result differs from the target component | %s" % (key, [str(z3.simplify(c)) for c in pc], r.detail)
                if r.status == core.REFUTED and canary is None:
                    r.replay = native_replay(shear, key, r.model)
                    r.witness_id = "solver%r" % (key,)
                return r
        return core.proved("z3", "%d path(s)" % len(outs), sample="|result - c%d%d| <= 1e-12 * sum|c|" % key.voigt)
    for key in keys:
        s.oblige("C03.solver[c%d%d]" % key.voigt, lambda key=key: solver(key),
                 [CLS + "get_target_elastic_modulus", MOD + "calculate_fictitious_strain_energy", MOD + "get_fictitious_strain_energy_keys",
                  CLS + "get_modulus_keys", CLS + "get_modulus_keys_rotated"], fallback=lambda key=key: solver_fallback(shear, key))
    from cij.util import c_
    s.canary("C03.canary.half_multiplicity", lambda: solver(c_(4, 4), canary=lambda cs, k: cs[k] / 2))
    s.canary("C03.canary.wrong_component", lambda: solver(c_(1, 4), canary=lambda cs, k: cs[c_(2, 4)]))

    def histories():
        """[F over the 15 keys, numeric] one solver object used for two tensors; two solver objects for the same key and different strain fields in one
        process: frame orthonormal, rotated strain fractions = diag(T^t diag(e) T), target recovered each time"""
        rnd = numpy.random.RandomState(5)
        for key in keys:
            r = native_history(shear, key, rnd)
            if r.get("reproduced"):
                return core.refuted("finite", "history on the shear solver for %r: %s" % (key, r), witness_id="history%r" % (key,), replay=r)
        return core.proved("finite", "15 keys x (two tensors on one object, three objects with different strain fields): target recovered to 1e-9, frames orthonormal, "
                                     "strain_rotated = diag(T^t diag(e) T)")
    s.oblige("C03.repeated_use(one object twice, several objects per key)", histories,
             [CLS + "get_elastic_modulus", CLS + "get_elastic_modulus_rotated", CLS + "strain_rotated", CLS + "transformation_matrix"], kind="finite")

    def multiplicity():
        for key in keys:
            o = S(strain0, key)
            nz = numpy.argwhere(numpy.logical_not(numpy.isclose(o.fictitious_strain, 0)))
            skipped = sum(1 for (i, j), (k, l) in itertools.product(nz, nz) if c_(i + 1, j + 1, k + 1, l + 1) == key)
            if skipped != key.multiplicity:
                return core.refuted("finite", "%r: %d index tuples equal the target but multiplicity is %d" % (key, skipped, key.multiplicity),
                                    witness_id="mult%r" % (key,), replay={"reproduced": True})
        return core.proved("finite", "number of strain-energy terms that are the target = key.multiplicity for 15 keys")
    s.oblige("C03.target_terms_equal_multiplicity", multiplicity, ["voigt.ModulusRepresentation.multiplicity"], kind="finite")

    # ---------------- 5. strain_rotated on a strain field of symbolic length, symbolic frame
    ntv = Dim("ntv")
    E = SymArr.atom("e", (ntv, 3), lambda idx, v: v > 0)
    tz = [[z3.Real("T%d%d" % (i, j)) for j in range(3)] for i in range(3)]
    Tsym = SymArr((3, 3), lambda idx: _pick(tz, idx))

    def strain_rotated(Tarr):
        with patched(shear, numpy=SymNumpy()):
            o = S(E, keys[0])
            o._transformation_matrix = Tarr
            return o.strain_rotated

    def rot_spec(tzz):
        return SymArr((ntv, 3), lambda idx: sum_(_pick_col(tzz, i, idx[1]) * _pick_col(tzz, i, idx[1]) * E.elem((idx[0], z3.IntVal(i))) for i in range(3)))
    def formula():
        r = symnp.prove_code_equals(lambda: strain_rotated(Tsym), lambda: rot_spec(tz), [], tier=tier, name="strain_rotated")
        if r.status == core.REFUTED:
            r.replay = native_strain_rotated(shear)
            r.witness_id = "strain_rotated"
        return r
    s.oblige("C03.strain_rotated.formula", formula, [CLS + "strain_rotated"], fallback=lambda: dict(native_strain_rotated(shear), evaluations=45))

    def trace():
        r = strain_rotated(Tsym)
        v = z3.Int("v")
        tot = sum_(r.elem((v, z3.IntVal(a))) for a in range(3))
        tr = sum_(E.elem((v, z3.IntVal(i))) for i in range(3))
        ortho = [sum_(tz[i][a] * tz[i][b] for i in range(3)) == (1 if a == b else 0) for a in range(3) for b in range(3)] + \
                [sum_(tz[a][i] * tz[b][i] for i in range(3)) == (1 if a == b else 0) for a in range(3) for b in range(3)]
        return smt.prove(tot == tr, ortho + [v >= 0, v < ntv.n], tier=tier, name="trace")
    s.oblige("C03.strain_rotated.trace_preserved", trace, [CLS + "strain_rotated"], fallback=lambda: dict(native_strain_rotated(shear), evaluations=45))

    def sign_and_order():
        base = strain_rotated(Tsym)
        v = z3.Int("v")
        for signs in itertools.product((1, -1), repeat=3):
            t2 = [[tz[i][j] * signs[j] for j in range(3)] for i in range(3)]
            r2 = strain_rotated(SymArr((3, 3), lambda idx, t2=t2: _pick(t2, idx)))
            for a in range(3):
                r = smt.prove(r2.elem((v, z3.IntVal(a))) == base.elem((v, z3.IntVal(a))), [v >= 0, v < ntv.n], tier=tier)
                if r.status != core.PROVED:
                    r.detail = "eigenvector signs %s change strain_rotated[:,%d] | %s" % (signs, a, r.detail)
                    return r
        for perm in itertools.permutations(range(3)):
            t2 = [[tz[i][perm[j]] for j in range(3)] for i in range(3)]
            r2 = strain_rotated(SymArr((3, 3), lambda idx, t2=t2: _pick(t2, idx)))
            for a in range(3):
                r = smt.prove(r2.elem((v, z3.IntVal(a))) == base.elem((v, z3.IntVal(perm[a]))), [v >= 0, v < ntv.n], tier=tier)
                if r.status != core.PROVED:
                    r.detail = "column permutation %s is not followed by strain_rotated | %s" % (perm, r.detail)
                    return r
        return core.proved("z3", "8 sign choices leave strain_rotated unchanged; 6 column orders permute it accordingly (symbolic frame)")
    s.oblige("C03.strain_rotated.independent_of_eigenvector_sign_and_order", sign_and_order, [CLS + "strain_rotated"],
             fallback=lambda: dict(native_strain_rotated(shear), evaluations=45))
    s.canary("C03.canary.strain_rotated_rows_instead_of_columns", lambda: symnp.prove_code_equals(
        lambda: strain_rotated(Tsym), lambda: rot_spec([[tz[j][i] for j in range(3)] for i in range(3)]), [], tier=tier))
    s.min_obligations = 21


def sum_(it):
    tot = None
    for x in it:
        tot = x if tot is None else tot + x
    return tot


def _pick(tz, idx):
    i, j = z3.simplify(idx[0]), z3.simplify(idx[1])
    if z3.is_int_value(i) and z3.is_int_value(j):
        return tz[i.as_long()][j.as_long()]
    r = tz[2][2]
    for a in range(2, -1, -1):
        for b in range(2, -1, -1):
            if (a, b) != (2, 2):
                r = z3.If(z3.And(idx[0] == a, idx[1] == b), tz[a][b], r)
    return r


def _pick_col(tz, i, a):
    a = z3.simplify(a)
    if z3.is_int_value(a):
        return tz[i][a.as_long()]
    return z3.If(a == 0, tz[i][0], z3.If(a == 1, tz[i][1], tz[i][2]))


def solver_fallback(shear, key):
    """bounded fall-back of the solver obligation of one key: the replay battery (basis and dense tensors over 15 orders of magnitude) and the histories"""
    r = native_replay(shear, key, None)
    if r.get("reproduced"):
        return r
    r = native_history(shear, key)
    if r.get("reproduced"):
        return r
    return {"reproduced": False, "evaluations": 115, "note": "replay battery (21 basis + dense tensors at 5 magnitudes) and histories agree with the target component"}


def native_history(shear, key, rnd=None):
    """histories on the real solver: several objects for one key (different strain fields), each evaluated for two tensors"""
    from cij.util import c_
    rnd = rnd or numpy.random.RandomState(11)
    S = shear.ShearElasticModulusPhononContribution
    keys = all_keys()
    for n_obj in range(5):
        e = rnd.uniform(0.1, 1.0, size=(2, 3))
        e = e / e.sum(axis=1)[:, None]
        if n_obj == 3:
            e = numpy.array([[0.2, 0.3, 0.5], [0.2, 0.3, 0.5]])            # the same anisotropic triple at every volume
        elif n_obj == 4:
            e = numpy.array([[1 / 3, 1 / 3, 1 / 3], [0.2, 0.3, 0.5]])      # isotropic first row, anisotropic later
        o = S(e.copy(), key)
        try:
            T = numpy.asarray(o.transformation_matrix, dtype=float)
            sr = numpy.asarray(o.strain_rotated, dtype=float)
        except Exception as ex:
            return {"reproduced": True, "object": n_obj, "raised": repr(ex)}
        if T.shape != (3, 3) or not numpy.allclose(T.T @ T, numpy.eye(3), atol=1e-10):
            return {"reproduced": True, "object": n_obj, "observed": "frame of solver object #%d for this key is not orthonormal" % (n_obj + 1), "T": T.tolist()}
        want = numpy.einsum("ia,vi->va", T * T, e)
        if sr.shape != want.shape or not numpy.allclose(sr, want, atol=1e-10):
            return {"reproduced": True, "object": n_obj, "observed": "strain_rotated of solver object #%d: %s" % (n_obj + 1, sr.tolist()), "expected": want.tolist(), "strain": e.tolist()}
        for n_eval in range(2):
            vals = {k: float(rnd.uniform(-1, 1)) * 10 ** float(rnd.uniform(-2, 3)) for k in keys}
            C = {(i, j, k, l): vals[c_(i, j, k, l)] for i, j, k, l in itertools.product((1, 2, 3), repeat=4)}
            rot = {}
            for a in range(3):
                for b in range(a, 3):
                    rot[c_(a + 1, a + 1, b + 1, b + 1)] = sum(T[i - 1, a] * T[j - 1, a] * T[k - 1, b] * T[l - 1, b] * v for (i, j, k, l), v in C.items())
            o.modulus, o.modulus_rotated = dict(vals), rot
            try:
                got = float(o.get_target_elastic_modulus())
            except Exception as ex:
                return {"reproduced": True, "object": n_obj, "evaluation": n_eval, "raised": repr(ex)}
            if abs(got - vals[key]) > 1e-9 * sum(abs(v) for v in vals.values()):
                return {"reproduced": True, "object": n_obj + 1, "evaluation_on_that_object": n_eval + 1, "observed": got, "expected": vals[key],
                        "tensor": {repr(k): v for k, v in vals.items()}}
    return {"reproduced": False}


def native_replay(shear, key, model):
    """run the real solver on concrete tensors (the counter-model first, then basis and dense tensors at several
    magnitudes), exact rotated inputs computed independently"""
    import fractions, random
    from cij.util import c_
    S = shear.ShearElasticModulusPhononContribution
    keys = all_keys()
    cands = []
    vals = {}
    for k in keys:
        raw = (model or {}).get("c%d%d" % k.voigt, "0")
        try:
            vals[k] = float(fractions.Fraction(raw))
        except Exception:
            vals[k] = 0.0
    cands.append(vals)
    rnd = random.Random(0)
    for scale in (1.0, 1e3, 1e-6, 1e-9, 1e-12):
        for k in keys:
            cands.append({q: (scale if q == k else 0.0) for q in keys})
        cands.append({q: scale * rnd.uniform(-1, 1) for q in keys})
    o = S(numpy.array([[0.2, 0.3, 0.5]]), key)
    T = numpy.asarray(o.transformation_matrix, dtype=float)
    for vals in cands:
        C = {(i, j, k, l): vals[c_(i, j, k, l)] for i, j, k, l in itertools.product((1, 2, 3), repeat=4)}
        rot = {}
        for a in range(3):
            for b in range(a, 3):
                rot[c_(a + 1, a + 1, b + 1, b + 1)] = sum(T[i - 1, a] * T[j - 1, a] * T[k - 1, b] * T[l - 1, b] * v for (i, j, k, l), v in C.items())
        o = S(numpy.array([[0.2, 0.3, 0.5]]), key)
        o.modulus, o.modulus_rotated = dict(vals), rot
        try:
            got = float(o.get_target_elastic_modulus())
        except Exception as e:
            return {"reproduced": True, "raised": repr(e), "tensor": {repr(k): v for k, v in vals.items() if v}}
        scale = sum(abs(v) for v in vals.values())
        if abs(got - vals[key]) > 1e-9 * scale:
            return {"reproduced": True, "tensor": {repr(k): v for k, v in vals.items() if v}, "observed": got, "expected": vals[key]}
    return {"reproduced": False, "note": "model and replay battery agree with the target on the real code"}


def native_strain_rotated(shear):
    """real strain_rotated against sum_i T_ia^2 e_i for strain triples that do and do not sum to one"""
    S = shear.ShearElasticModulusPhononContribution
    for key in [k for k in all_keys() if k.is_shear]:
        # generic fields and fields with special structure (one row; the same anisotropic triple at every volume; a first row that is isotropic while later rows are not)
        for strain in ([[0.2, 0.3, 0.5], [0.1, 0.6, 0.3]], [[1.0, 2.0, 3.0], [0.5, 0.25, 0.125]], [[1.0, 1.0, 1.0]], [[0.2, 0.3, 0.5]], [[0.2, 0.3, 0.5], [0.2, 0.3, 0.5], [0.2, 0.3, 0.5]],
                       [[1 / 3, 1 / 3, 1 / 3], [0.2, 0.3, 0.5], [0.25, 0.35, 0.4]], [[0.3, 0.3, 0.3], [0.3, 0.3, 0.3]],
                       # exactly two equal fractions, in each position (tetragonal / hexagonal cells: a = b != c): the slots of the rotated frame are NOT the crystal axes
                       [[0.4, 0.4, 0.2], [0.3, 0.3, 0.4]], [[0.2, 0.4, 0.4], [0.5, 0.25, 0.25]], [[0.4, 0.2, 0.4]], [[0.4, 0.4, 0.2], [0.2, 0.3, 0.5]],
                       # whole-number triples handed over as an INTEGER array (positive triples all the same): the result is a real array
                       numpy.array([[1, 2, 3], [3, 1, 2]]), numpy.array([[1, 1, 1]]), numpy.array([[2, 2, 1]]),
                       # magnitudes: un-normalised strain increments (1e-7 ... 1e-9), an almost incompressible axis, very large numbers -- positive triples all the same
                       [[2e-7, 5e-7, 9e-7], [3e-9, 1e-9, 2e-9]], [[1e-9, 0.4, 0.6]], [[2e5, 3e5, 1e5]]):
            e = numpy.array(strain)
            o = S(e, key)
            T = numpy.asarray(o.transformation_matrix, dtype=float)
            want = e @ (T * T)
            got = numpy.asarray(o.strain_rotated, dtype=float)
            if got.shape != want.shape or not numpy.allclose(got, want, rtol=1e-10, atol=1e-13 * float(numpy.abs(e).max())):
                return {"reproduced": True, "key": repr(key), "strain": numpy.asarray(strain).tolist(), "dtype": str(e.dtype), "observed": got.tolist(), "expected": want.tolist()}
    return {"reproduced": False}


MANIFEST = {
    "engine": "symnp", "category": "proof",
    "technique": "contract-based deductive verification: real shear.py run per shear key on a symbolic elastic tensor (z3 QF_LRA/NRA), "
                 "strain_rotated on symbolic arrays; finite enumeration over the 15 keys",
    "text": "For each of the 15 shear keys the real solver (fictitious strain, eigh frame, both strain energies, target term skipped, "
            "division by strain product and multiplicity) is executed with the 21 tensor components as z3 reals and the exact rotated "
            "components built independently by the checker; on every value-dependent path the returned term is proved to be the target "
            "component up to 1e-12 of the tensor's 1-norm -- for all real symmetric tensors at once. The components asked for never "
            "include the target and equal the announced lists; the number of skipped terms equals the multiplicity; strain_rotated is "
            "proved (symbolic number of rows, symbolic frame) to be sum_i T_ia^2 e_i, trace preserving for orthogonal T and independent "
            "of eigenvector sign and order; the eigh frame is checked orthonormal/real for all keys.",
    "note": "Entries of T are taken as the exact rationals of eigh's float64 output (tolerance 1e-12 absorbs their rounding); float "
            "arithmetic on tensor components treated as real (A-FP); that the scheduler hands over the rotated tensor is C04.",
}
