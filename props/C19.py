"""C19 -- extract and extract-geotherm return table values faithfully.

Click callbacks over glob, pandas and RectBivariateSpline: no function boundary for a deductive contract and the
deciding behaviour is pandas indexing / scipy interpolation.  Run-time contracts on the real callbacks in a temporary
directory of synthetic tables (written with the calculator's own save_x_tp): bounded stand-in.
"""
import importlib, io, os, random, shutil, tempfile
import numpy
import pandas
from vf import core

LEVEL = "exploration"
EXPLANATION = "bounded stand-in: run-time postconditions on the real `extract` / `extract-geotherm` callbacks over synthetic output tables; nothing is proved"

FILES = {"c11s": "c11s_tp_gpa.txt", "c12s": "c12s_tp_gpa.txt", "c44t": "c44t_tp_gpa.txt", "bm_V": "bm_V_tp_gpa.txt", "bm_VRH": "bm_VRH_tp_gpa.txt", "bm_R": "bm_R_tp_gpa.txt",
         "G_V": "G_V_tp_gpa.txt", "G_VRH": "G_VRH_tp_gpa.txt", "v": "v_tp_ang3.txt", "v_p": "v_p_tp_km_s.txt", "v_s": "v_s_tp_km_s.txt"}


def smooth(k):
    a, b, c = 100.0 + 37 * k, 0.8 + 0.05 * k, -0.01 - 0.002 * k
    return lambda T, P: a + b * P + c * T + 1e-3 * P * P - 2e-6 * T * T + 1e-4 * P * T * (1 + 0.1 * k)


def write_tables(d, T, P):
    from cij.io.traditional.qha_output import save_x_tp
    funcs = {}
    t_ext = numpy.concatenate([T, T[-1] + (T[1] - T[0]) * numpy.arange(1, 5)])
    for k, (var, fname) in enumerate(FILES.items()):
        f = smooth(k)
        funcs[var] = f
        arr = f(t_ext[:, None], P[None, :])
        save_x_tp(arr, t_ext, P, P, os.path.join(d, fname))
    return funcs


def parse(out, header=True):
    return pandas.read_table(io.StringIO(out), sep=r"\s+", index_col=0, header=0 if header else None)


def run(s):
    from click.testing import CliRunner
    ex = importlib.import_module("cij.cli.extract")
    geo = importlib.import_module("cij.cli.geotherm")
    s.assume("A-PANDAS, A-CLICK, A-SCIPY (RectBivariateSpline), A-QHA (save_x_tp writes the tables)")
    s.undecided_part("everything: pandas indexing and bivariate spline interpolation inside click callbacks; bounded run-time contracts only")
    rnd = random.Random(s.seed)
    n = 4 if s.tier == "quick" else 60
    cwd = os.getcwd()
    fails, evals, distinct = [], 0, 0
    fails_g, evals_g, distinct_g = [], 0, 0
    for t in range(n):
        tmp = tempfile.mkdtemp(prefix="c19_")
        try:
            nT, nP = rnd.randint(5, 9), rnd.randint(5, 9)
            T = rnd.choice([0.0, 300.0]) + rnd.choice([100.0, 250.0]) * numpy.arange(nT)
            P = rnd.choice([0.0, 5.0]) + rnd.choice([1.0, 10.0, 2.5]) * numpy.arange(nP)
            funcs = write_tables(tmp, T, P)
            os.chdir(tmp)
            # ---------- extract
            reqs = [("v",), ("G_V",), ("bm_V",), ("c11s", "bm_VRH", "v_s"), tuple(FILES)]
            for vars_ in reqs:
                if fails:
                    break
                for kind in ("T", "P"):
                    grid, other = (T, P) if kind == "T" else (P, T)
                    targets = [grid[0], grid[-1], grid[len(grid) // 2], (grid[1] + grid[2]) / 2 - 1e-3, grid[0] - 7.0, grid[-1] + 3.0, (grid[2] * 0.3 + grid[3] * 0.7)]
                    for y in targets:
                        evals += 1
                        distinct += 1
                        res = CliRunner().invoke(ex.main, ["-v", ",".join(vars_), "-" + kind, repr(float(y))])
                        if res.exit_code != 0:
                            fails.append({"witness_id": "extract-exit:%d" % t, "input": {"variables": vars_, kind: float(y)}, "observed": "exit %s %r" % (res.exit_code, res.exception),
                                          "expected": "a table"})
                            break
                        df = parse(res.output)
                        j = int(numpy.argmin(numpy.abs(grid - y)))
                        msg = None
                        if list(df.columns) != list(vars_) or len(df) != len(other) or not numpy.allclose(df.index.to_numpy(dtype=float), other, rtol=1e-6, atol=1e-6):
                            msg = "columns %s / labels differ from the requested variables and the other coordinate" % list(df.columns)
                        else:
                            for var in vars_:
                                want = funcs[var](grid[j], other) if kind == "T" else funcs[var](other, grid[j])
                                if not numpy.allclose(df[var].to_numpy(dtype=float), want, rtol=1e-5, atol=1e-9):
                                    msg = "variable %r at %s=%g: returned values are not the %s of ITS table nearest to the request (%g)" % (var, kind, y, "row" if kind == "T" else "column", grid[j])
                                    break
                        if msg:
                            fails.append({"witness_id": "extract:%s:%s" % (",".join(vars_)[:20], kind), "input": {"variables": vars_, kind: float(y), "T_grid": T.tolist(), "P_grid": P.tolist()},
                                          "observed": msg, "expected": "exactly the nearest table row/column of each requested variable"})
                            break
                    if fails:
                        break
            # ---------- extract-geotherm
            for style in ("float", "int"):
                if fails_g:
                    break
                pts = [(P[i], T[j]) for i in range(nP) for j in range(nT)]
                rnd.shuffle(pts)
                pts = pts[:8]
                if style == "int" and not all(float(p).is_integer() for p, _ in pts):
                    continue
                g = pandas.DataFrame({"P": [p for p, _ in pts], "T": [tt for _, tt in pts], "D": [660.0 + 10 * i for i in range(len(pts))]})
                if style == "int":
                    g["P"] = g["P"].astype(int)
                g.to_csv(os.path.join(tmp, "geo.txt"), sep=" ", index=False)
                vars_ = ("c11s", "v_s", "bm_VRH")
                evals_g += 1
                distinct_g += 1
                res = CliRunner().invoke(geo.main, ["-g", "geo.txt", "-v", ",".join(vars_)])
                if res.exit_code != 0:
                    fails_g.append({"witness_id": "geotherm-exit:%d" % t, "input": {"style": style}, "observed": "exit %s %r" % (res.exit_code, res.exception), "expected": "a table"})
                    break
                df = pandas.read_table(io.StringIO(res.output), sep=r"\s+")
                msg = None
                if not numpy.allclose(df["P"], g["P"]) or not numpy.allclose(df["T"], g["T"]) or not numpy.allclose(df["D"], g["D"]):
                    msg = "the geotherm's own columns are not passed through unchanged"
                for var in vars_:
                    if msg:
                        break
                    want = numpy.array([funcs[var](tt, p) for p, tt in pts])
                    if not numpy.allclose(df[var].to_numpy(dtype=float), want, rtol=1e-7, atol=1e-7):
                        msg = "grid-node points: %s differs from the table entries by up to %.3g (pressures written as %s)" % (var, float(numpy.abs(df[var].to_numpy(dtype=float) - want).max()), style)
                if msg:
                    fails_g.append({"witness_id": "geotherm-node:%s" % style, "input": {"style": style, "points": pts[:4], "T_grid": T.tolist(), "P_grid": P.tolist()}, "observed": msg,
                                    "expected": "the table entry itself at grid nodes; geotherm columns unchanged"})
                    break
            # between nodes: converges to the smooth function under grid refinement
            if not fails_g:
                errs = []
                for refine in (1, 2, 4):
                    d2 = tempfile.mkdtemp(prefix="c19r_")
                    try:
                        T2 = numpy.linspace(T[0], T[-1], (nT - 1) * refine + 1)
                        P2 = numpy.linspace(P[0], P[-1], (nP - 1) * refine + 1)
                        f2 = write_tables(d2, T2, P2)
                        os.chdir(d2)
                        gp = [(P[0] + (P[-1] - P[0]) * rnd.random(), T[0] + (T[-1] - T[0]) * rnd.random()) for _ in range(10)] if refine == 1 else gp
                        pandas.DataFrame({"P": [p for p, _ in gp], "T": [tt for _, tt in gp]}).to_csv("geo.txt", sep=" ", index=False)
                        res = CliRunner().invoke(geo.main, ["-g", "geo.txt", "-v", "c12s"])
                        evals_g += 1
                        if res.exit_code != 0:
                            fails_g.append({"witness_id": "geotherm-refine-exit", "input": {}, "observed": "exit %s %r" % (res.exit_code, res.exception), "expected": "a table"})
                            break
                        df = pandas.read_table(io.StringIO(res.output), sep=r"\s+")
                        want = numpy.array([f2["c12s"](tt, p) for p, tt in gp])
                        errs.append(float(numpy.abs(df["c12s"].to_numpy(dtype=float) - want).max()))
                    finally:
                        os.chdir(tmp)
                        shutil.rmtree(d2, ignore_errors=True)
                distinct_g += 1
                if not fails_g and not (errs[-1] <= max(errs[0], 1e-9) * 1.0001 and errs[-1] < 1e-3):
                    fails_g.append({"witness_id": "geotherm-convergence", "input": {"errors_under_refinement": errs}, "observed": "interpolation error does not shrink to the smooth function: %s" % errs,
                                    "expected": "convergence under grid refinement"})
        finally:
            os.chdir(cwd)
            shutil.rmtree(tmp, ignore_errors=True)
        if fails or fails_g:
            break
    s.bounded_standin("C19.extract_nearest_row", "%d synthetic table sets (11 variables incl. names that are prefixes of other files, 5-8 temperatures x 5-8 pressures); requests at nodes, "
                      "between nodes and outside the grid, by T and by P, single and multiple variables; seed %d" % (n, s.seed), evals, distinct, fails, ["cli/extract.main", "cli/extract.load_data"])
    s.bounded_standin("C19.geotherm_values", "%d table sets: geotherm paths through grid nodes (pressures written as floats and as integers) and between nodes under 1x/2x/4x grid refinement; "
                      "seed %d" % (n, s.seed), evals_g, distinct_g, fails_g, ["cli/geotherm.main", "cli/geotherm.fit_data", "cli/geotherm.load_data"])
    s.min_obligations = 0


MANIFEST = {
    "engine": "rtc", "category": "exploration",
    "technique": "bounded stand-in: run-time postconditions on the real extract / extract-geotherm callbacks (no deductive obligation)",
    "text": "Not decided deductively (click callbacks over glob, pandas indexing and scipy's bivariate spline). The real commands are run in temporary "
            "directories holding synthetic tables written by the calculator's own table writer: extract must return, for each requested variable, "
            "exactly the row (or column) of ITS table nearest to the requested temperature (pressure), labelled by the other coordinate -- for nodes, "
            "mid-points, out-of-grid requests and variable names that are prefixes of other files; extract-geotherm must return the table entry at "
            "grid nodes (pressures written as floats or integers), pass the geotherm's columns through, and converge under grid refinement.",
    "note": "bounded: 4 (quick) / 60 (thorough) table sets; never counted as discharged.",
}
