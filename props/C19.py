"""C19 -- extract and extract-geotherm return table values faithfully.

Deductive fragment: the real click callbacks are executed on symbolic tables of symbolic size with pandas / numpy / scipy
replaced by recording contract stubs (sys.modules swap inside the checker process, the callbacks import them locally): what
is handed to numpy.argmin is proved to be |own grid - request|, the output column of each variable the argmin row (column) of
ITS table, the labels the other coordinate; for the geotherm command the spline is proved to be built from (T grid, P grid,
own table) and queried point-wise at the geotherm's (T, P) columns, the geotherm's own columns passing through.
What stays bounded: load_data (glob + pandas parsing), pandas label alignment and printing, the spline itself (A-SCIPY) --
run-time contracts on the real commands in temporary directories of synthetic tables.
"""
import importlib, io, os, random, shutil, tempfile
import numpy
import pandas
from vf import core

LEVEL = "other"
EXPLANATION = ("call-site contracts of the real `extract` / `extract-geotherm` callbacks proved on symbolic tables of symbolic size (argmin over |grid - request|, "
               "row selection, labelling, spline arguments); file loading, pandas alignment/printing and the spline are bounded run-time contracts")

FILES = {"c11s": "c11s_tp_gpa.txt", "c12s": "c12s_tp_gpa.txt", "c44t": "c44t_tp_gpa.txt", "bm_V": "bm_V_tp_gpa.txt", "bm_VRH": "bm_VRH_tp_gpa.txt", "bm_R": "bm_R_tp_gpa.txt",
         "G_V": "G_V_tp_gpa.txt", "G_VRH": "G_VRH_tp_gpa.txt", "v": "v_tp_ang3.txt", "v_p": "v_p_tp_km_s.txt", "v_s": "v_s_tp_km_s.txt"}


def smooth(k):
    a, b, c = 100.0 + 37 * k, 0.8 + 0.05 * k, -0.01 - 0.002 * k
    return lambda T, P: a + b * P + c * T + 1e-3 * P * P - 2e-6 * T * T + 1e-4 * P * T * (1 + 0.1 * k)


def write_tables(d, T, P):
    from cij.io.traditional.qha_output import save_x_tp
    funcs = {}
    t_ext = numpy.concatenate([T, T[-1] + (T[1] - T[0]) * numpy.arange(1, 5)])
    for k, (var, fname) in enumerate(FILES.items()):
        f = smooth(k)
        funcs[var] = f
        arr = f(t_ext[:, None], P[None, :])
        save_x_tp(arr, t_ext, P, P, os.path.join(d, fname))
    return funcs


def parse(out, header=True):
    return pandas.read_table(io.StringIO(out), sep=r"\s+", index_col=0, header=0 if header else None)


# =========================================================================================== deductive fragment (call-site contracts)
class _Swap:
    """temporarily replace entries of sys.modules (the callbacks import pandas / numpy / glob locally)"""

    def __init__(self, **mods):
        self.mods = mods

    def __enter__(self):
        import sys
        self.old = {k: sys.modules.get(k) for k in self.mods}
        sys.modules.update(self.mods)

    def __exit__(self, *a):
        import sys
        for k, v in self.old.items():
            if v is None:
                sys.modules.pop(k, None)
            else:
                sys.modules[k] = v
        return False


def _stubs():
    import types, z3
    from vf import symnp
    from vf.symnp import SymArr, Sc

    class Req(Sc):
        """the requested temperature / pressure: a symbolic real that can be compared with None"""
        def __eq__(self, o): return False if o is None else Sc.__eq__(self, o)
        def __ne__(self, o): return True if o is None else Sc.__ne__(self, o)
        __hash__ = Sc.__hash__

    class SymIdx:
        def __init__(self, j, of): self.j, self.of = j, of

    class SIndex:
        def __init__(self, arr): self.arr = arr
        def to_numpy(self, *a, **k): return self.arr
        @property
        def values(self): return self.arr

    class SSeries:
        def __init__(self, index, values, origin): self.index, self.values, self.origin = index, values, origin
        def to_numpy(self, *a, **k): return self.values

    class _ILoc:
        def __init__(self, fr): self.fr = fr

        def __getitem__(self, k):
            fr = self.fr
            if not isinstance(k, SymIdx):
                raise core.OutsideSubset("iloc[%r]" % (k,))
            return SSeries(fr._columns, SymArr((fr._columns.shape[0],), lambda idx, v=fr._values, j=k.j: v.elem((j, idx[0]))), ("row", fr, k))

    class SFrame:
        def __init__(self, index, columns, values, name=None, transposed=False):
            self._index, self._columns, self._values, self.name, self.transposed = index, columns, values, name, transposed
        @property
        def T(self):
            v = self._values
            return SFrame(self._columns, self._index, SymArr((v.shape[1], v.shape[0]), lambda idx, v=v: v.elem((idx[1], idx[0]))), self.name, not self.transposed)
        @property
        def index(self): return SIndex(self._index)
        @property
        def columns(self): return SIndex(self._columns)
        @property
        def iloc(self): return _ILoc(self)
        def to_numpy(self, *a, **k): return self._values

    class STable:
        """pandas.DataFrame(columns=..., index=...) being filled column by column, or the geotherm table"""
        def __init__(self, columns=None, index=None, data=None):
            self.columns_req, self.index, self.cols, self.printed = list(columns) if columns is not None else None, index, dict(data or {}), None
            self.order = list(self.cols)

        def __setitem__(self, k, v):
            if k not in self.order:
                self.order.append(k)
            self.cols[k] = v

        def __getitem__(self, k):
            if k not in self.cols:
                raise KeyError(k)
            return self.cols[k]

        def to_string(self, **kw):
            self.printed = dict(kw)
            return ("TABLE", self)
    return types.SimpleNamespace(Req=Req, SymIdx=SymIdx, SIndex=SIndex, SSeries=SSeries, SFrame=SFrame, STable=STable)


def ob_extract(ex, kind, variables, perturb=False):
    """the real `extract` callback on symbolic tables of symbolic size: what is handed to argmin, which row is taken, how
    the output table is labelled"""
    import types, z3
    from vf import symnp, smt
    from vf.symnp import SymArr, Dim, SymNumpy
    from contracts.nonshear_env import patched
    st = _stubs()
    nT, nP = Dim("nT"), Dim("nP")
    Tg, Pg = SymArr.atom("Tgrid", (nT,)), SymArr.atom("Pgrid", (nP,))
    tabs = {v: SymArr.atom("tab_%s" % v, (nT, nP)) for v in variables}
    y = z3.Real("y_requested")
    argmins, printed, tables = [], [], []

    def argmin(a, *args, **kw):
        if args or kw or not symnp.is_arr(a) or a.ndim != 1:
            raise core.OutsideSubset("argmin call shape")
        j = z3.Int("j%d" % len(argmins))
        argmins.append((j, a))
        return st.SymIdx(j, a)

    def argmax(a, *args, **kw):
        r = argmin(a, *args, **kw)
        r.is_max = True
        return r

    def absf(a):
        if symnp.is_arr(a):
            return SymArr(a.shape, lambda idx, e=a.elem: z3.If(e(idx) >= 0, e(idx), -e(idx)))
        raise core.OutsideSubset("abs of a non-array")
    snp = SymNumpy(extra={"argmin": argmin, "argmax": argmax, "nanargmin": argmin, "abs": absf, "absolute": absf, "fabs": absf})

    def DataFrame(*a, **kw):
        if a or set(kw) - {"columns", "index"}:
            raise core.OutsideSubset("DataFrame call shape")
        t = st.STable(columns=kw.get("columns"), index=kw.get("index"))
        tables.append(t)
        return t
    spd = types.SimpleNamespace(DataFrame=DataFrame)

    def load_data(var):
        if var not in tabs:
            raise core.OutsideSubset("load_data(%r)" % (var,))
        return st.SFrame(Tg, Pg, tabs[var], var)

    def rec_print(*a, **k):
        printed.append(a)
    req = st.Req(y)
    # the callback imports pandas / numpy locally today; a module-level import would bind them as module globals instead
    mods = {k: v for k, v in (("pandas", spd), ("numpy", snp)) if k in ex.__dict__}
    with patched(ex, load_data=load_data, print=rec_print, **mods), _Swap(pandas=spd, numpy=snp):
        ex.main.callback(variables=",".join(variables), hide_header=False, temperature=req if kind == "T" else None, pressure=req if kind == "P" else None)
    if len(printed) != 1 or len(printed[0]) != 1 or not (isinstance(printed[0][0], tuple) and printed[0][0][0] == "TABLE"):
        return core.refuted("callsite", "the command prints %r instead of one table" % (printed,), witness_id="print")
    table = printed[0][0][1]
    if table.printed.get("header", True) is not True or table.printed.get("index", True) is not True:
        return core.refuted("callsite", "table printed with %r (header requested, row labels required)" % (table.printed,), witness_id="to_string")
    if table.order != list(variables):
        return core.refuted("callsite", "output columns %s, requested %s" % (table.order, list(variables)), witness_id="columns")
    grid, other = (Tg, Pg) if kind == "T" else (Pg, Tg)
    i, c = z3.Ints("i c")
    goals, facts = [], [i >= 0, c >= 0]
    lab = table.index.arr if isinstance(table.index, st.SIndex) else table.index
    if not symnp.is_arr(lab):
        raise core.OutsideSubset("row labels of the output table: %r" % (lab,))
    if not symnp.same_shape(lab.shape, other.shape):
        return core.refuted("callsite", "the output is labelled by an array of shape %s, the other coordinate has %s" % (lab.shape, other.shape), witness_id="label-shape")
    goals.append(lab.elem((c,)) == other.elem((c,)))
    for v in variables:
        ser = table.cols[v]
        if not isinstance(ser, st.SSeries):
            raise core.OutsideSubset("column %r of the output is %r" % (v, ser))
        _, fr, k = ser.origin
        # alignment on assignment: the series' own labels must be the table's labels (same grid for every variable)
        goals.append(ser.index.elem((c,)) == lab.elem((c,)))
        # the argmin argument is the distance of this variable's own grid to the request
        dist = k.of
        if getattr(k, "is_max", False):
            return core.refuted("callsite", "variable %r: the row is chosen with argmax of the distance (the farthest grid point)" % v, witness_id="argmax")
        if not symnp.same_shape(dist.shape, grid.shape):
            return core.refuted("callsite", "argmin over an array of shape %s, the requested coordinate has %s" % (dist.shape, grid.shape), witness_id="argmin-shape:%s" % v)
        d = grid.elem((i,)) - y
        goals.append(dist.elem((i,)) == (d if perturb else z3.If(d >= 0, d, -d)))
        want = tabs[v].elem((k.j, c)) if kind == "T" else tabs[v].elem((c, k.j))
        goals.append(ser.values.elem((c,)) == want)
    r = smt.prove(z3.And(*goals), facts)
    if r.status == core.REFUTED:
        r.witness_id = "extract-%s" % kind
    elif r.status == core.PROVED:
        r.detail = ("for all grid sizes, grids, tables and requests: argmin is taken over |own %s grid - request|, column v of the output is row argmin of "
                    "table v, rows are labelled by the %s grid (%d variables)" % ("T" if kind == "T" else "P", "P" if kind == "T" else "T", len(variables)))
        r.sample = "extract -%s y: forall v, c: out[v][c] == tab_v[argmin_i |grid_i - y|, c]; labels == other grid" % kind
    return r


def ob_geotherm(geo, variables):
    """the real `extract-geotherm` callback: which grids / values the spline is built from and where it is evaluated"""
    import types, z3
    from vf import symnp, smt
    from vf.symnp import SymArr, Dim, SymNumpy
    from contracts.nonshear_env import patched
    st = _stubs()
    nT, nP, ng = Dim("nT"), Dim("nP"), Dim("ng")
    Tg, Pg = SymArr.atom("Tgrid", (nT,)), SymArr.atom("Pgrid", (nP,))
    tabs = {v: SymArr.atom("tab_%s" % v, (nT, nP)) for v in variables}
    gP, gT, gD = SymArr.atom("geoP", (ng,)), SymArr.atom("geoT", (ng,)), SymArr.atom("geoD", (ng,))
    gtab = st.STable(data={"P": gP, "T": gT, "D": gD})
    printed, splines = [], []

    class Spline:
        def __init__(self, x, y, z, **kw):
            if kw:
                raise core.OutsideSubset("RectBivariateSpline options %r" % (kw,))
            self.x, self.y, self.z = x, y, z
            splines.append(self)

        def __call__(self, xq, yq, **kw):
            self.q = (xq, yq, kw)
            return ("SPLINE-VALUES", self)

    def read_table(path, **kw):
        if kw.get("index_col", None) is not None or kw.get("header", "infer") not in (0, "infer"):
            raise core.OutsideSubset("read_table options %r" % (kw,))
        return gtab

    def load_data(var):
        return st.SFrame(Tg, Pg, tabs[var], var)
    import scipy.interpolate as real_si
    fake_si = types.ModuleType("scipy.interpolate")
    fake_si.RectBivariateSpline = Spline
    spd, snp = types.SimpleNamespace(read_table=read_table), SymNumpy()
    mods = {k: v for k, v in (("pandas", spd), ("numpy", snp), ("RectBivariateSpline", Spline)) if k in geo.__dict__}
    with patched(geo, load_data=load_data, print=lambda *a, **k: printed.append(a), **mods), \
            _Swap(pandas=spd, numpy=snp, **{"scipy.interpolate": fake_si}):
        import scipy
        old = scipy.interpolate
        scipy.interpolate = fake_si
        try:
            geo.main.callback(variables=",".join(variables), hide_header=False, t_col="P", p_col="T", geotherm="geo.txt")
        finally:
            scipy.interpolate = old
    if len(printed) != 1 or printed[0][0][1] is not gtab:
        return core.refuted("callsite", "the command does not print the geotherm table it read", witness_id="print")
    if gtab.printed.get("header", True) is not True or gtab.printed.get("index", True) is not False:
        return core.refuted("callsite", "table printed with %r" % (gtab.printed,), witness_id="to_string")
    if gtab.order != ["P", "T", "D"] + list(variables):
        return core.refuted("callsite", "output columns %s" % gtab.order, witness_id="columns")
    i, c, g = z3.Ints("i c g")
    goals = [gtab.cols["P"].elem((g,)) == gP.elem((g,)), gtab.cols["T"].elem((g,)) == gT.elem((g,)), gtab.cols["D"].elem((g,)) == gD.elem((g,))]
    for v in variables:
        val = gtab.cols[v]
        if not (isinstance(val, tuple) and val[0] == "SPLINE-VALUES"):
            raise core.OutsideSubset("column %r of the output is %r" % (v, val))
        sp = val[1]
        xq, yq, kw = sp.q
        if kw != {"grid": False}:
            return core.refuted("callsite", "spline evaluated with %r: point-wise evaluation needs grid=False" % (kw,), witness_id="grid")
        # which axis is which: the spline's first axis is either the T grid (then it must be queried with the geotherm T) or the P grid
        for first, second, q1, q2, tab in ((Tg, Pg, gT, gP, lambda a, b: tabs[v].elem((a, b))), (Pg, Tg, gP, gT, lambda a, b: tabs[v].elem((b, a)))):
            if symnp.same_shape(sp.x.shape, first.shape) and symnp.same_shape(sp.y.shape, second.shape):
                cand = z3.And(sp.x.elem((i,)) == first.elem((i,)), sp.y.elem((c,)) == second.elem((c,)), sp.z.elem((i, c)) == tab(i, c),
                              xq.elem((g,)) == q1.elem((g,)), yq.elem((g,)) == q2.elem((g,)))
                r = smt.prove(cand, [i >= 0, c >= 0, g >= 0])
                if r.status == core.PROVED:
                    break
        else:
            r = core.refuted("callsite", "variable %r: the spline is not built from (own grid, other grid, own table) and queried at the geotherm's matching columns" % v,
                             witness_id="spline-args")
            return r
        goals.append(z3.BoolVal(True))
    r = smt.prove(z3.And(*goals), [g >= 0])
    if r.status == core.PROVED:
        r.detail = ("each variable's column is RectBivariateSpline(own T grid, own P grid, own table) evaluated point-wise at (geotherm T, geotherm P); "
                    "geotherm columns passed through; printed without row labels (%d variables)" % len(variables))
        r.sample = "extract-geotherm: out[v][g] == Spline(Tgrid, Pgrid, tab_v)(geoT[g], geoP[g]); out[P,T,D] == geotherm columns"
    return r


def deductive(s, ex, geo):
    s.assume("A-NUMPY: numpy.argmin returns an index of a minimal entry (the first); A-SCIPY: RectBivariateSpline(x, y, z) interpolates z on the grid "
             "x X y (exact at nodes, convergent under refinement) -- the deductive obligations are the call-site contracts of these two",
             "load_data(var) returns var's table with temperatures as row labels and pressures as column labels (bounded part)")
    for kind in ("T", "P"):
        s.oblige("C19.extract.nearest_%s(call-site)" % ("row_by_T" if kind == "T" else "column_by_P"),
                 lambda kind=kind: ob_extract(ex, kind, ["c11s", "v_s", "bm_VRH"]), ["cli/extract.main"])
    s.canary("C19.canary.distance_without_abs", lambda: ob_extract(ex, "T", ["G_V"], perturb=True))
    s.oblige("C19.extract.single_variable(call-site)", lambda: ob_extract(ex, "T", ["G_V"]), ["cli/extract.main"])
    s.oblige("C19.geotherm.spline_arguments(call-site)", lambda: ob_geotherm(geo, ["c11s", "v_s"]), ["cli/geotherm.main", "cli/geotherm.fit_data"])


def run(s):
    from click.testing import CliRunner
    ex = importlib.import_module("cij.cli.extract")
    geo = importlib.import_module("cij.cli.geotherm")
    deductive(s, ex, geo)
    s.assume("A-PANDAS, A-CLICK, A-SCIPY (RectBivariateSpline), A-QHA (save_x_tp writes the tables)")
    s.undecided_part("load_data (glob + pandas parsing), pandas label alignment / printing and the spline's interpolation: bounded run-time contracts only")
    rnd = random.Random(s.seed)
    n = 4 if s.tier == "quick" else 60
    cwd = os.getcwd()
    fails, evals, distinct = [], 0, 0
    fails_g, evals_g, distinct_g = [], 0, 0
    for t in range(n):
        tmp = tempfile.mkdtemp(prefix="c19_")
        try:
            nT, nP = rnd.randint(5, 9), rnd.randint(5, 9)
            T = rnd.choice([0.0, 300.0]) + rnd.choice([100.0, 250.0]) * numpy.arange(nT)
            # pressure grids may start below zero (P_MIN < 0 is a legitimate setting): every third table set does
            P = (-6.0 if t % 3 == 1 else rnd.choice([0.0, 5.0])) + rnd.choice([1.0, 10.0, 2.5]) * numpy.arange(nP)
            funcs = write_tables(tmp, T, P)
            os.chdir(tmp)
            # ---------- extract
            reqs = [("v",), ("G_V",), ("bm_V",), ("c11s", "bm_VRH", "v_s"), tuple(FILES)]
            for vars_ in reqs:
                if fails:
                    break
                for kind in ("T", "P"):
                    grid, other = (T, P) if kind == "T" else (P, T)
                    targets = [grid[0], grid[-1], grid[len(grid) // 2], (grid[1] + grid[2]) / 2 - 1e-3, grid[0] - 7.0, grid[-1] + 3.0, (grid[2] * 0.3 + grid[3] * 0.7)]
                    for y in targets:
                        evals += 1
                        distinct += 1
                        res = CliRunner().invoke(ex.main, ["-v", ",".join(vars_), "-" + kind, repr(float(y))])
                        if res.exit_code != 0:
                            fails.append({"witness_id": "extract-exit:%d" % t, "input": {"variables": vars_, kind: float(y)}, "observed": "exit %s %r" % (res.exit_code, res.exception),
                                          "expected": "a table"})
                            break
                        df = parse(res.stdout)
                        j = int(numpy.argmin(numpy.abs(grid - y)))
                        msg = None
                        if list(df.columns) != list(vars_) or len(df) != len(other) or not numpy.allclose(df.index.to_numpy(dtype=float), other, rtol=1e-6, atol=1e-6):
                            msg = "columns %s / labels differ from the requested variables and the other coordinate" % list(df.columns)
                        else:
                            for var in vars_:
                                want = funcs[var](grid[j], other) if kind == "T" else funcs[var](other, grid[j])
                                if not numpy.allclose(df[var].to_numpy(dtype=float), want, rtol=1e-5, atol=1e-9):
                                    msg = "variable %r at %s=%g: returned values are not the %s of ITS table nearest to the request (%g)" % (var, kind, y, "row" if kind == "T" else "column", grid[j])
                                    break
                        if msg:
                            fails.append({"witness_id": "extract:%s:%s" % (",".join(vars_)[:20], kind), "input": {"variables": vars_, kind: float(y), "T_grid": T.tolist(), "P_grid": P.tolist()},
                                          "observed": msg, "expected": "exactly the nearest table row/column of each requested variable"})
                            break
                    if fails:
                        break
            # ---------- extract-geotherm
            for style in ("float", "int"):
                if fails_g:
                    break
                pts = [(P[i], T[j]) for i in range(nP) for j in range(nT)]
                rnd.shuffle(pts)
                corners = [(P[0], T[0]), (P[-1], T[-1]), (P[0], T[-1]), (P[-1], T[0])]  # first and last tabulated row / column are inside the table
                pts = corners + [q for q in pts if q not in corners][:6]
                if style == "int" and not all(float(p).is_integer() for p, _ in pts):
                    continue
                g = pandas.DataFrame({"P": [p for p, _ in pts], "T": [tt for _, tt in pts], "D": [660.0 + 10 * i for i in range(len(pts))]})
                if style == "int":
                    g["P"] = g["P"].astype(int)
                g.to_csv(os.path.join(tmp, "geo.txt"), sep=" ", index=False)
                vars_ = ("c11s", "v_s", "bm_VRH")
                evals_g += 1
                distinct_g += 1
                res = CliRunner().invoke(geo.main, ["-g", "geo.txt", "-v", ",".join(vars_)])
                if res.exit_code != 0:
                    fails_g.append({"witness_id": "geotherm-exit:%d" % t, "input": {"style": style}, "observed": "exit %s %r" % (res.exit_code, res.exception), "expected": "a table"})
                    break
                try:
                    df = pandas.read_table(io.StringIO(res.stdout), sep=r"\s+")
                    missing = [c for c in ("P", "T", "D") + vars_ if c not in df.columns]
                except Exception as e:  # noqa: BLE001 - an unreadable table is a verdict, not a checker crash
                    df, missing = None, ["unreadable: %r" % (e,)]
                if missing:
                    fails_g.append({"witness_id": "geotherm-table:%s" % style, "input": {"style": style, "points": pts[:4]}, "observed": "standard output is not the geotherm table with the requested columns (%s): %r" % (missing, res.stdout[:200]),
                                    "expected": "the geotherm's columns followed by one column per requested variable"})
                    break
                msg = None
                if not numpy.allclose(df["P"], g["P"]) or not numpy.allclose(df["T"], g["T"]) or not numpy.allclose(df["D"], g["D"]):
                    msg = "the geotherm's own columns are not passed through unchanged"
                for var in vars_:
                    if msg:
                        break
                    want = numpy.array([funcs[var](tt, p) for p, tt in pts])
                    if not numpy.allclose(df[var].to_numpy(dtype=float), want, rtol=1e-7, atol=1e-7):
                        msg = "grid-node points: %s differs from the table entries by up to %.3g (pressures written as %s)" % (var, float(numpy.abs(df[var].to_numpy(dtype=float) - want).max()), style)
                if msg:
                    fails_g.append({"witness_id": "geotherm-node:%s" % style, "input": {"style": style, "points": pts[:4], "T_grid": T.tolist(), "P_grid": P.tolist()}, "observed": msg,
                                    "expected": "the table entry itself at grid nodes; geotherm columns unchanged"})
                    break
            # between nodes: converges to the smooth function under grid refinement
            if not fails_g:
                errs = []
                for refine in (1, 2, 4):
                    d2 = tempfile.mkdtemp(prefix="c19r_")
                    try:
                        T2 = numpy.linspace(T[0], T[-1], (nT - 1) * refine + 1)
                        P2 = numpy.linspace(P[0], P[-1], (nP - 1) * refine + 1)
                        f2 = write_tables(d2, T2, P2)
                        os.chdir(d2)
                        gp = [(P[0] + (P[-1] - P[0]) * rnd.random(), T[0] + (T[-1] - T[0]) * rnd.random()) for _ in range(10)] if refine == 1 else gp
                        pandas.DataFrame({"P": [p for p, _ in gp], "T": [tt for _, tt in gp]}).to_csv("geo.txt", sep=" ", index=False)
                        res = CliRunner().invoke(geo.main, ["-g", "geo.txt", "-v", "c12s"])
                        evals_g += 1
                        if res.exit_code != 0:
                            fails_g.append({"witness_id": "geotherm-refine-exit", "input": {}, "observed": "exit %s %r" % (res.exit_code, res.exception), "expected": "a table"})
                            break
                        df = pandas.read_table(io.StringIO(res.stdout), sep=r"\s+")
                        want = numpy.array([f2["c12s"](tt, p) for p, tt in gp])
                        errs.append(float(numpy.abs(df["c12s"].to_numpy(dtype=float) - want).max()))
                    finally:
                        os.chdir(tmp)
                        shutil.rmtree(d2, ignore_errors=True)
                distinct_g += 1
                if not fails_g and not (errs[-1] <= max(errs[0], 1e-9) * 1.0001 and errs[-1] < 1e-3):
                    fails_g.append({"witness_id": "geotherm-convergence", "input": {"errors_under_refinement": errs}, "observed": "interpolation error does not shrink to the smooth function: %s" % errs,
                                    "expected": "convergence under grid refinement"})
        finally:
            os.chdir(cwd)
            shutil.rmtree(tmp, ignore_errors=True)
        if fails or fails_g:
            break
    # ---------- a LARGE table (more than a thousand temperatures, in the thorough tier also pressures): the table entry itself at grid nodes, also at the last rows and
    # columns and at nodes a thinned grid would skip; the entries carry a node-wise rough component, so only the tabulated numbers themselves can be returned there
    if not fails and not fails_g:
        from cij.io.traditional.qha_output import save_x_tp
        for nTb, nPb in ((1204, 9),) + (((9, 1362), (2407, 6)) if s.tier == "thorough" else ()):
            tmpb = tempfile.mkdtemp(prefix="c19b_")
            cwd = os.getcwd()
            try:
                Tb, Pb = numpy.linspace(0.0, 3.0 * (nTb - 1), nTb), numpy.linspace(0.0, 0.5 * (nPb - 1), nPb)
                Tb_ext = numpy.concatenate([Tb, Tb[-1] + 3.0 * numpy.arange(1, 5)])          # the calculator's tables carry four extra temperature rows, which load_data drops
                arr = smooth(1)(Tb_ext[:, None], Pb[None, :]) + 1e-2 * numpy.cos(7919.0 * numpy.arange(nTb + 4)[:, None] + 104729.0 * numpy.arange(nPb)[None, :])
                save_x_tp(arr, Tb_ext, Pb, Pb, os.path.join(tmpb, FILES["c12s"]))
                ii = sorted(set([0, 1, 2, nTb // 2, nTb // 2 + 1, nTb - 3, nTb - 2, nTb - 1] + [int(x) for x in numpy.random.RandomState(s.seed).randint(0, nTb, 6)]))
                jj = sorted(set([0, 1, nPb // 2, nPb - 2, nPb - 1] + [int(x) for x in numpy.random.RandomState(s.seed + 1).randint(0, nPb, 4)]))
                pts = [(i, j) for i in ii for j in jj]
                os.chdir(tmpb)
                pandas.DataFrame({"P": [Pb[j] for _, j in pts], "T": [Tb[i] for i, _ in pts]}).to_csv("geo.txt", sep=" ", index=False)
                res = CliRunner().invoke(geo.main, ["-g", "geo.txt", "-v", "c12s"])
                evals_g += 1
                distinct_g += 1
                if res.exit_code != 0:
                    fails_g.append({"witness_id": "geotherm-large-exit", "input": {"temperatures": nTb, "pressures": nPb}, "observed": "exit %s %r" % (res.exit_code, res.exception), "expected": "a table"})
                else:
                    df = pandas.read_table(io.StringIO(res.stdout), sep=r"\s+")
                    got = df["c12s"].to_numpy(dtype=float) if "c12s" in df.columns else numpy.full(len(pts), numpy.nan)
                    want = numpy.array([arr[i, j] for i, j in pts])
                    bad = [k for k in range(len(pts)) if not abs(got[k] - want[k]) <= 1e-5]
                    if bad:
                        i, j = pts[bad[0]]
                        fails_g.append({"witness_id": "geotherm-large-node", "input": {"temperatures": nTb, "pressures": nPb, "node": [i, j], "T": float(Tb[i]), "P": float(Pb[j])},
                                        "observed": "at grid node (row %d of %d, column %d of %d) the command returns %.6f, the table entry is %.6f (%d of %d node points differ)" % (
                                            i, nTb, j, nPb, got[bad[0]], want[bad[0]], len(bad), len(pts)), "expected": "the table entry itself at grid nodes"})
            finally:
                os.chdir(cwd)
                shutil.rmtree(tmpb, ignore_errors=True)
            if fails_g:
                break
    s.bounded_standin("C19.extract_nearest_row", "%d synthetic table sets (11 variables incl. names that are prefixes of other files, 5-8 temperatures x 5-8 pressures); requests at nodes, "
                      "between nodes and outside the grid, by T and by P, single and multiple variables; seed %d" % (n, s.seed), evals, distinct, fails, ["cli/extract.main", "cli/extract.load_data"])
    s.bounded_standin("C19.geotherm_values", "%d table sets: geotherm paths through grid nodes (pressures written as floats and as integers) and between nodes under 1x/2x/4x grid refinement; a table of 1204 temperatures (thorough: also 1362 pressures, 2407 temperatures) with rough entries at nodes incl. the last rows / columns; "
                      "seed %d" % (n, s.seed), evals_g, distinct_g, fails_g, ["cli/geotherm.main", "cli/geotherm.fit_data", "cli/geotherm.load_data"])
    s.min_obligations = 4


MANIFEST = {
    "engine": "symnp", "category": "other",
    "technique": "contract-based deductive verification of the call sites: the real click callbacks run on symbolic tables with recording pandas/numpy/scipy "
                 "contract stubs, obligations discharged by z3; bounded run-time contracts for file loading, pandas and the spline",
    "text": "Proved for all grid sizes, grids, tables and requests: extract hands |own grid - request| to numpy.argmin (nearest node by argmin's contract), "
            "takes that row (column, for -P) of each variable's OWN table and labels the output by the other coordinate, one column per requested "
            "variable in order; extract-geotherm builds RectBivariateSpline(T grid, P grid, own table) and evaluates it point-wise (grid=False) at the "
            "geotherm's (T, P) columns, passing the geotherm's own columns through and printing without row labels. Bounded: the real commands in "
            "temporary directories holding synthetic tables written by the calculator's own table writer (nodes, mid-points, out-of-grid requests, "
            "variable names that are prefixes of other files, integer-typed pressures, convergence under grid refinement).",
    "note": "A-NUMPY (argmin), A-SCIPY (RectBivariateSpline interpolates), A-PANDAS (alignment of equal labels is the identity; read_table). "
            "bounded: 4 (quick) / 60 (thorough) table sets; never counted as discharged.",
}
