"""C13 -- results do not depend on how the same physical data are presented."""
import importlib, io, itertools, os, random, shutil, tempfile, types, warnings
import numpy
import z3
from vf import core, smt, symnp
from vf.symnp import Sc, SymArr
from contracts.nonshear_env import Env, patched
from contracts import calc_env

LEVEL = "other"
EXPLANATION = ("presentation invariance as symmetry lemmas over the contracts: weight scaling on the real average_over_modes (symbolic arrays, "
               "sum rules), affine invariance of the Eulerian-strain fit, canonical keys for every column spelling (enumerated), volume-order "
               "guard of the QHA hand-over on symbolic volumes with all comparison paths; end-to-end re-presentations are a bounded stand-in")


def static_columns():
    """[F over systems x presentations] the same static table written with its modulus columns in several orders and letter cases, read and symmetry-filled one after the
    other IN ONE PROCESS: every presentation gives the same canonical-key table (a result that depends on which presentation was seen first is a re-presentation defect)"""
    import sympy as sp
    from specs import laue
    ed = importlib.import_module("cij.io.traditional.elast_dat")
    rnd = numpy.random.RandomState(21)
    tmp = tempfile.mkdtemp(prefix="c13cols_")
    n = 0
    try:
        for system in ("cubic", "hexagonal", "trigonal7", "orthorhombic", "monoclinic"):
            basis = numpy.array([[float(sp.N(x)) for x in v] for v in laue.invariant_basis(system)])
            tens = rnd.uniform(50, 400, size=(3, len(basis))) @ basis
            chosen = []
            for k in rnd.permutation(21):
                if numpy.linalg.matrix_rank(basis[:, chosen + [int(k)]], tol=1e-9) > len(chosen):
                    chosen.append(int(k))
            names = ["c%d%d" % (i, j) for i in range(1, 7) for j in range(i, 7)]
            results = []
            for pres in range(4):
                cols = list(chosen)
                if pres:
                    rnd.shuffle(cols)
                label = lambda k: names[k].upper() if pres in (2, 3) else names[k]
                path = os.path.join(tmp, "t%s%d" % (system, pres))
                with open(path, "w") as fp:
                    fp.write("# static table\n%12.4f %d %12.4f\n" % (600.0, 3, 120.0))
                    fp.write("V " + " ".join(label(k) for k in cols) + "\n")
                    for r_ in range(3):
                        fp.write("%12.4f " % (600.0 - 50 * r_) + " ".join("%16.8f" % tens[r_, k] for k in cols) + "\n")
                try:
                    data = ed.read_elast_data(path)
                    ed.apply_symetry_on_elast_data(data, {"system": system})
                except Exception as e:
                    return core.refuted("finite", "%s, presentation %d (columns %s): %r" % (system, pres, [label(k) for k in cols], e), witness_id="columns:%s" % system,
                                        replay={"reproduced": True, "system": system, "columns": [label(k) for k in cols]})
                n += 1
                results.append({k: [float(v.static_elastic_modulus[k]) for v in data.volumes] for k in data.volumes[0].static_elastic_modulus})
            for pres, r_ in enumerate(results[1:], 1):
                if set(r_) != set(results[0]) or any(not numpy.allclose(r_[k], results[0][k], rtol=1e-9, atol=1e-7) for k in r_):
                    bad = [repr(k) for k in r_ if k not in results[0] or not numpy.allclose(r_[k], results[0][k], rtol=1e-9, atol=1e-7)]
                    return core.refuted("finite", "%s: the table with its columns reordered%s gives different components %s than the first presentation read in this process"
                                        % (system, " and upper-cased" if pres > 1 else "", bad[:6]), witness_id="columns:%s" % system,
                                        replay={"reproduced": True, "system": system, "first": {repr(k): v for k, v in results[0].items()}, "later": {repr(k): v for k, v in r_.items()}})
    finally:
        shutil.rmtree(tmp, ignore_errors=True)
    return core.proved("finite", "%d reads + symmetry fills (5 systems x 4 presentations, one process): identical canonical tables" % n)


def native_presentations():
    """bounded fall-back of the symmetry lemmas: the real average_over_modes on concrete arrays (sizes on both sides of every size the code distinguishes) under a
    common weight factor, a permutation of the non-Gamma q-points with their weights, and a permutation of the modes that fixes the Gamma-acoustic slots"""
    import importlib as _il
    from props import C01
    ns = _il.import_module("cij.core.phonon_contribution.nonshear")
    rnd = numpy.random.RandomState(9)
    n = 0
    for nq in sorted(set([1, 3, 7] + C01.size_cases())):
        npm = 6
        X = rnd.normal(size=(2, 2, nq, npm))
        w = rnd.uniform(0.5, 4.0, size=nq)
        if nq >= 3:
            w[nq // 2] = 0.0          # a q-point listed with weight 0 (band-path point) in the MIDDLE of the list: it contributes nothing wherever it is listed
        base = numpy.asarray(ns.average_over_modes(X.copy(), w))
        M = X.copy()
        M[..., 0, :3] = 0
        want = numpy.einsum("...qm,q->...", M, w) / npm / w.sum()
        n += 1
        if not numpy.allclose(base, want, rtol=1e-11, atol=1e-13):
            return {"reproduced": True, "nq": nq, "what": "average_over_modes is not the weighted mean with the Gamma-acoustic slots excluded", "observed": numpy.ravel(base)[:3].tolist(),
                    "expected": numpy.ravel(want)[:3].tolist()}
        qp = numpy.concatenate([[0], 1 + rnd.permutation(nq - 1)]) if nq > 1 else numpy.array([0])
        mp_ = numpy.concatenate([[0, 1, 2], 3 + rnd.permutation(npm - 3)])
        scaled = [("weights x %g" % lam, ns.average_over_modes(X.copy(), lam * w)) for lam in (7.5, 1.0 / 3.0, 1e-9, 1e-5, 1e-3, 1e4, 1e9)]      # ALL positive factors: only ratios of weights are physical
        for label, got in scaled + [("non-Gamma q-points permuted", ns.average_over_modes(X[:, :, qp, :].copy(), w[qp])),
                           ("modes permuted", ns.average_over_modes(X[:, :, :, mp_].copy(), w))]:
            n += 1
            if not numpy.allclose(numpy.asarray(got), base, rtol=1e-10, atol=1e-13):
                return {"reproduced": True, "nq": nq, "what": "average_over_modes changes under the re-presentation: " + label, "observed": numpy.ravel(numpy.asarray(got))[:3].tolist(),
                        "expected": numpy.ravel(base)[:3].tolist()}
    return {"reproduced": False, "evaluations": n, "note": "%d native evaluations incl. q-point counts %s" % (n, C01.size_cases())}


def run(s):
    tier = s.tier
    s.trust("z3 5.1", "vf/symnp.py sum rules", "least squares is invariant under simultaneous row permutation (A-LSQ)", "QHA's own use of the weights (A-QHA)")
    s.assume("A-SUMS: a finite sum is invariant under permutation of its index set (Finset.sum_equiv)", "A-LSQ: least-squares fits are invariant under row permutation; a "
             "polynomial space is invariant under affine re-parametrisation", "A-QHA: QHA's free energy uses the weights only through normalised sums",
             "per-(q,m) independence of the mode interpolation is C11 (dispatch_no_mixing); request-order independence of the assembly is C04")
    s.undecided_part("QHA's own treatment of q-point order / weight scale (external); only exercised by the bounded end-to-end re-presentations")

    # ---------------- 1. weights multiplied by a common factor: the real average_over_modes on symbolic arrays
    def weight_scale():
        env = Env()
        ns = env.nonshear
        lam = z3.Real("lam")
        with env.active():
            X = SymArr.atom("X", (env.nt, env.ntv, env.nq, env.np))
            a = ns.average_over_modes(X, env.w)
            b = ns.average_over_modes(X, env.w * Sc(lam))
            return symnp.prove_arrays_equal(b, a, env.facts + [lam > 0], tier=tier, name="average_over_modes(x, lam*w)")
    s.oblige("C13.weight_scale_invariance", weight_scale, ["nonshear.average_over_modes"], fallback=native_presentations)

    def gamma_first():
        """the Gamma-acoustic exclusion is positional: q index 0, modes 0..2 -- so permutations must fix them (documented in the property)"""
        env = Env()
        ns = env.nonshear
        with env.active():
            X = SymArr.atom("X", (env.ntv, env.nq, env.np))
            y = X.copy()
            ns.clear_gamma_point(y)
            return symnp.prove_arrays_equal(y, SymArr(X.shape, lambda i: z3.If(z3.And(i[1] == 0, i[2] >= 0, i[2] < 3), z3.RealVal(0), X.elem(i))), env.facts, tier=tier)
    s.oblige("C13.gamma_acoustic_exclusion_is_positional(q=0,m<3)", gamma_first, ["nonshear.clear_gamma_point"])

    # ---------------- 2. every column spelling maps to the canonical key [F]
    def spellings():
        ed = importlib.import_module("cij.io.traditional.elast_dat")
        from cij.util import c_
        n = 0
        for pre in ("", "c", "C", "c_", "C_", "cij", "S"):
            for idx in ["%d%d" % p for p in itertools.product(range(1, 7), repeat=2)] + ["%d%d%d%d" % p for p in itertools.product((1, 2, 3), repeat=4)]:
                n += 1
                got = ed._find_modulus_key(pre + idx)
                if got != c_(idx):
                    return core.refuted("finite", "column %r is keyed %r, expected %r" % (pre + idx, got, c_(idx)), witness_id="spelling:" + pre + idx, replay={"reproduced": True})
        for other in ("V", "T", "volume", "c", "lattice_a"):
            if ed._find_modulus_key(other) != other:
                return core.refuted("finite", "non-modulus column %r is rewritten" % other, witness_id="spelling:" + other, replay={"reproduced": True})
        return core.proved("finite", "%d spellings (7 prefixes x 36 Voigt pairs + 81 four-index strings) map to the canonical key; other names pass through" % n)
    s.oblige("C13.static_column_spellings_canonical", spellings, ["elast_dat._find_modulus_key"], kind="finite")

    # ---------------- 3. reference volume of the Eulerian strain: an affine re-parametrisation (lemma, z3)
    def affine():
        # eps(V0, V) = ((V0/V)^(2/3) - 1)/2; with u = V^(-2/3), a = V0^(2/3), b = V0'^(2/3):  eps' = (b/a) eps + (b/a - 1)/2
        u, a, b = z3.Reals("u a b")
        eps, eps2 = (a * u - 1) / 2, (b * u - 1) / 2
        return smt.prove(eps2 == (b / a) * eps + (b / a - 1) / 2, [a > 0, b > 0, u > 0], tier=tier)
    s.oblige("C13.lemma.eulerian_strain_reference_change_is_affine", affine, ["full_modulus.FullThermalElasticModulus.fit_modulus"])

    def eulerian_def():
        from qha.grid_interpolation import calculate_eulerian_strain
        V0, V = 800.0, numpy.array([900.0, 800.0, 650.0, 500.0])
        got = calculate_eulerian_strain(V0, V)
        want = ((V0 / V) ** (2.0 / 3.0) - 1) / 2
        if not numpy.allclose(got, want, rtol=1e-12):
            return core.refuted("finite", "qha's eulerian strain is not ((V0/V)^(2/3)-1)/2", witness_id="eulerian", replay={"reproduced": True})
        return core.proved("finite", "qha.calculate_eulerian_strain(V0, V) = ((V0/V)^(2/3) - 1)/2 (the form the lemma is about)")
    s.oblige("C13.eulerian_strain_definition", eulerian_def, ["qha.grid_interpolation.calculate_eulerian_strain (dependency)"], kind="finite")

    # ---------------- static rows reordered: parse + fit on the real reader (no QHA needed)
    s.oblige("C13.static_columns_reordered_or_upper_cased(same process)", static_columns, ["elast_dat.read_elast_data", "elast_dat.apply_symetry_on_elast_data", "fill.fill_cij"], kind="finite")
    s.oblige("C13.static_rows_reordered", lambda: static_rows(s), ["elast_dat.read_elast_data", "full_modulus.FullThermalElasticModulus.get_static_modulus",
                                                                   "full_modulus.FullThermalElasticModulus.get_axial_strains"], kind="finite")

    # ---------------- 4. volume blocks: every normally returning path of read_input has decreasing volumes
    def volume_order():
        qa = importlib.import_module("cij.core.qha_adapter")
        from cij.io.traditional import models
        n = 0
        for nv in (2, 3, 4):
            vols = [Sc(z3.Real("vol%d" % i)) for i in range(nv)]
            inp = models.QHAInputData(nv, 1, 3, 1, 1, [((0, 0, 0), 1.0)], [models.VolumeData(0.0, vols[i], -1.0 * i, [models.QPointData((0, 0, 0), [0.0, 0.0, 0.0])]) for i in range(nv)])

            def thunk():
                obj = qa.QHACalculator.__new__(qa.QHACalculator)
                try:
                    qa.QHACalculator.read_input(obj, inp)
                    return "return"
                except (RuntimeError, ValueError):
                    return "raise"
            outs = symnp.Paths([], max_paths=512).run(thunk)
            dec = z3.And(*[vols[i].z >= vols[i + 1].z for i in range(nv - 1)])
            for pc, kind in outs:
                n += 1
                if kind == "return":
                    r = smt.prove(dec, pc, tier=tier, name="volume-order")
                    if r.status != core.PROVED:
                        r.detail = "%d volume blocks: read_input returns normally on the path %s although the volumes are not decreasing (QHA's grid refinement assumes volumes[0] = max " \
                                   "and the node-thinning interpolators depend on block order) | %s" % (nv, [str(c) for c in pc], r.detail)
                        r.witness_id = "volume-order"
                        r.replay = native_volume_order(qa)
                        return r
        return core.proved("z3", "%d symbolic paths (2-4 volume blocks): every normally returning path implies decreasing volumes; every other order raises" % n)
    s.oblige("C13.volume_blocks_decreasing_or_rejected", volume_order, ["qha_adapter.QHACalculator.read_input"])

    # ---------------- 5. bounded end-to-end re-presentations
    representations(s)
    if s.tier == "thorough":
        from vf import lean
        s.oblige("C13.lemmas.FiniteSums(lean)", lambda: lean.check_file("lemmas/FiniteSums.lean"), ["lemmas/FiniteSums.lean (sum rules: linearity, congruence, combination, "
                                                                                                     "positivity, permutation, weight scaling)"])
    # re-ordering q-points and modes commutes with the mode interpolation because every (q, m) slot is interpolated on its own, from its own column, into its own slot,
    # whatever the weights are: C11's dispatch obligation (mode_gamma.py, outside this property's anchored files), registered here as well
    from props import C11
    core.SubSession(s, lambda n: n.replace("C11.", "C13.mode_interpolation."), lambda n: n == "C11.dispatch_no_mixing").run(C11)
    # re-presentations act on the FILE: the reader (qha_input.py) must hand over modes in the listed order and weights as written, also in exponent notation (a common factor of 1e-6)
    from props import C17
    s.oblige("C13.reader.hands_over_as_written(hand-written files)", C17.reader_hands_over_as_written, ["qha_input.read_energy"], kind="finite")
    s.min_obligations = 8


def native_volume_order(qa):
    from cij.io.traditional import models
    for vols, want in (([900.0, 800.0, 700.0], "return"), ([700.0, 800.0, 900.0], "raise"), ([900.0, 700.0, 800.0], "raise"), ([800.0, 900.0, 700.0], "raise")):
        inp = models.QHAInputData(3, 1, 3, 1, 1, [((0, 0, 0), 1.0)], [models.VolumeData(0.0, v, -1.0, [models.QPointData((0, 0, 0), [0.0, 0.0, 0.0])]) for v in vols])
        obj = qa.QHACalculator.__new__(qa.QHACalculator)
        try:
            qa.QHACalculator.read_input(obj, inp)
            got = "return"
        except (RuntimeError, ValueError):
            got = "raise"
        if got != want:
            return {"reproduced": True, "volumes": vols, "observed": got, "expected": want}
    return {"reproduced": False}


def elast_text(header, cols, rows, lattice):
    out = ["title", header, " ".join(cols)]
    for r in rows:
        out.append(" ".join("%.8f" % x for x in r))
    if lattice is not None:
        out.append("lattice_a lattice_b lattice_c")
        for l in lattice:
            out.append(" ".join("%.8f" % x for x in l))
    return "\n".join(out) + "\n"


def static_rows(s):
    """re-presented static tables (rows permuted, columns permuted / upper-cased): parsed data fed to the real static fit and
    axial-strain functions on a fixed volume grid must give the same arrays"""
    ed = importlib.import_module("cij.io.traditional.elast_dat")
    fm = importlib.import_module("cij.core.full_modulus")
    rnd = random.Random(s.seed)
    nv = 7
    V = [600.0 - 25.0 * i for i in range(nv)]
    cols = ["V", "c11", "c22", "c33", "c12", "c13", "c23", "c44", "c55", "c66"]
    rows = [[V[i]] + [300.0 + 10 * k + (2.0 + 0.3 * k) * i + 0.05 * k * i * i for k in range(9)] for i in range(nv)]
    lattice = [[8.0 - 0.05 * i - 0.002 * i * i, 9.0 - 0.09 * i, 10.0 - 0.02 * i - 0.004 * i * i] for i in range(nv)]
    grid = numpy.linspace(640.0, 420.0, 15)
    tmp = tempfile.mkdtemp(prefix="c13_")

    def evaluate(text):
        p = os.path.join(tmp, "e.dat")
        with open(p, "w") as fp:
            fp.write(text)
        data = ed.read_elast_data(p)
        calc = types.SimpleNamespace(elast_data=data, v_array=grid, modulus_keys=list(data.volumes[0].static_elastic_modulus.keys()))
        F = fm.FullThermalElasticModulus
        me = F.__new__(F)
        me.calculator, me.elast_data = calc, data
        stat = {k: me.get_static_modulus(k) for k in calc.modulus_keys}
        return stat, me.get_axial_strains()
    try:
        ref_stat, ref_strain = evaluate(elast_text("600.0 %d 100.0" % nv, cols, rows, lattice))
        n = 0
        for trial in range(6):
            perm = list(range(nv))
            rnd.shuffle(perm)
            if trial == 0:
                perm = list(reversed(range(nv)))
            if trial == 1:
                perm[2], perm[3] = perm[3], perm[2]
                perm = [0, 1, 3, 2, 4, 5, 6]
            cperm = list(range(1, len(cols)))
            rnd.shuffle(cperm)
            cperm = [0] + cperm
            ncols = [cols[c].upper() if (rnd.random() < 0.5 and c) else cols[c] for c in cperm]
            nrows = [[rows[i][c] for c in cperm] for i in perm]
            nlat = [lattice[i] for i in perm]
            stat, strain = evaluate(elast_text("600.0 %d 100.0" % nv, ncols, nrows, nlat))
            n += 1
            if set(stat) != set(ref_stat):
                return core.refuted("finite", "re-presented table yields keys %s" % sorted(map(repr, stat)), witness_id="rows:keys", replay={"reproduced": True})
            for k in ref_stat:
                if not numpy.allclose(stat[k], ref_stat[k], rtol=1e-7, atol=0):
                    return core.refuted("finite", "static modulus %r changes (max rel %.3g) when the rows are listed in order %s and the columns as %s" % (
                        k, float(numpy.abs(stat[k] / ref_stat[k] - 1).max()), perm, ncols), witness_id="rows:static", replay={"reproduced": True, "row_order": perm})
            if not numpy.allclose(strain, ref_strain, rtol=1e-6, atol=1e-9):
                return core.refuted("finite", "axial strain fractions change (max abs %.3g) when the rows of the static table (and of its lattice block) are listed in order %s" % (
                    float(numpy.abs(strain - ref_strain).max()), perm), witness_id="rows:strain", replay={"reproduced": True, "row_order": perm})
    finally:
        shutil.rmtree(tmp, ignore_errors=True)
    return core.proved("finite", "%d re-presentations (rows reversed / swapped / shuffled together with their lattice rows, columns shuffled and upper-cased): same static moduli "
                                 "(1e-7) and axial strain fractions on the grid" % n)


def rewrite_input01(src_text, transform):
    qi = importlib.import_module("cij.io.traditional.qha_input")
    tmp = tempfile.mkdtemp(prefix="c13i_")
    try:
        p = os.path.join(tmp, "in")
        with open(p, "w") as fp:
            fp.write(src_text)
        data = qi.read_energy(p)
        data = transform(data)
        out = os.path.join(tmp, "out")
        qi.write_energy(out, data)
        text = open(out).read()
        # the package's writer prints the weights with six decimals; a re-scaled weight is written at full precision instead (the file format is free-form)
        head, sep, tail = text.rpartition("\nweight\n")
        if sep and len(tail.strip().split("\n")) == len(data.weights):
            tail = "".join("%10.6f %10.6f %10.6f %r\n" % (tuple(c) + (float(w),)) for c, w in data.weights)
            text = head + sep + tail
        return text
    finally:
        shutil.rmtree(tmp, ignore_errors=True)


def representations(s):
    from cij.io.traditional import models
    rnd = random.Random(s.seed)
    ex = "akimotoite"
    src = open(os.path.join(calc_env.example_dir(ex), "input01")).read()
    settings = {"qha": {"settings": {"NT": 6, "DT": 300, "DT_SAMPLE": 300, "NTV": 21, "DELTA_P": 2.0, "DELTA_P_SAMPLE": 2.0}},
                "elast": {"settings": {"mode_gamma": {"interpolator": "lsq_poly", "order": 3}}}}

    def ident(d):
        return d

    def perm_q(d):
        idx = list(range(1, d.nq))
        rnd.shuffle(idx)
        idx = [0] + idx
        vols = [models.VolumeData(v.pressure, v.volume, v.energy, [v.q_points[i] for i in idx]) for v in d.volumes]
        return models.QHAInputData(d.nv, d.nq, d.np, d.nm, d.na, [d.weights[i] for i in idx], vols)

    def perm_m(d):
        idx = list(range(d.np))
        tail = idx[3:]
        rnd.shuffle(tail)
        perq = {q: (idx[:3] + tail if q == 0 else rnd.sample(idx, len(idx))) for q in range(d.nq)}
        vols = [models.VolumeData(v.pressure, v.volume, v.energy, [models.QPointData(qp.coord, [qp.modes[i] for i in perq[q]]) for q, qp in enumerate(v.q_points)]) for v in d.volumes]
        return models.QHAInputData(d.nv, d.nq, d.np, d.nm, d.na, d.weights, vols)

    def scale_by(lam):
        return lambda d: models.QHAInputData(d.nv, d.nq, d.np, d.nm, d.na, [models.QPointWeight(c, w * lam) for c, w in d.weights], d.volumes)
    scale_w = scale_by(4.0)

    def rev_v(d):
        return models.QHAInputData(d.nv, d.nq, d.np, d.nm, d.na, d.weights, list(reversed(d.volumes)))

    def swap_v(d):
        v = list(d.volumes)
        v[1], v[2] = v[2], v[1]
        return models.QHAInputData(d.nv, d.nq, d.np, d.nm, d.na, d.weights, v)
    variants = [("q-points 2..n permuted", perm_q, None), ("modes permuted within q-points", perm_m, None), ("weights x 4", scale_w, None),
                ("volume blocks reversed", rev_v, "may-raise"), ("two inner volume blocks swapped", swap_v, "may-raise")]
    interps = [("lsq_poly", 3)]
    if s.tier == "thorough":
        interps += [("krogh", 4), ("pchip", 4)]
    else:
        variants = variants[:2] + variants[3:]
        rnd.shuffle(variants)
        variants = variants[:3] + [v for v in variants if v[0] == "two inner volume blocks swapped"][:1]
        variants = list(dict((v[0], v) for v in variants).values())
    fails, evals, distinct = [], 0, 0
    for it, order in interps:
        settings["elast"]["settings"]["mode_gamma"] = {"interpolator": it, "order": order}
        with calc_env.Case(ex, settings, input01_text=rewrite_input01(src, ident)) as case:
            ref = case.build()
            ref_vals = {k: numpy.array(v) for k, v in ref.modulus_adiabatic.items()}
            ref_iso = {k: numpy.array(v) for k, v in ref.modulus_isothermal.items()}
        for name, tf, mode in variants:
            evals += 1
            distinct += 1
            with calc_env.Case(ex, settings, input01_text=rewrite_input01(src, tf)) as case:
                try:
                    c = case.build()
                except Exception as e:
                    if mode == "may-raise":
                        continue
                    fails.append({"witness_id": "repr:%s:%s" % (it, name), "input": {"example": ex, "interpolator": it, "re-presentation": name}, "observed": "raises %r" % (e,),
                                  "expected": "same results"})
                    break
                bad = None
                for k in ref_vals:
                    for a, b, w in ((c.modulus_adiabatic[k], ref_vals[k], "adiabatic"), (c.modulus_isothermal[k], ref_iso[k], "isothermal")):
                        a = numpy.asarray(a)
                        ok = numpy.isfinite(b)
                        scale = numpy.abs(b[ok]).max()
                        if not numpy.allclose(a[ok], b[ok], rtol=1e-8, atol=1e-8 * scale):
                            bad = "%s %r differs by up to %.3g (scale %.3g)" % (w, k, float(numpy.abs(a[ok] - b[ok]).max()), scale)
                            break
                    if bad:
                        break
                if bad:
                    fails.append({"witness_id": "repr:%s:%s" % (it, name), "input": {"example": ex, "interpolator": it, "re-presentation": name}, "observed": bad,
                                  "expected": "results unchanged to rounding" + (" or an error" if mode else "")})
                    break
        if fails:
            break
    # the same on a synthetic-but-physical set (cheap: every re-presentation on every run): modes unsorted and crossing, non-integer weights, lattice block
    all_variants = [("q-points 2..n permuted", perm_q, None), ("modes permuted within q-points", perm_m, None), ("weights x 4", scale_w, None),
                    ("weights x 1e-7", scale_by(1e-7), None), ("weights x 3e5", scale_by(3e5), None),
                    ("volume blocks reversed", rev_v, "may-raise"), ("two inner volume blocks swapped", swap_v, "may-raise")]
    if not fails:
        t1, t2, desc = calc_env.synthetic_texts(seed=s.seed + 5, nq=4, na=2, system="orthorhombic")
        syn = {"qha": {"settings": {"NT": 6, "DT": 300, "DT_SAMPLE": 300, "NTV": 21, "DELTA_P": 2.0, "DELTA_P_SAMPLE": 2.0, "T_MIN": 0, "P_MIN": 0, "order": 3, "volume_ratio": 1.2}},
               "elast": {"settings": {"mode_gamma": {"interpolator": "lsq_poly", "order": 3}, "symmetry": {"system": "orthorhombic"}}}}
        with calc_env.Case("akimotoite", syn, input01_text=rewrite_input01(t1, ident), elast_text=t2) as case:
            ref = case.build()
            ref_vals = {k: numpy.array(v) for k, v in ref.modulus_adiabatic.items()}
            ref_iso = {k: numpy.array(v) for k, v in ref.modulus_isothermal.items()}
        for name, tf, mode in all_variants:
            evals += 1
            distinct += 1
            with calc_env.Case("akimotoite", syn, input01_text=rewrite_input01(t1, tf), elast_text=t2) as case:
                try:
                    c = case.build()
                except Exception as e:
                    if mode == "may-raise":
                        continue
                    fails.append({"witness_id": "repr-syn:%s" % name, "input": {"data": "synthetic", "re-presentation": name, "set": desc}, "observed": "raises %r" % (e,), "expected": "same results"})
                    break
                bad = None
                for k in ref_vals:
                    for a, b, w in ((c.modulus_adiabatic[k], ref_vals[k], "adiabatic"), (c.modulus_isothermal[k], ref_iso[k], "isothermal")):
                        a = numpy.asarray(a)
                        ok = numpy.isfinite(b)
                        scale = numpy.abs(b[ok]).max()
                        if a.shape != b.shape or not numpy.allclose(a[ok], b[ok], rtol=1e-8, atol=1e-8 * scale):
                            bad = "%s %r differs by up to %.3g (scale %.3g)" % (w, k, float(numpy.abs(a[ok] - b[ok]).max()) if a.shape == b.shape else float("nan"), scale)
                            break
                    if bad:
                        break
                if bad:
                    fails.append({"witness_id": "repr-syn:%s" % name, "input": {"data": "synthetic", "re-presentation": name, "set": desc}, "observed": bad,
                                  "expected": "results unchanged to rounding" + (" or an error" if mode else "")})
                    break
    # static table re-presented (columns reordered / upper-cased, rows with their lattice rows reordered) in WHOLE calculations, on a nearly cubic cell: the
    # three axial strain fractions differ by a few 1e-4 only, so which tasks are shared must not depend on the order the columns happen to be listed in
    if not fails:
        for lat, tag in (("pseudo_cubic", "nearly cubic"), (True, "orthorhombic")):
            t1, t2, desc = calc_env.synthetic_texts(seed=s.seed + 6, nq=3, na=2, system="orthorhombic", lattice=lat)
            with calc_env.Case("akimotoite", syn, input01_text=t1, elast_text=t2) as case:
                ref = case.build()
                ref_vals = {k: numpy.array(v) for k, v in ref.modulus_adiabatic.items()}
                ref_strain = numpy.asarray(ref._full_modulus.get_axial_strains() if hasattr(getattr(ref, "_full_modulus", None), "get_axial_strains") else [[0.0]])
            lines = t2.rstrip("\n").split("\n")
            nrow = len(desc["table"]["V"])
            head, colline, rows, latt = lines[:2], lines[2].split(), [ln.split() for ln in lines[3:3 + nrow]], lines[3 + nrow + 1:]
            ncol = len(colline)
            for name, cperm, upper, rperm in (("columns reversed", [0] + list(range(ncol - 1, 0, -1)), False, None),
                                              ("columns rotated and upper-cased", [0] + [1 + (k + 4) % (ncol - 1) for k in range(ncol - 1)], True, None),
                                              ("shear columns first", [0] + list(range(7, ncol)) + list(range(1, 7)), False, None),
                                              ("rows reversed, columns c33 c22 c11 ...", [0, 3, 2, 1] + list(range(4, ncol)), False, list(range(nrow - 1, -1, -1)))):
                rp = rperm or list(range(nrow))
                new = head + [" ".join((colline[c].upper() if upper and c else colline[c]) for c in cperm)] + [" ".join(rows[i][c] for c in cperm) for i in rp] \
                    + [lines[3 + nrow]] + [latt[i] for i in rp]
                evals += 1
                distinct += 1
                with calc_env.Case("akimotoite", syn, input01_text=t1, elast_text="\n".join(new) + "\n") as case:
                    try:
                        c = case.build()
                    except Exception as e:
                        fails.append({"witness_id": "repr-static:%s" % name, "input": {"data": "synthetic, %s cell" % tag, "static table": name}, "observed": "raises %r" % (e,), "expected": "same results"})
                        break
                    bad = None
                    for k in ref_vals:
                        a, b = numpy.asarray(c.modulus_adiabatic[k]), ref_vals[k]
                        ok = numpy.isfinite(b)
                        scale = numpy.abs(b[ok]).max()
                        if a.shape != b.shape or not numpy.allclose(a[ok], b[ok], rtol=1e-8, atol=1e-8 * scale):
                            bad = "adiabatic %r differs by up to %.3g (scale %.3g)" % (k, float(numpy.abs(a[ok] - b[ok]).max()) if a.shape == b.shape else float("nan"), scale)
                            break
                    if bad:
                        fails.append({"witness_id": "repr-static:%s" % name, "input": {"data": "synthetic, %s cell" % tag, "static table": name, "axial strain fractions (first grid volume)":
                                                                                      numpy.ravel(ref_strain)[:3].tolist()},
                                      "observed": bad, "expected": "results unchanged to rounding"})
                        break
            if fails:
                break
    s.bounded_standin("C13.end_to_end_re_presentations", "akimotoite example re-written by the package's own writer; %d re-presentations x %d interpolator(s); a synthetic set (4 q-points, "
                      "unsorted crossing modes, non-integer weights) under all 7 re-presentations (weights x 4, x 1e-7, x 3e5); whole calculations on a nearly cubic and an orthorhombic cell with the static table's columns reversed / rotated / upper-cased / shear first and its rows reversed; relative tolerance 1e-8; "
                      "reordered volume blocks must give the same numbers or be rejected; seed %d" % (len(variants), len(interps), s.seed), evals, distinct, fails,
                      ["calculator.Calculator"])


MANIFEST = {
    "engine": "symnp", "category": "other",
    "technique": "contract-based deductive verification of symmetry lemmas over the contracts (weight scaling on the real average_over_modes, "
                 "affine strain lemma, volume-order guard on symbolic volumes with forking; z3) + finite enumerations; bounded end-to-end runs",
    "text": "Discharged: average_over_modes(x, lambda*w) = average_over_modes(x, w) for all arrays and sizes (real function, sum rules); the "
            "Gamma-acoustic exclusion is positional (q = 0, m < 3), which is exactly the class of permutations the property allows; every column "
            "spelling (7 prefixes x 36 + 81 index strings) is keyed canonically; changing the reference volume of the Eulerian strain is an affine "
            "re-parametrisation (so the cubic fit is unchanged, with A-LSQ); on symbolic volume lists of 2-4 blocks every normally-returning path "
            "of QHACalculator.read_input implies decreasing volumes. Enumerated: six re-presentations of a static table incl. its lattice block "
            "give identical static fits and strain fractions. Bounded: whole calculations on re-presented copies of an example.",
    "note": "Permutation invariance of finite sums and of least squares are stated mathematics (A-SUMS, A-LSQ); QHA's own handling is external; "
            "end-to-end part bounded (4 quick / 15 thorough re-presentation runs on one example).",
}
