"""C16 -- effective configuration = user settings over packaged defaults; invalid rejected.

update_config: pyvc/pydict on the AST of cij/io/config/config.py (nested dictionaries as an uninterpreted sort,
loop rule, recursion by its own contract); lemmas over the spec function `merge`; call-site obligations for
apply_default_config / read_config on the real functions with recording stubs; jsonschema validation by finite
enumeration of single-field perturbations generated from the schema itself (external library => [F]/[bounded]).
"""
import ast, copy, importlib, io, itertools, json, os, random, sys, tempfile, types
import z3
from vf import core, smt, pyvc, pydict
from vf.pydict import Val, Key, isdict, haskey, get, truthy, ValV, DictVM

LEVEL = "proof"
EXPLANATION = ("merge: verification conditions generated from the source of update_config (all nested dictionaries); "
               "loading/validation: call-site obligations on the real functions + finite enumeration over the schema")

merge = z3.Function("merge", Val, Val, Val)
a, b = z3.Consts("a b", Val)


def spec_get(x, y, k):
    """value of merge(x,y) at key k, clause by clause from the property statement: user value kept, unspecified taken
    from the defaults, sub-dictionaries merged recursively, user wins when only one side is a dictionary"""
    ax, by = get(x, k), get(y, k)
    return z3.If(z3.Not(haskey(x, k)), by,
                 z3.If(z3.Not(haskey(y, k)), ax,
                       z3.If(z3.And(isdict(ax), isdict(by)), merge(ax, by), ax)))


def merge_axioms(pairs, keys):
    """definition of the spec function instantiated for the given (x,y) pairs and keys"""
    out = []
    for (x, y) in pairs:
        out.append(z3.Implies(z3.And(isdict(x), isdict(y)), isdict(merge(x, y))))
        for k in keys:
            out.append(z3.Implies(z3.And(isdict(x), isdict(y)),
                                  z3.And(haskey(merge(x, y), k) == z3.Or(haskey(x, k), haskey(y, k)),
                                         z3.Implies(z3.Or(haskey(x, k), haskey(y, k)), get(merge(x, y), k) == spec_get(x, y, k)))))
    return out


# ------------------------------------------------------------------------------------------ independent python oracle
def py_merge(x, y):
    out = {}
    for k in list(x) + [k for k in y if k not in x]:
        if k not in x:
            out[k] = y[k]
        elif k not in y:
            out[k] = x[k]
        elif isinstance(x[k], dict) and isinstance(y[k], dict):
            out[k] = py_merge(x[k], y[k])
        else:
            out[k] = x[k]
    return out


LEAVES = [0, 1, 0.0, 2.5, False, True, "", "x", None, [], [1]]


def typed_eq(x, y):
    if type(x) is not type(y):
        return False
    if isinstance(x, dict):
        return set(x) == set(y) and all(typed_eq(x[k], y[k]) for k in x)
    return x == y


def small_values(depth):
    vals = list(LEAVES)
    if depth > 0:
        subs = [{}, {"p": 0}, {"p": 1, "q": {"r": ""}}, {"q": {}}]
        vals += subs
    return vals


def native_battery(update_config, limit=None):
    """complete enumeration of a small concrete domain on the real function (also used as the replay of a refuted VC)"""
    MISSING = object()
    n = 0
    vals = small_values(1) + [MISSING]
    for va in vals:
        for vb in vals:
            x = {} if va is MISSING else {"k": va}
            y = {} if vb is MISSING else {"k": vb}
            x.update({"only_user": 3})
            y.update({"only_default": {"z": 1}})
            x0, y0 = copy.deepcopy(x), copy.deepcopy(y)
            n += 1
            try:
                got = update_config(x, y)
            except Exception as e:
                return n, {"input": [repr(x0), repr(y0)], "observed": "raises " + repr(e), "expected": repr(py_merge(x0, y0))}
            want = py_merge(x0, y0)
            if not typed_eq(got, want):
                return n, {"input": [repr(x0), repr(y0)], "observed": repr(got), "expected": repr(want)}
            if not typed_eq(x, x0) or not typed_eq(y, y0):
                return n, {"input": [repr(x0), repr(y0)], "observed": "inputs modified: %r %r" % (x, y), "expected": "inputs unmodified"}
            try:
                again = update_config(got, y)
            except Exception as e:
                return n, {"input": [repr(x0), repr(y0)], "observed": "second merge raises " + repr(e), "expected": "idempotent"}
            if not typed_eq(again, got):
                return n, {"input": [repr(x0), repr(y0)], "observed": "not idempotent: %r" % (again,), "expected": repr(got)}
    return n, None


# ------------------------------------------------------------------------------------------ run
def run(s):
    cfg = importlib.import_module("cij.io.config.config")
    path = os.path.join(core.REPO, "cij/io/config/config.py")
    mod = pyvc.Module(path, cfg)
    tier = s.tier
    s.python_semantics = list(pyvc.SEMANTICS) + list(pydict.SEMANTICS)
    s.trust("z3 5.1 (UF + quantifier-free instances)", "vf/pyvc.py + vf/pydict.py (loop rule, recursion by contract)",
            "jsonschema / yaml / json libraries (external; exercised, not verified)")
    s.assume("A-PYSEM", "A-YAML, A-JSONSCHEMA: libraries behave as documented")
    s.undecided_part("that jsonschema implements JSON-schema semantics (external): validation is enumerated, not proved")
    FN = "config.update_config"

    f = mod.functions.get("update_config")
    pre = [isdict(a), isdict(b)]
    holder = {}

    def explore():
        if f is None:
            raise core.OutsideSubset("update_config no longer exists")
        params = [p.arg for p in f.node.args.args]
        if len(params) != 2:
            raise core.OutsideSubset("update_config no longer takes two parameters")
        vm = DictVM(mod, rec_name="update_config", params=[a, b],
                    rec_contract={"requires": lambda x, y: z3.And(isdict(x), isdict(y)), "result": lambda x, y: merge(x, y)})
        outs = vm.explore(f, [ValV(a), ValV(b)], pre=pre)
        holder["vm"], holder["outs"] = vm, outs
        return vm, outs

    def model_dicts(model):
        return {"model": {k: v for k, v in (model or {}).items() if not k.startswith("k!")} if isinstance(model, dict) else str(model)}

    def with_replay(r, wid):
        if r.status == core.REFUTED:
            n, fail = native_battery(cfg.update_config)
            r.replay = dict(fail or {}, reproduced=bool(fail), battery_cases=n)
            r.witness_id = wid if not fail else wid + ":" + fail["input"][0] + fail["input"][1]
        return r

    # ---------------- 1. the function returns a dictionary built by the loop, for all dict inputs
    def returns_normally():
        vm, outs = explore()
        for o in outs:
            if o.kind == "raise":
                r = smt.prove(z3.BoolVal(False), pre + o.defs + o.pc, tier=tier)
                if r.status != core.PROVED:
                    r.detail = "update_config raises %s on path %s" % (o.exc, z3.simplify(pyvc.pc_of(o)))
                    return with_replay(r, "raises")
        rets = [o for o in outs if o.kind == "return"]
        if len(rets) != 1 or not isinstance(rets[0].value, pydict.LocalDictV) or rets[0].value.comp is None:
            return core.unknown("pyvc", "unexpected shape of the result: %r" % ([pyvc.show(o.value) for o in rets],))
        comp = rets[0].value.comp
        for c in comp["cases"]:
            hyp = pre + c["defs"] + c["pc"] + [comp["member"]]
            if c["kind"] == "raise":
                r = smt.prove(z3.BoolVal(False), hyp, tier=tier)
                if r.status != core.PROVED:
                    r.detail = "the loop body raises %s for a key with %s" % (c["exc"], z3.simplify(z3.And(*c["pc"])) if c["pc"] else True)
                    return with_replay(r, "loop-raises-" + str(c["exc"]))
        return core.proved("z3", "no raising path for dictionary inputs (%d body cases)" % len(comp["cases"]))
    s.oblige("C16.update_config.returns_normally", returns_normally, [FN])

    def comp():
        outs = holder.get("outs")
        if not outs:
            raise core.OutsideSubset("summary unavailable")
        rets = [o for o in outs if o.kind == "return"]
        if len(rets) != 1 or not isinstance(rets[0].value, pydict.LocalDictV) or rets[0].value.comp is None:
            raise core.OutsideSubset("unexpected result shape")
        return rets[0].value.comp

    # ---------------- 2. keys(out) = keys(a) U keys(b): every iteration writes exactly out[k]
    def keys_ob():
        c = comp()
        k = c["k"]
        if [str(d) for d in c["dicts"]] != ["a", "b"] and sorted(str(d) for d in c["dicts"]) != ["a", "b"]:
            return core.refuted("pyvc", "the loop iterates over the keys of %s, not of both arguments" % c["dicts"], witness_id="loop-domain")
        for case in c["cases"]:
            if case["kind"] != "ok":
                continue
            hyp = pre + case["defs"] + case["pc"] + [c["member"]]
            if smt.satisfiable(hyp, 3000) == z3.unsat:
                continue
            ws = case["writes"]
            if len(ws) != 1 or not ws[0][0].z.eq(k):
                r = core.refuted("pyvc", "an iteration for key k writes %d item(s) %s instead of exactly out[k] (path %s)"
                                 % (len(ws), [str(w[0].z) for w in ws], [str(x) for x in case["pc"]]))
                return with_replay(r, "keys")
        return core.proved("pyvc+z3", "each of the %d body cases stores exactly out[k]; with the loop rule keys(out) = keys(a) U keys(b)" % len(c["cases"]))
    s.oblige("C16.update_config.keys_are_the_union", keys_ob, [FN])

    # ---------------- 3. out[k] is the merge value, for every key
    def values_ob():
        c = comp()
        k = c["k"]
        total = 0.0
        for case in c["cases"]:
            if case["kind"] != "ok" or len(case["writes"]) != 1:
                continue
            v = case["writes"][0][1]
            if not isinstance(v, ValV):
                return core.refuted("pyvc", "out[k] receives a %s" % type(v).__name__, witness_id="value-type")
            hyp = pre + case["defs"] + case["pc"] + [c["member"]]
            r = smt.prove(v.z == spec_get(a, b, k), hyp, tier=tier, name="values")
            total += r.time_s
            if r.status != core.PROVED:
                r.detail = "out[k] = %s differs from the merge value on path %s | %s" % (v.z, [str(x) for x in case["pc"]], r.detail)
                return with_replay(r, "values")
        return core.Result(core.PROVED, "z3", "out[k] == spec value on every body case", time_s=total,
                           sample="forall k in keys(a)|keys(b): out[k] == %s" % spec_get(a, b, k))
    s.oblige("C16.update_config.values_are_the_merge", values_ob, [FN])

    # ---------------- 4. recursive call: precondition + structural decrease
    def callsite_ob():
        vm = holder.get("vm")
        if vm is None:
            raise core.OutsideSubset("summary unavailable")
        if vm.callsite_failures:
            q, pc, req, model = vm.callsite_failures[0]
            r = core.refuted("z3", "recursive call of update_config does not establish its precondition %s under %s"
                             % (req, [str(x) for x in pc][-6:]), model=str(model)[:800])
            return with_replay(r, "callsite")
        if vm.bad_decreases:
            return core.unknown("pyvc", "recursive call on %s is not a sub-value of the first argument: termination not shown" % vm.bad_decreases)
        return core.proved("z3", "every recursive call has dictionary arguments that are sub-values of the first parameter")
    s.oblige("C16.update_config.recursive_call_precondition_and_decrease", callsite_ob, [FN])

    # ---------------- 5. frame: inputs unmodified (only the local result dictionary is written)
    def frame_ob():
        vm = holder.get("vm")
        if vm is None:
            raise core.OutsideSubset("summary unavailable")
        if vm.frame_violations:
            return with_replay(core.refuted("frames", "; ".join(vm.frame_violations)), "frame")
        src = ast.unparse(f.node)
        for bad in ("global ", "nonlocal ", ".update(", ".pop(", ".setdefault(", ".clear(", "del "):
            if bad in src:
                return with_replay(core.refuted("frames", "update_config contains %r" % bad.strip()), "frame")
        return core.proved("frames", "only the local dictionary is written; sub-dictionaries present on one side only are shared "
                                     "(aliased) with the input, not copied")
    s.oblige("C16.update_config.frame", frame_ob, [FN], kind="frame")

    # ---------------- 6. lemmas over the spec function merge (the property's phrases)
    k1 = z3.Const("k1", Key)
    x, y = a, b

    def lemma(goal, pairs, keys, hyp=()):
        return smt.prove(goal, pre + merge_axioms(pairs, keys) + list(hyp), tier=tier)
    s.oblige("C16.lemma.no_other_keys", lambda: lemma(haskey(merge(x, y), k1) == z3.Or(haskey(x, k1), haskey(y, k1)), [(x, y)], [k1]))
    s.oblige("C16.lemma.user_leaf_kept", lambda: lemma(
        z3.Implies(z3.And(haskey(x, k1), z3.Not(isdict(get(x, k1)))), get(merge(x, y), k1) == get(x, k1)), [(x, y)], [k1]))
    s.oblige("C16.lemma.user_subtree_kept_or_merged", lambda: lemma(
        z3.Implies(z3.And(haskey(x, k1), isdict(get(x, k1))),
                   z3.Or(get(merge(x, y), k1) == get(x, k1),
                         z3.And(haskey(y, k1), isdict(get(y, k1)), get(merge(x, y), k1) == merge(get(x, k1), get(y, k1))))), [(x, y)], [k1]))
    s.oblige("C16.lemma.unspecified_taken_from_defaults", lambda: lemma(
        z3.Implies(z3.And(z3.Not(haskey(x, k1)), haskey(y, k1)), get(merge(x, y), k1) == get(y, k1)), [(x, y)], [k1]))

    def idem():
        # merge(merge(a,b), b)[k] == merge(a,b)[k] for every present key, with the induction hypothesis on sub-values
        m = merge(x, y)
        sub_a, sub_b = get(x, k1), get(y, k1)
        ih = [z3.Implies(z3.And(isdict(sub_a), isdict(sub_b)), merge(merge(sub_a, sub_b), sub_b) == merge(sub_a, sub_b)),
              z3.Implies(isdict(sub_b), merge(sub_b, sub_b) == sub_b)]      # lemma merge(z,z) = z, proved separately
        ax = merge_axioms([(x, y), (m, y), (sub_a, sub_b)], [k1])
        present = z3.Or(haskey(x, k1), haskey(y, k1))
        goal = z3.And(haskey(merge(m, y), k1) == haskey(m, k1), z3.Implies(present, get(merge(m, y), k1) == get(m, k1)))
        return smt.prove(goal, pre + ax + ih, tier=tier)
    def self_merge():
        # merge(z,z)[k] == z[k] for every key, with the induction hypothesis on the sub-value (then merge(z,z) = z by extensionality)
        z_ = x
        sub = get(z_, k1)
        ih = [z3.Implies(isdict(sub), merge(sub, sub) == sub)]
        goal = z3.And(haskey(merge(z_, z_), k1) == haskey(z_, k1), z3.Implies(haskey(z_, k1), get(merge(z_, z_), k1) == get(z_, k1)))
        return smt.prove(goal, [isdict(z_)] + merge_axioms([(z_, z_)], [k1]) + ih, tier=tier)
    s.oblige("C16.lemma.merge_with_itself(pointwise, IH on sub-values)", self_merge)
    s.oblige("C16.lemma.idempotent(pointwise, IH on sub-values)", idem)

    # canary: a wrong clause (defaults win on conflict) must be refuted
    def canary_defaults_win():
        c = comp()
        k = c["k"]
        for case in c["cases"]:
            if case["kind"] != "ok" or len(case["writes"]) != 1:
                continue
            v = case["writes"][0][1]
            wrong = z3.If(z3.Not(haskey(a, k)), get(b, k), z3.If(z3.Not(haskey(b, k)), get(a, k), get(b, k)))
            r = smt.prove(v.z == wrong, pre + case["defs"] + case["pc"] + [c["member"]], tier=tier)
            if r.status == core.REFUTED:
                return r
        return core.proved("z3", "perturbed spec accepted")
    s.canary("C16.canary.defaults_win", canary_defaults_win)

    # ---------------- 7. complete small domain on the real function [F]
    def finite():
        n, fail = native_battery(cfg.update_config)
        s.notes["merge_small_domain_cases"] = n
        if fail:
            return core.refuted("finite", json.dumps(fail)[:1500], witness_id="finite:" + fail["input"][0] + fail["input"][1],
                                replay=dict(fail, reproduced=True))
        return core.proved("finite", "%d pairs of nested dictionaries (leaf palette incl. falsy values, sub-dictionaries, missing keys): "
                                     "result == independent merge, inputs unmodified, idempotent" % n)
    s.oblige("C16.update_config.small_domain", finite, [FN], kind="finite")

    # ---------------- 8. apply_default_config / read_config: call-site obligations on the real functions
    s.oblige("C16.apply_default_config.callsite", lambda: apply_default_callsite(cfg), ["config.apply_default_config"])
    s.oblige("C16.apply_default_config.histories(earlier results edited in place)", lambda: apply_default_histories(cfg), ["config.apply_default_config", FN], kind="finite")
    s.oblige("C16.read_config.dispatch", lambda: read_config_dispatch(cfg), ["config.read_config"], kind="finite")
    # ---------------- 9. validation: enumeration generated from the schema [F over the schema's fields]
    s.oblige("C16.validate_config.schema_perturbations", lambda: validation(s), ["validate.validate_config", "config.schema.json"], kind="finite")
    # ---------------- 9b. the PACKAGED defaults and schema are used wherever the process is started: a working directory that holds files named like them changes nothing
    s.oblige("C16.packaged_files_not_shadowed_by_working_directory", lambda: not_shadowed(cfg), ["config.apply_default_config", "validate.validate_config", "cij.data.get_data_fname"], kind="finite")
    # ---------------- 10. YAML == JSON loading [bounded]
    yaml_json_bounded(s, cfg)
    s.min_obligations = 16


def not_shadowed(cfg):
    import yaml, jsonschema, tempfile, shutil
    from cij.io.config.validate import validate_config
    with open(os.path.join(core.REPO, "cij/data/default/settings.yaml")) as fp:
        packaged = yaml.safe_load(fp)
    user = {"qha": {"input": "input01"}, "elast": {"input": "input02"}}
    cwd = os.getcwd()
    tmp = tempfile.mkdtemp(prefix="c16w_")
    try:
        # decoys under every relative name the package's data lookup uses, directly and inside a directory called `cij/data`
        for base in ("", "cij/data", "data"):
            for rel, text in (("default/settings.yaml", "qha:\n  settings:\n    NT: 3\nelast:\n  settings: {}\n"), ("schema/config.schema.json", "{}"),
                              ("default/settings.yml", "{}"), ("settings.yaml", "{}"), ("config.schema.json", "{}")):
                d = os.path.join(tmp, base, os.path.dirname(rel))
                os.makedirs(d, exist_ok=True)
                with open(os.path.join(tmp, base, rel), "w") as fp:
                    fp.write(text)
        os.chdir(tmp)
        eff = cfg.apply_default_config(copy.deepcopy(user))
        want = py_merge(user, packaged)
        if not typed_eq_deep(eff, want):
            return core.refuted("finite", "started from a directory that holds a file default/settings.yaml, the effective configuration takes its unspecified leaves from THAT file "
                                          "(NT = %r, packaged %r)" % (eff.get("qha", {}).get("settings", {}).get("NT"), packaged["qha"]["settings"].get("NT")),
                                witness_id="shadow:defaults", replay={"reproduced": True, "working_directory_holds": "default/settings.yaml, schema/config.schema.json"})
        bad = copy.deepcopy(packaged)
        del bad["elast"]
        try:
            validate_config(bad)
            return core.refuted("finite", "started from a directory that holds schema/config.schema.json, a configuration without the elast section validates (the packaged schema is not the one used)",
                                witness_id="shadow:schema", replay={"reproduced": True})
        except jsonschema.exceptions.ValidationError:
            pass
    finally:
        os.chdir(cwd)
        shutil.rmtree(tmp, ignore_errors=True)
    return core.proved("finite", "with decoy files under the working directory the effective configuration is user-over-PACKAGED-defaults and the packaged schema still rejects a missing section")


def apply_default_callsite(cfg):
    import yaml, cij.data
    calls = []
    real = cfg.update_config
    cfg.update_config = lambda *aa, **kw: calls.append((aa, kw)) or "RESULT"
    try:
        user = {"qha": {"input": "zzz"}}
        res = cfg.apply_default_config(user)
    finally:
        cfg.update_config = real
    with open(os.path.join(core.REPO, "cij/data/default/settings.yaml")) as fp:
        want = yaml.safe_load(fp)
    if res != "RESULT" or len(calls) != 1:
        return core.refuted("callsite", "apply_default_config does not return update_config(...) (calls: %d, result %r)" % (len(calls), res),
                            witness_id="apply-default-shape", replay={"reproduced": True})
    (aa, kw) = calls[0]
    args = list(aa) + [kw[k] for k in ("input_dict", "default_dict") if k in kw]
    if len(args) != 2 or args[0] is not user or args[1] != want:
        return core.refuted("callsite", "apply_default_config calls update_config(%r, %r): expected (user settings, packaged defaults)"
                            % tuple((list(args) + [None, None])[:2]), witness_id="apply-default-args", replay={"reproduced": True})
    return core.proved("callsite", "apply_default_config(u) = update_config(u, yaml(default/settings.yaml))")


def _scramble(x, depth=0):
    """edit a configuration object in place at every level: lists grow, leaves change, keys are added and removed"""
    if isinstance(x, dict):
        for k in list(x.keys()):
            v = x[k]
            if isinstance(v, (dict, list)):
                _scramble(v, depth + 1)
            else:
                x[k] = "scrambled" if not isinstance(v, (int, float)) or isinstance(v, bool) else v + 17
        x["__added_%d" % depth] = {"x": 1}
        if len(x) > 2:
            del x[sorted(k for k in x if not str(k).startswith("__added"))[0]]
    elif isinstance(x, list):
        x.append("scrambled")
        for v in x:
            if isinstance(v, (dict, list)):
                _scramble(v, depth + 1)


def apply_default_histories(cfg):
    """update_config aliases sub-trees of its arguments into its result (stated in its contract).  The effective configuration of a LATER call must all the same be
    user-over-packaged-defaults: every history `r1 = apply(u1); edit r1 in place; r2 = apply(u2)` is compared leaf by leaf with the merge of u2 over the file on disk."""
    import copy, yaml
    with open(os.path.join(core.REPO, "cij/data/default/settings.yaml")) as fp:
        packaged = yaml.safe_load(fp)
    users = [{}, {"qha": {"input": "a"}}, {"elast": {"settings": {"mode_gamma": {"order": 5}}}}, {"output": {"pressure_base": ["cij"]}},
             {"elast": {"settings": {"symmetry": {"system": "cubic"}}}, "qha": {"settings": {"DT": 50}}}]
    n = 0
    for u1 in users:
        for u2 in users:
            u1c, u2c = copy.deepcopy(u1), copy.deepcopy(u2)
            r1 = cfg.apply_default_config(u1c)
            if not typed_eq_deep(r1, py_merge(u1, packaged)):
                return core.refuted("finite", "apply_default_config(%r) is not the user settings over the packaged defaults" % (u1,), witness_id="apply-default-first",
                                    replay={"reproduced": True, "user": u1, "observed": r1})
            _scramble(r1)
            r2 = cfg.apply_default_config(u2c)
            n += 1
            if not typed_eq_deep(r2, py_merge(u2, packaged)):
                return core.refuted("finite", "after an earlier effective configuration was edited in place, apply_default_config(%r) no longer equals the user settings over the "
                                    "packaged defaults (defaults shared between calls)" % (u2,), witness_id="apply-default-history",
                                    replay={"reproduced": True, "first_user": u1, "second_user": u2, "observed": r2, "expected": py_merge(u2, packaged)})
            if not typed_eq_deep(u2c, u2):
                return core.refuted("finite", "apply_default_config writes into the user's settings object", witness_id="apply-default-frame", replay={"reproduced": True, "user": u2})
    return core.proved("finite", "%d histories (first result scrambled in place, then a second call): every later effective configuration = user over the file on disk; user object unchanged" % n)


def read_config_dispatch(cfg):
    import yaml
    seen = []
    real_validate = cfg.validate_config
    doc = {"qha": {"input": "input01", "settings": {"DT": 100, "T_MIN": 0.0}}, "elast": {"input": "e.dat"}}
    tmp = tempfile.mkdtemp(prefix="c16_")
    try:
        cfg.validate_config = lambda c: seen.append(c)
        for suffix, text, ok in ((".yml", yaml.safe_dump(doc), True), (".yaml", yaml.safe_dump(doc), True),
                                 (".json", json.dumps(doc), True), (".txt", json.dumps(doc), False), ("", json.dumps(doc), False),
                                 (".JSON", json.dumps(doc), False)):
            p = os.path.join(tmp, "settings" + suffix)
            with open(p, "w") as fp:
                fp.write(text)
            for validate in (True, False):
                del seen[:]
                try:
                    got = cfg.read_config(p, validate=validate)
                    out = ("return", got)
                except Exception as e:
                    out = ("raise", type(e).__name__)
                if ok:
                    if out != ("return", doc) or (len(seen) == 1) != validate or (seen and seen[0] is not out[1]):
                        return core.refuted("finite", "read_config(%r, validate=%s) -> %r, validate_config calls %d" % (suffix, validate, out, len(seen)),
                                            witness_id="dispatch" + suffix, replay={"reproduced": True})
                elif out[0] != "raise":
                    return core.refuted("finite", "unsupported suffix %r accepted" % suffix, witness_id="dispatch" + suffix, replay={"reproduced": True})
        # .json must be parsed by a JSON parser: a JSON text that YAML 1.1 reads differently
        p = os.path.join(tmp, "x.json")
        with open(p, "w") as fp:
            fp.write('{"a": 1e-08, "b": 1e2, "c": "no", "d": [1E3]}')
        got = cfg.read_config(p, validate=False)
        want = {"a": 1e-08, "b": 100.0, "c": "no", "d": [1000.0]}
        if got != want or any(type(got[k]) is not type(want[k]) for k in want):
            return core.refuted("finite", "JSON text loaded as %r, a JSON parser gives %r" % (got, want), witness_id="json-parser",
                                replay={"reproduced": True, "observed": repr(got)})
    finally:
        cfg.validate_config = real_validate
        import shutil
        shutil.rmtree(tmp, ignore_errors=True)
    return core.proved("finite", ".yml/.yaml -> YAML, .json -> JSON, other suffixes rejected; validate_config called iff validate")


def walk_schema(schema, root, path=()):
    """yield (path, subschema) for every documented field"""
    if "$ref" in schema:
        ref = schema["$ref"].split("/")[1:]
        sub = root
        for r in ref:
            sub = sub[r]
        merged = dict(sub)
        merged.update({k: v for k, v in schema.items() if k != "$ref"})
        schema = merged
    yield path, schema
    for k, v in (schema.get("properties") or {}).items():
        if isinstance(v, dict):
            yield from walk_schema(v, root, path + (k,))


def set_path(doc, path, value):
    d = doc
    for k in path[:-1]:
        d = d.setdefault(k, {})
    d[path[-1]] = value


def validation(s):
    import yaml, jsonschema
    from cij.io.config.validate import validate_config
    with open(os.path.join(core.REPO, "cij/data/schema/config.schema.json")) as fp:
        schema = json.load(fp)
    with open(os.path.join(core.REPO, "cij/data/default/settings.yaml")) as fp:
        default = yaml.safe_load(fp)

    def accepts(doc):
        try:
            validate_config(doc)
            return True
        except jsonschema.exceptions.ValidationError:
            return False
    n = 0
    # shipped files validate
    files = ["cij/data/default/settings.yaml"] + ["examples/%s/settings.yaml" % e for e in ("akimotoite", "bridgmanite", "diopside")]
    for f in files:
        with open(os.path.join(core.REPO, f)) as fp:
            n += 1
            if not accepts(yaml.safe_load(fp)):
                return core.refuted("finite", "%s does not validate" % f, witness_id="file:" + f, replay={"reproduced": True})
    # missing sections
    for sec in ("qha", "elast"):
        doc = copy.deepcopy(default)
        del doc[sec]
        n += 1
        if accepts(doc):
            return core.refuted("finite", "configuration without the %s section is accepted" % sec, witness_id="missing:" + sec, replay={"reproduced": True})
    # values of every OTHER JSON type (JSON Schema: a boolean is not a number, 1 is not a boolean, null is nothing but null)
    wrong_type = {"string": [5, True, None, ["x"]], "integer": ["x", "3", "1e1", True, False, None, [1]], "number": ["x", "1e-8", "0.1", "1", ".5", True, False, None, [1.0]],
                  "boolean": ["x", 1, 0, None], "object": [5, "x", [], True], "array": [5, "x", {}, True]}
    fields = 0
    for path, sub in walk_schema(schema, schema):
        if not path or path == ("output",):
            continue
        fields += 1
        t = sub.get("type")
        # the documented type of a setting that the packaged defaults spell out is the type of its default VALUE (an oracle independent of the schema text: a schema
        # that widens a numeric setting to "number or numeric-looking string" does not change what the code downstream can use)
        node = default
        for k_ in path:
            node = node.get(k_) if isinstance(node, dict) else None
            if node is None:
                break
        oracle = {bool: "boolean", int: "integer", float: "number", str: "string", dict: "object", list: "array"}.get(type(node)) if node is not None else None
        if oracle == "integer" and t == "number":
            oracle = "number"          # a whole-number default of a real-valued setting
        if isinstance(t, list) or (oracle is not None and t is not None and oracle != t and not (oracle == "integer" and t == "number")):
            if oracle is None:
                return core.unknown("finite", "field %s has the composite type %r and no packaged default to take its documented type from" % ("/".join(path), t))
            if oracle in wrong_type and (isinstance(t, list) or oracle != t):
                t = oracle
        if isinstance(t, str) and t in wrong_type:
            for wrong in wrong_type[t]:
                doc = copy.deepcopy(default)
                set_path(doc, path, wrong)
                n += 1
                if accepts(doc):
                    return core.refuted("finite", "wrongly typed %s = %r accepted (documented type: %s)" % ("/".join(path), wrong, t),
                                        witness_id="type:%s:%r" % ("/".join(path), wrong), replay={"reproduced": True})
            if t == "integer":
                doc = copy.deepcopy(default)
                set_path(doc, path, 2.5)
                n += 1
                if accepts(doc):
                    return core.refuted("finite", "non-integer %s = 2.5 accepted" % "/".join(path), witness_id="int:" + "/".join(path), replay={"reproduced": True})
        if "minimum" in sub:
            for val, want in ((sub["minimum"] - 1, False), (sub["minimum"], True)):
                if t == "integer" and val != int(val):
                    continue
                doc = copy.deepcopy(default)
                set_path(doc, path, val)
                n += 1
                if accepts(doc) != want:
                    return core.refuted("finite", "%s = %r %s" % ("/".join(path), val, "rejected" if want else "accepted (below minimum)"),
                                        witness_id="min:" + "/".join(path), replay={"reproduced": True})
        if "enum" in sub:
            for member in sub["enum"]:
                doc = copy.deepcopy(default)
                set_path(doc, path, member)
                n += 1
                if not accepts(doc):
                    return core.refuted("finite", "documented value %s = %r rejected" % ("/".join(path), member), witness_id="enum:" + "/".join(path) + str(member),
                                        replay={"reproduced": True})
            doc = copy.deepcopy(default)
            set_path(doc, path, "no_such_member")
            n += 1
            if accepts(doc):
                return core.refuted("finite", "unknown %s accepted" % "/".join(path), witness_id="enum-unknown:" + "/".join(path), replay={"reproduced": True})
    # unknown keys inside the elasticity and symmetry settings (the property demands rejection there)
    for path in (("elast", "settings"), ("elast", "settings", "symmetry")):
        doc = copy.deepcopy(default)
        set_path(doc, path + ("no_such_key",), 1)
        n += 1
        if accepts(doc):
            return core.refuted("finite", "unknown key inside %s accepted" % "/".join(path), witness_id="unknown-key:" + "/".join(path), replay={"reproduced": True})
    # near-miss names: a key that merely LOOKS like a documented one (a missing / extra letter, a documented prefix or suffix) with a value of the documented type is
    # as unknown as any other (a pattern-based schema would let it through and the setting would be silently ignored downstream)
    def resolve(sub):
        while "$ref" in sub:
            tgt = schema
            for r_ in sub["$ref"].split("/")[1:]:
                tgt = tgt[r_]
            sub = dict(tgt, **{k_: v_ for k_, v_ in sub.items() if k_ != "$ref"})
        return sub
    for path in (("elast", "settings"), ("elast", "settings", "symmetry")):
        node = resolve(schema)
        for k_ in path:
            node = resolve(resolve(node)["properties"][k_])
        documented = dict(node.get("properties", {}))
        if path[-1] == "symmetry":
            # the symmetry settings are handed to fill_cij as keyword arguments: the keys that mean anything are exactly its parameters (an oracle independent of the schema text)
            import inspect
            from cij.util.fill import fill_cij
            typed = {bool: {"type": "boolean"}, float: {"type": "number"}, int: {"type": "number"}, str: {"type": "string"}, type(None): {"type": "string"}}
            for pname, par in list(inspect.signature(fill_cij).parameters.items())[1:]:
                documented.setdefault(pname, typed.get(type(par.default), {"type": "number"}))
        sample = {"boolean": True, "number": 0.5, "integer": 3, "string": "cubic", "object": {}, "array": []}
        for name, sub in documented.items():
            sub = resolve(sub)
            val = sub["enum"][0] if "enum" in sub else sample.get(sub.get("type"), 1)
            parts = name.split("_")
            for variant in {name + "s", name[:-1], name + "_", parts[0] + "_zzz", "zzz_" + parts[-1], name.upper()}:
                if variant in documented or not variant:
                    continue
                doc = copy.deepcopy(default)
                set_path(doc, path + (variant,), val)
                n += 1
                if accepts(doc):
                    return core.refuted("finite", "unknown key %s = %r (a near miss of the documented %r) is accepted" % ("/".join(path + (variant,)), val, name),
                                        witness_id="near-miss:%s" % variant, replay={"reproduced": True})
    s.notes["validation_cases"] = n
    s.notes["schema_fields"] = fields
    if fields < 15:
        return core.unknown("finite", "only %d documented fields found in the schema (expected >= 15): enumeration would be vacuous" % fields)
    return core.proved("finite", "%d single-field perturbations generated from %d schema fields + shipped files" % (n, fields))


def yaml_json_bounded(s, cfg):
    """bounded stand-in: configurations dumped as YAML and JSON load identically through read_config"""
    import yaml
    rnd = random.Random(s.seed)
    with open(os.path.join(core.REPO, "cij/data/default/settings.yaml")) as fp:
        default = yaml.safe_load(fp)
    n = 200 if s.tier == "quick" else 3000
    tmp = tempfile.mkdtemp(prefix="c16b_")
    fails, distinct = [], set()
    palette = [0, 1, 16, -3, 0.0, 1e-08, 1.0e-8, 2.5, 1e2, 100.0, 1.2, True, False, "lsq_poly", "cubic", "no", "1e5", "", [], ["cij", "vs"]]

    def leaves(d, path=()):
        for k, v in d.items():
            if isinstance(v, dict):
                yield from leaves(v, path + (k,))
            else:
                yield path + (k,)
    paths = list(leaves(default))
    try:
        for i in range(n):
            doc = copy.deepcopy(default)
            for _ in range(rnd.randint(1, 4)):
                set_path(doc, rnd.choice(paths), rnd.choice(palette))
            key = json.dumps(doc, sort_keys=True)
            if key in distinct:
                continue
            distinct.add(key)
            loaded = {}
            for suffix, text in ((".json", json.dumps(doc)), (".yaml", yaml.safe_dump(doc)), (".yml", yaml.dump(doc))):
                p = os.path.join(tmp, "c" + suffix)
                with open(p, "w") as fp:
                    fp.write(text)
                try:
                    loaded[suffix] = cfg.read_config(p, validate=False)
                except Exception as e:
                    loaded[suffix] = "raises %r" % (e,)
            if not all(typed_eq_deep(loaded[sfx], doc) for sfx in loaded):
                fails.append({"witness_id": "yamljson:" + key[:80], "input": doc, "observed": {k: repr(v)[:300] for k, v in loaded.items()},
                              "expected": "all three spellings load to the original document"})
                break
    finally:
        import shutil
        shutil.rmtree(tmp, ignore_errors=True)
    s.bounded_standin("C16.read_config.yaml_equals_json", "%d random perturbations of the default configuration (1-4 leaves from a 20-value palette), seed %d" % (n, s.seed),
                      n, len(distinct), fails, ["config.read_config"])


def typed_eq_deep(x, y):
    if isinstance(x, dict) and isinstance(y, dict):
        return set(x) == set(y) and all(typed_eq_deep(x[k], y[k]) for k in x)
    if isinstance(x, list) and isinstance(y, list):
        return len(x) == len(y) and all(typed_eq_deep(p, q) for p, q in zip(x, y))
    return type(x) is type(y) and x == y


MANIFEST = {
    "engine": "pyvc", "category": "proof",
    "technique": "contract-based deductive verification: verification conditions from the AST of update_config over an uninterpreted "
                 "nested-dictionary sort (z3), lemmas over the spec function, call-site obligations; schema validation enumerated",
    "text": "update_config is verified for ALL nested dictionaries: the loop rule gives keys(out) = keys(user) U keys(defaults), every "
            "body case is proved to store the merge value of the property statement (user wins, unspecified from defaults, "
            "sub-dictionaries merged by the function's own contract as induction hypothesis), the recursive call's precondition and "
            "structural decrease are call-site obligations, inputs are not written (frame). Lemmas over the spec function give 'no "
            "other keys', 'user leaves kept', 'unspecified from defaults', idempotence. apply_default_config and read_config are "
            "checked by call-site obligations on the real functions; validation is decided by complete enumeration of single-field "
            "perturbations generated from the packaged schema on the real validator; YAML==JSON loading is a bounded stand-in.",
    "note": "jsonschema, yaml and json are external (trusted, exercised); dict equality is taken to be extensional; values are an "
            "uninterpreted sort, so value-dependent behaviour other than isdict/truthiness is outside the model (the complete small "
            "domain run on the real function covers falsy/None/list leaves); bounded part: 200 (quick) / 3000 (thorough) random "
            "configurations for YAML==JSON.",
}
