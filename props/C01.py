"""C01 -- thermal c11..c33, c12, c13, c23 are strain derivatives of the QHA free energy.

Engine: symnp -- the real functions of cij/core/phonon_contribution/nonshear.py executed on shape-polymorphic
symbolic arrays (all nt, ntv, nq, np at once); spec side: sympy-differentiated free energy (specs/phonon.py).
"""
import importlib, math, types
import numpy
import z3
from vf import core, smt, symnp
from vf.symnp import SymArr, Sc, prove_arrays_equal, SymNumpy
from contracts.nonshear_env import Env, HK, K_RY, H_RY, constant_globals
from specs import phonon

LEVEL = "proof"
EXPLANATION = ("real nonshear.py functions run on symbolic arrays of symbolic size; each function is checked against its "
               "contract with callee results preset to the callees' contract terms; integrand identities in QF_NRA; sums by "
               "linearity/congruence rules")

MOD = "nonshear."
L, O = "LongitudinalElasticModulusPhononContribution", "OffDiagonalElasticModulusPhononContribution"


# ------------------------------------------------------------------------------------------ contract terms
def spec_mode_gamma(env, c):
    e0, e1, G, G1 = env.e0, env.e1, env.G, env.G1

    def lead(f):
        return SymArr((env.ntv, env.nq, env.np), f)
    pref = lambda v: c * e0.elem((v,)) * e1.elem((v,))
    return (lead(lambda i: G1.elem(i) / pref(i[0])),
            (lead(lambda i: G.elem(i) / (3 * e0.elem((i[0],)))), lead(lambda i: G.elem(i) / (3 * e1.elem((i[0],))))),
            lead(lambda i: G.elem(i) * G.elem(i) / pref(i[0])))


def spec_Q(env):
    return SymArr((env.nt, env.ntv, env.nq, env.np), lambda i: HK * env.W.elem(i[1:]) / env.T.elem((i[0],)))


def spec_Q1(env):
    Q = spec_Q(env)
    return SymArr(Q.shape, lambda i: Q.elem(i) / (symnp.mkexp(Q.elem(i)) - 1))


def spec_Q2(env):
    Q = spec_Q(env)
    return SymArr(Q.shape, lambda i: Q.elem(i) * Q.elem(i) * symnp.mkexp(Q.elem(i)) / ((symnp.mkexp(Q.elem(i)) - 1) * (symnp.mkexp(Q.elem(i)) - 1)))


def mode_env(env, t, v, q, m):
    """sympy symbol -> z3 term for mode (q,m) at grid point (t,v)"""
    W = env.W.elem((v, q, m))
    Tt = env.T.elem((t,)) if t is not None else z3.RealVal(1)
    return {phonon.V: env.V.elem((v,)), phonon.T: Tt, phonon.H: H_RY, phonon.K: K_RY, phonon.Wsym: W,
            phonon.Gsym: env.G.elem((v, q, m)), phonon.g1: env.G1.elem((v, q, m)),
            phonon.E: symnp.mkexp(HK * W / Tt)}


def spec_modulus(env, kind, part, c_long=5, c_off=15, e_for_p=0, drop=()):
    """property statement: c_ii = A/(5 e_i^2) + P/(3 e_i), c_ij = A/(15 e_i e_j) (pressure term added by the caller),
    with A, P the per-mode volume derivatives of F_ph, summed over modes with normalised weights."""
    ex = phonon.spec_exprs()
    A, P = ex["A_" + part], ex["P_" + part]

    def body(lead, q, m):
        if part == "zp":
            (v,), t = lead, None
        else:
            t, v = lead
        me = mode_env(env, t, v, q, m)
        a, p = phonon.to_z3(A, me), phonon.to_z3(P, me)
        ei, ej = env.e0.elem((v,)), env.e1.elem((v,))
        if kind == "longitudinal":
            return a / (c_long * ei * ej) + p / (3 * (ei if e_for_p == 0 else ej))
        return a / (c_off * ei * ej)
    if part == "zp":
        return env.mode_sum((env.ntv,), body)
    arr = env.mode_sum((env.nt, env.ntv), body)
    # F_th = k_B T ln(...) vanishes identically at T = 0
    return SymArr(arr.shape, lambda i: z3.If(env.T.elem((i[0],)) == 0, z3.RealVal(0), arr.elem(i)))


def kind_facts(env, kind):
    """longitudinal components are built with e_i = e_j (tasks.py passes the same column twice)"""
    env.equal_e = (kind == "longitudinal")
    return []


def preset(obj, **kw):
    for k, v in kw.items():
        setattr(obj, "_" + k, v)


# ------------------------------------------------------------------------------------------ the run
def run(s):
    env = Env()
    ENV["env"] = env
    ns = env.nonshear
    tier = s.tier
    s.trust("z3 5.1 QF_NRA / cvc5 1.4", "vf/symnp.py (symbolic arrays, numpy stub validated against real numpy each run)",
            "sympy.diff for the spec side (re-checked numerically with mpmath in the thorough tier)",
            "sum rules: linearity, congruence, positivity of finite sums (A-SUMS)")
    s.assume("A-FP: float64 treated as real arithmetic; float literals read as the simplest rational within 1 ulp",
             "A-NUMPY: semantics of exp/prod/average/where/copy/indexing as modelled in vf/symnp.py",
             "A-SYMPY: sympy.diff", "A-SUMS: finite-sum lemmas (linearity, congruence, positivity)",
             "A-PINT/A-CONST: the three unit conversions are constants; their values are checked against CODATA (C01.constants)",
             "precondition np = 3*na (file format), V>0, e>0, w_q>0, omega>0 off the Gamma-acoustic slots, T>=0")
    s.undecided_part("rounding error of float64 (A-FP); that P(T,V) and P_static(V) are the QHA quantities (C05)")
    base = env.facts
    F = lambda kind: ("kind", kind)

    def hyp(assumptions):
        if isinstance(assumptions, tuple) and assumptions and assumptions[0] == "kind":
            env.equal_e = (assumptions[1] == "longitudinal")
        else:
            env.equal_e = False
        return base

    def arrays(name, code, spec, assumptions, functions=(), where=None, replay=None):
        def ob():
            h = hyp(assumptions)
            try:
                r = symnp.prove_code_equals(code if callable(code) else (lambda: code), spec, h, tier=tier, name=name, where=where)
            except symnp.ShapeObligation as e:
                r = core.refuted("symnp", "%s: shape obligation failed: %s" % (name, e), witness_id=name + ":shape")
            if replay is not None:
                attach_replay(r, *replay)
            return r
        fb = None
        if replay is not None:
            fb = lambda: fallback_battery(*replay)
        elif "average_over_modes" in name or "clear_gamma_point" in name:
            def fb():
                with ENV["env"].native():
                    return native_average(ns)
        return s.oblige(name, ob, functions, fallback=fb)

    with env.active():
        # ---------------- 1. clear_gamma_point / average_over_modes
        for rank, lead in ((3, (env.ntv,)), (4, (env.nt, env.ntv))):
            X = SymArr.atom("X%d" % rank, lead + (env.nq, env.np))

            def cleared(X=X):
                y = X.copy()
                ns.clear_gamma_point(y)
                return y
            arrays("C01.clear_gamma_point.rank%d" % rank, cleared,
                   SymArr(X.shape, lambda i, X=X: z3.If(env.mask(i[-2], i[-1]), z3.RealVal(0), X.elem(i))), base,
                   [MOD + "clear_gamma_point"])

            def averaged(X=X, lead=lead):
                before = X.elem
                r = ns.average_over_modes(X, env.w)
                if X.elem is not before:
                    raise symnp.ShapeObligation("frame: average_over_modes modified its input array")
                return r * Sc(env.np.nr)
            arrays("C01.average_over_modes.rank%d" % rank, averaged,
                   lambda X=X, lead=lead: env.mode_sum(lead, lambda li, q, m, X=X: X.elem(tuple(li) + (q, m))), base,
                   [MOD + "average_over_modes"])

        # ---------------- 2. prefactors / mode_gamma
        for kind, cls, c in (("longitudinal", L, 5), ("off_diagonal", O, 15)):
            sp = spec_mode_gamma(env, c)
            obj = env.make(kind)

            def pf(obj=obj):
                return obj.prefactors
            one = SymArr((env.ntv,), lambda i: z3.RealVal(1))
            spf = (one / (c * env.e0 * env.e1), (one / (3 * env.e0), one / (3 * env.e1)), one / (c * env.e0 * env.e1))
            for nm, sel in (("0", lambda x: x[0]), ("1_0", lambda x: x[1][0]), ("1_1", lambda x: x[1][1]), ("2", lambda x: x[2])):
                # the longitudinal class is specified for e_i = e_j only (c_ii involves one strain fraction; tasks.py hands the same column over twice)
                arrays("C01.%s.prefactors[%s]" % (kind, nm), lambda sel=sel, obj=obj: sel(obj.prefactors), sel(spf), F(kind),
                       [MOD + cls + ".prefactors"])
            obj2 = env.make(kind)
            preset(obj2, prefactors=spf)
            for nm, sel in (("0", lambda x: x[0]), ("1_0", lambda x: x[1][0]), ("1_1", lambda x: x[1][1]), ("2", lambda x: x[2])):
                arrays("C01.%s.mode_gamma[%s]" % (kind, nm), lambda sel=sel, obj2=obj2: sel(obj2.mode_gamma), sel(sp), F(kind),
                       [MOD + cls + ".mode_gamma"])

        # ---------------- 3. Bose factors
        obj = env.make("longitudinal")
        Tpos = lambda idx: [env.T.elem((idx[0],)) > 0]     # at T = 0 the Bose factors are unspecified (rows are masked later)
        arrays("C01.Q", lambda: env.make("longitudinal").Q, spec_Q(env), base, [MOD + L + ".Q"], where=Tpos)
        o1 = env.make("longitudinal"); preset(o1, Q=spec_Q(env))
        # Q = 0 (T = 0 rows are masked later, the Gamma-acoustic slots are cleared by average_over_modes): 0/0 is unspecified there, any value is accepted
        Qpos = lambda idx: [env.T.elem((idx[0],)) > 0, z3.Not(env.mask(idx[2], idx[3]))]
        arrays("C01.Q1", lambda: o1.Q1, spec_Q1(env), base, [MOD + L + ".Q1"], where=Qpos)
        o2 = env.make("longitudinal"); preset(o2, Q=spec_Q(env))
        arrays("C01.Q2", lambda: o2.Q2, spec_Q2(env), base, [MOD + L + ".Q2"], where=Qpos)

        # ---------------- 4. zero-point and thermal sums against the free-energy derivatives
        for kind, cls, c in (("longitudinal", L, 5), ("off_diagonal", O, 15)):
            def fresh(kind=kind, c=c):
                o = env.make(kind)
                preset(o, mode_gamma=spec_mode_gamma(env, c), Q1=spec_Q1(env), Q2=spec_Q2(env))
                return o
            r = arrays("C01.%s.zero_point_contribution" % kind, lambda f=fresh: f().zero_point_contribution,
                       lambda kind=kind: spec_modulus(env, kind, "zp"), F(kind), [MOD + cls + ".zero_point_contribution"],
                       replay=(kind, "zero_point_contribution"))
            r = arrays("C01.%s.thermal_contribution" % kind, lambda f=fresh: f().thermal_contribution,
                       lambda kind=kind: spec_modulus(env, kind, "th"), F(kind), [MOD + cls + ".thermal_contribution"],
                       replay=(kind, "thermal_contribution"))

            # value_isothermal = zp + th (+ P - P_static): callee results are opaque atoms here
            ZP = SymArr.atom("ZP_" + kind, (env.ntv,))
            TH = SymArr.atom("TH_" + kind, (env.nt, env.ntv))

            def vi(kind=kind, ZP=ZP, TH=TH):
                o = env.make(kind)
                preset(o, zero_point_contribution=ZP, thermal_contribution=TH)
                return o.value_isothermal
            sp = SymArr((env.nt, env.ntv), lambda i, kind=kind, ZP=ZP, TH=TH: ZP.elem((i[1],)) + TH.elem(i) + (
                (env.P.elem(i) - env.Pst.elem((i[1],))) if kind == "off_diagonal" else z3.RealVal(0)))
            r = arrays("C01.%s.value_isothermal" % kind, vi, sp, base, [MOD + cls + ".value_isothermal"], replay=(kind, "frame"))

            # whole chain without presets (redundant obligation, design section 3 "Modularity")
            def chain(kind=kind):
                return env.make(kind).value_isothermal

            def chain_spec(kind=kind):
                zp, th = spec_modulus(env, kind, "zp"), spec_modulus(env, kind, "th")
                return SymArr((env.nt, env.ntv), lambda i: zp.elem((i[1],)) + th.elem(i) + (
                    (env.P.elem(i) - env.Pst.elem((i[1],))) if kind == "off_diagonal" else z3.RealVal(0)))
            r = arrays("C01.%s.chain" % kind, chain, chain_spec, F(kind), [MOD + cls + ".value_isothermal"],
                       replay=(kind, "value_isothermal"))

        # ---------------- canaries (perturbed specifications must be refuted)
        def fresh_long():
            o = env.make("longitudinal")
            preset(o, mode_gamma=spec_mode_gamma(env, 5), Q1=spec_Q1(env), Q2=spec_Q2(env))
            return o

        def fresh_off():
            o = env.make("off_diagonal")
            preset(o, mode_gamma=spec_mode_gamma(env, 15), Q1=spec_Q1(env), Q2=spec_Q2(env))
            return o
        s.canary("C01.canary.longitudinal_with_1/15", lambda: symnp.prove_code_equals(
            lambda: fresh_long().thermal_contribution, spec_modulus(env, "longitudinal", "th", c_long=15), hyp(F("longitudinal")), tier=tier))
        s.canary("C01.canary.off_diagonal_with_1/5", lambda: symnp.prove_code_equals(
            lambda: fresh_off().zero_point_contribution, spec_modulus(env, "off_diagonal", "zp", c_off=5), hyp(base), tier=tier))
        s.canary("C01.canary.no_T0_mask", lambda: symnp.prove_code_equals(
            lambda: fresh_long().thermal_contribution, (lambda a: SymArr(a.shape, lambda i: a.elem(i) + z3.If(env.T.elem((i[0],)) == 0, 1, 0)))(
                spec_modulus(env, "longitudinal", "th")), hyp(F("longitudinal")), tier=tier))
        s.canary("C01.canary.pressure_sign", lambda: prove_arrays_equal(
            (lambda o: (preset(o, zero_point_contribution=SymArr.atom("ZPc", (env.ntv,)), thermal_contribution=SymArr.atom("THc", (env.nt, env.ntv))), o.value_isothermal)[1])(env.make("off_diagonal")),
            SymArr((env.nt, env.ntv), lambda i: z3.Function("ZPc", z3.IntSort(), z3.RealSort())(i[1]) + z3.Function("THc", z3.IntSort(), z3.IntSort(), z3.RealSort())(i[0], i[1])
                   - env.P.elem(i) + env.Pst.elem((i[1],))), hyp(base), tier=tier))

        # ---------------- size preconditions collected while indexing symbolic dimensions
        def sizes():
            need = list(symnp.SIZE_OBLIGATIONS)
            if not need:
                return core.unknown("symnp", "no size obligation was generated (clear_gamma_point not reached?)")
            goal = z3.And(*[d.n >= k for d, k in need])
            return smt.prove(goal, base + [d.n >= 1 for d in symnp.DIMS], tier=tier, name="sizes")
        s.oblige("C01.size_preconditions(nq>=1,np>=3)", sizes)

    # ---------------- constants [F]
    s.oblige("C01.constants", lambda: constants(ns), [MOD + "_h", MOD + "_k", MOD + "h_div_k", "cij.util.units"], kind="finite")
    # ---------------- q_weights at every size 1..8 [F over sizes, values symbolic]
    s.oblige("C01.q_weights(sizes 1..8)", lambda: q_weights(ns), [MOD + L + ".q_weights"], kind="finite")
    # ---------------- the (omega, gamma, V dgamma/dV) arrays the formulas above are fed with: mode_gamma.py is one of this property's anchored files.  The identity
    # c = A/(5e^2) + P/(3e) is about gamma = -dln(omega)/dln(V) OF THE FREQUENCIES HANDED OVER WITH IT: the triple-consistency obligations of C11 (every per-method
    # function returns derivative orders 0, 1, 2 of ONE interpolant at the same abscissae) are registered here as well
    from props import C11
    core.SubSession(s, lambda n: n.replace("C11.", "C01.mode_gamma."), lambda n: n.startswith("C11.triple[")).run(C11)

    # ---------------- numpy-stub validation against real numpy (engine self-check)
    try:
        crosscheck_numpy(s, ns)
    except core.OutsideSubset as e:
        s.notes["numpy_stub_crosscheck"] = "not applicable to this source: %s" % e
    if tier == "thorough":
        dev = phonon.mpmath_check(40, s.seed)
        s.notes["sympy_derivation_vs_mpmath_max_rel_dev"] = dev
        if dev > 1e-30:
            s.crashed.append(("spec-derivation", "sympy derivation deviates from mpmath by %g" % dev))
    if s.tier == "thorough":
        from vf import lean
        s.oblige("C01.lemmas.FiniteSums(lean)", lambda: lean.check_file("lemmas/FiniteSums.lean"), ["lemmas/FiniteSums.lean (sum rules: linearity, congruence, combination, "
                                                                                                     "positivity, permutation, weight scaling)"])
    # the quantities of this property are DELIVERED through the writer rules (keyword -> quantity, file name, unit; a data file): C15's registry and writer-path obligations
    # are registered here as well
    # "sum_i e_i = 1": the strain fractions the anchored classes receive are made by the task factory (tasks.py, outside the anchored files), which normalises the axial
    # strains -- without a lattice block they are (1, 1, 1) and only that division makes them 1/3.  C02's normalisation obligation is registered here as well
    from props import C02
    core.SubSession(s, lambda n: n.replace("C02.", "C01.tasks."), lambda n: n.startswith("C02.strain_fractions_are_normalised")).run(C02)
    from props import C15
    core.SubSession(s, lambda n: n.replace("C15.", "C01.delivery."), lambda n: n in ("C15.registry", "C15.writer_paths")).run(C15)
    s.min_obligations = 30


ENV = {}


def size_cases():
    """(nq, na) cases on both sides of every size the code was seen to compare a dimension with"""
    out = []
    for _, _, k in symnp.SIZE_THRESHOLDS:
        k = int(k)
        for n in (k - 1, k, k + 1, 2 * k + 1, 3 * k + 2):
            if 1 <= n <= 5000 and n not in out:
                out.append(n)
    return sorted(out)


def fallback_battery(kind, what):
    """bounded fall-back of a C01 obligation: the replay battery, extended by the sizes the code distinguishes"""
    from oracles import phonon as oracle
    sizes = size_cases()
    with ENV["env"].native():
        if what == "frame":
            rep, rec = oracle.frame_check(kind)
            n = 1
        else:
            rep, rec = oracle.battery(kind, what)
            n = 8
            for nq in ([] if rep else sizes):
                rep, rec = oracle.battery(kind, what, seeds=(3,), cases=((nq, 1, "zero_first"),), nt=2, nv=1)
                n += 1
                if rep:
                    break
    rec = dict(rec, reproduced=rep, evaluations=n)
    if not rep:
        rec["note"] = "replay battery (8 synthetic spectra) and q-point counts %s agree with the mpmath oracle" % sizes
    return rec


def native_average(ns):
    """average_over_modes / clear_gamma_point on concrete arrays against the explicit weighted sum with the Gamma-acoustic slots excluded"""
    rnd = numpy.random.RandomState(4)
    n = 0
    for nq in sorted(set([1, 2, 5] + size_cases())):
        for lead in ((2,), (2, 3)):
            npm = 6
            X = rnd.normal(size=lead + (nq, npm))
            w = rnd.uniform(0.5, 4.0, size=nq) * (1e-7 if len(lead) == 2 else 1.0)          # only ratios of weights are physical
            if nq >= 3:
                w[nq // 2] = 0.0          # a q-point listed with weight 0 in the middle of the list
            X0 = X.copy()
            got = numpy.asarray(ns.average_over_modes(X, w))
            n += 1
            if not numpy.array_equal(X, X0):
                return {"reproduced": True, "observed": "average_over_modes writes into its argument", "nq": nq}
            M = X0.copy()
            M[..., 0, :3] = 0
            want = numpy.einsum("...qm,q->...", M, w) / npm / w.sum()
            if got.shape != want.shape or not numpy.allclose(got, want, rtol=1e-11, atol=1e-13):
                return {"reproduced": True, "nq": nq, "rank": len(lead) + 2, "observed": numpy.ravel(got)[:4].tolist(), "expected": numpy.ravel(want)[:4].tolist(),
                        "what": "average_over_modes differs from sum_q w_q mean_m(masked X) / sum_q w_q"}
            Y = X0.copy()
            ns.clear_gamma_point(Y)
            if not numpy.array_equal(Y, M):
                return {"reproduced": True, "nq": nq, "what": "clear_gamma_point does not zero exactly the slots [..., 0, :3]"}
    return {"reproduced": False, "evaluations": n, "note": "%d concrete arrays incl. q-point counts %s: weighted mean with the Gamma-acoustic slots excluded; argument not written" % (n, size_cases())}


def attach_replay(r, kind, what):
    if r.status == core.REFUTED:
        from oracles import phonon as oracle
        try:
            with ENV["env"].native():
                rep, rec = oracle.frame_check(kind) if what == "frame" else oracle.battery(kind, what)
        except Exception as e:  # pragma: no cover
            rep, rec = False, {"oracle_error": repr(e)}
        rec["reproduced"] = rep
        r.replay = rec
        r.witness_id = "%s.%s" % (kind, what)


def constants(ns):
    """the three pint/scipy constants against independent exact-SI values"""
    from oracles import phonon as oracle
    from cij.util import units
    hk = float(oracle.H_RYCM / oracle.K_RYK)
    h = units.Quantity(ns._h, units.J * units.m).to(units.rydberg * units.cm).magnitude
    k = units.Quantity(ns._k, units.eV / units.K).to(units.rydberg / units.K).magnitude
    bad = []
    for name, got, want, tol in (("h_div_k [cm K]", ns.h_div_k, hk, 1e-9), ("hc [Ry cm]", h, float(oracle.H_RYCM), 1e-9),
                                 ("k_B [Ry/K]", k, float(oracle.K_RYK), 1e-9), ("h_div_k*k_B = hc", ns.h_div_k * k, h, 1e-12)):
        if not (abs(got - want) <= tol * abs(want)):
            bad.append("%s: code %r, independent %r" % (name, got, want))
    if bad:
        return core.refuted("finite", "; ".join(bad), witness_id="constants", replay={"reproduced": True, "observed": bad})
    return core.proved("finite", "h_div_k=%.12g cm K, hc=%.12g Ry cm, k_B=%.12g Ry/K agree with exact-SI/CODATA values" % (ns.h_div_k, h, k))


def q_weights(ns):
    import numpy
    cls = ns.LongitudinalElasticModulusPhononContribution
    for n in range(1, 9):
        ws = [Sc(z3.Real("w%d" % i)) for i in range(n)]
        calc = types.SimpleNamespace(qha_calculator=None, nv=0, np=0, nq=n, na=1,
                                     qha_input=types.SimpleNamespace(weights=[((0.1 * i, 0.0, 0.5), ws[i]) for i in range(n)]))
        obj = cls(calc, (None, None))
        got = obj.q_weights
        if not isinstance(got, numpy.ndarray) or got.shape != (n,) or any(got[i] is not ws[i] for i in range(n)):
            return core.refuted("finite", "q_weights for %d q-points returned %r" % (n, got), witness_id="q_weights%d" % n,
                                replay={"reproduced": True, "nq": n})
    return core.proved("finite", "q_weights returns the weight column in file order for 1..8 q-points (values symbolic)")


def crosscheck_numpy(s, ns):
    """translation validation of the numpy model: the same real methods executed by REAL numpy on small object arrays
    of symbolic scalars must give, entry by entry, the terms the stub gives at those sizes"""
    import numpy, itertools
    mism, n = [], 0
    for (nt, ntv, nq, na) in ((2, 2, 1, 1), (3, 2, 2, 1)):
        npm = 3 * na
        mk = lambda name, shape: numpy.array([Sc(z3.Real("%s_%s" % (name, "_".join(map(str, ix))))) for ix in itertools.product(*map(range, shape))],
                                             dtype=object).reshape(shape)
        T = numpy.array([0.0] + [100.0 * k for k in range(1, nt)])
        V, W, G, G1 = mk("V", (ntv,)), mk("W", (ntv, nq, npm)), mk("G", (ntv, nq, npm)), mk("G1", (ntv, nq, npm))
        # weights concrete: real numpy.average branches on `sum(weights) == 0` (ZeroDivisionError), excluded by w_q > 0
        wq, e0, e1 = numpy.array([1.5, 2.0, 0.75][:nq]), mk("e0", (ntv,)), mk("e1", (ntv,))
        P, Pst, Cv = mk("P", (nt, ntv)), mk("Pst", (ntv,)), mk("Cv", (nt, ntv))
        for kind in ("longitudinal", "off_diagonal"):
            cls = getattr(ns, L if kind == "longitudinal" else O)

            def build(real):
                conv = (lambda a: a) if real else (lambda a: symnp.from_numpy(a))
                qha = types.SimpleNamespace(volume_base=types.SimpleNamespace(pressures=conv(P), heat_capacity=conv(Cv)))
                calc = types.SimpleNamespace(qha_calculator=qha, nv=0, np=npm, nq=nq, na=na, v_array=conv(V), t_array=conv(T),
                                             freq_array=conv(W), mode_gamma=[conv(G1), conv(G), conv(G) * conv(G)] if not real else [G1, G, G * G],
                                             qha_input=types.SimpleNamespace(weights=[(None, x) for x in wq]), static_p_array=conv(Pst))
                return cls(calc, (conv(e0), conv(e1)))
            from contracts.nonshear_env import patched, UnitsStub, class_attr
            # real numpy, symbolic scalars as elements
            real, stub = {}, {}
            for what in ("value_isothermal", "isothermal_to_adiabatic"):
                with patched(ns, units=UnitsStub(ns), h_div_k=Sc(HK), **constant_globals(ns)):
                    try:
                        real[what] = getattr(build(True), what)
                    except Exception as e:                   # the real code rejects these shapes under real numpy
                        real[what] = ("raises", type(e).__name__)
                with patched(ns, numpy=SymNumpy(), units=UnitsStub(ns), h_div_k=Sc(HK), **constant_globals(ns)), \
                        class_attr(ns.LongitudinalElasticModulusPhononContribution, "q_weights", property(lambda self: symnp.from_numpy(wq))):
                    try:
                        stub[what] = getattr(build(False), what)
                    except symnp.ShapeObligation as e:
                        stub[what] = ("raises", "ShapeObligation")
                    except (TypeError, AttributeError, NotImplementedError) as e:
                        raise core.OutsideSubset("the code uses the numpy stub in a way it does not model: %r" % (e,))
            for what in list(real):
                if isinstance(real[what], tuple) or isinstance(stub[what], tuple):
                    n += 1
                    if isinstance(real[what], tuple) and real[what][1] in ("OutsideSubset", "TypeError", "AttributeError", "NotImplementedError"):
                        pass        # the object-array run of real numpy met a value-dependent branch it cannot take: not comparable (no verdict either way)
                    elif not (isinstance(real[what], tuple) and isinstance(stub[what], tuple)):
                        mism.append((kind, what, "real numpy: %r, stub: %r" % (real[what] if isinstance(real[what], tuple) else "returns", stub[what] if isinstance(stub[what], tuple) else "returns")))
                    del real[what]
            for what in real:
                ra, sa = real[what], stub[what]
                if tuple(sa.shape) != ra.shape:
                    mism.append((kind, what, "shape", ra.shape, sa.shape))
                    continue
                for ix in itertools.product(*map(range, ra.shape)):
                    n += 1
                    a = symnp.term(ra[ix])
                    b = sa.elem(tuple(z3.IntVal(i) for i in ix))
                    if a.eq(b) or z3.is_true(z3.simplify(a == b)):
                        continue
                    r = smt.prove(a == b, timeout_ms=5000)
                    if r.status != core.PROVED:
                        mism.append((kind, what, ix, str(r.status)))
    s.crosscheck("symnp numpy-stub vs real numpy (object arrays, sizes (nt,ntv,nq,na) in {(2,2,1,1),(3,2,2,1)}, T[0]=0)", n, mism)


MANIFEST = {
    "engine": "symnp", "category": "proof",
    "technique": "contract-based deductive verification: real nonshear.py functions run on symbolic arrays of symbolic size, "
                 "obligations discharged by z3/cvc5 (QF_NRA) against the sympy-differentiated free energy",
    "text": "Every function between the property and the code (clear_gamma_point, average_over_modes, prefactors, mode_gamma, Q, "
            "Q1, Q2, zero_point_contribution, thermal_contribution, value_isothermal, both classes) is executed from /repo on "
            "symbolic arrays whose sizes nt, ntv, nq, np are symbols, with callee results preset to the callees' contract terms; "
            "each result is proved equal, for all inputs and all sizes, to the term obtained from the property statement "
            "(A/(5e^2)+P/(3e), A/(15 e_i e_j)+P-P_static with A, P symbolic volume derivatives of F_ph; T=0 rows zero). Frame "
            "obligations (no pre-existing array written) and a whole-chain obligation are included; constants are compared with "
            "exact-SI/CODATA values; q_weights is enumerated for 1..8 q-points.",
    "note": "Assumes float64 = real arithmetic (A-FP), the numpy stub semantics (validated on object arrays each run), the "
            "finite-sum lemmas (linearity, congruence, positivity), sympy.diff for the spec (mpmath re-check in thorough), "
            "np = 3*na, and that slices are copies (views are not modelled). That P(T,V), P_static are the QHA quantities is C05.",
}
