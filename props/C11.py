"""C11 -- every interpolation method returns a consistent (omega, gamma, V dgamma/dV) triple."""
import importlib, itertools, types, warnings
import numpy
import z3
from vf import core, smt, symnp
from vf.symnp import Sc
from contracts.nonshear_env import patched
from contracts.np_proxy import NumpyProxy

LEVEL = "other"
EXPLANATION = ("triple consistency: the real per-method functions run on symbolic frequency tables with scipy interpolators / lstsq as "
               "recording contract stubs (sizes enumerated, values symbolic); dispatch and plot selection by complete enumeration with "
               "tagged arrays; exactness on power-law / log-polynomial data and beyond the sampled range is a bounded stand-in on real scipy")
MG = "mode_gamma."
METHODS = ["spline", "lagrange", "krogh", "pchip", "hermite", "akima", "lsq_poly"]
_ids = itertools.count()


class Interp:
    """recording stub of a scipy interpolant: I(z, nu) is an uninterpreted function per (object, derivative order)"""

    def __init__(self, kind, x, y, **opts):
        self.id = next(_ids)
        self.kind, self.x, self.y, self.opts = kind, x, y, opts
        LOG.append(self)

    def ev(self, z, nu):
        f = z3.Function("I%d_nu%d" % (self.id, nu), z3.RealSort(), z3.RealSort())
        out = numpy.empty(len(z), dtype=object)
        for i, t in enumerate(z):
            out[i] = Sc(f(symnp.term(t)))
        return out

    def __call__(self, z, nu=0):
        return self.ev(z, nu)

    def derivative(self, z, der=1):
        return self.ev(z, der)


class PolyInterp(Interp):
    """scipy.interpolate.lagrange returns a numpy.poly1d: derivatives are taken with numpy.polyder"""


LOG = []


def scipy_stub():
    def mk(kind):
        return lambda x, y, **kw: Interp(kind, x, y, **kw)
    interp = types.SimpleNamespace(UnivariateSpline=mk("UnivariateSpline"), KroghInterpolator=mk("KroghInterpolator"),
                                   PchipInterpolator=mk("PchipInterpolator"), Akima1DInterpolator=mk("Akima1DInterpolator"),
                                   CubicHermiteSpline=mk("CubicHermiteSpline"), lagrange=lambda x, y: Interp("lagrange", x, y))
    return types.SimpleNamespace(interpolate=interp)


class MGNumpy(NumpyProxy):
    """real numpy on object arrays; polyder of a recorded lagrange interpolant = that interpolant's derivative;
    lstsq = contract stub returning symbolic coefficients"""

    def __init__(self):
        super().__init__(numpy)
        self.lstsq_calls = []
        self.linalg = types.SimpleNamespace(lstsq=self._lstsq)

    def _lstsq(self, a, b, rcond=None):
        n = numpy.asarray(a, dtype=object).shape[1]
        coef = numpy.array([Sc(z3.Real("a_%d" % k)) for k in range(n)], dtype=object)    # same atoms on every re-execution
        self.lstsq_calls.append({"a": a, "b": b, "rcond": rcond, "coef": coef})
        return coef, None, None, None

    def polyder(self, p, m=1):
        if isinstance(p, Interp):
            return _Deriv(p, m)
        return numpy.polyder(p, m)

    def log(self, x):
        return numpy.log(x)


class _Deriv:
    def __init__(self, base, m):
        self.base, self.m = base, m

    def __call__(self, z):
        return self.base.ev(z, self.m)


def sym_table(nv):
    V = numpy.array([Sc(z3.Real("V%d" % i)) for i in range(nv)], dtype=object)
    W = numpy.array([Sc(z3.Real("W%d" % i)) for i in range(nv)], dtype=object)
    return V, W


def check_triple(mg, method, nv, order, ntv=3):
    """-> None or message"""
    del LOG[:]
    V, W = sym_table(nv)
    grid = numpy.array([Sc(z3.Real("v%d" % i)) for i in range(ntv)], dtype=object)
    fn, kw = {"spline": (mg.interpolate_mode_spline, {}), "lagrange": (mg.interpolate_mode_lagrange, {}), "krogh": (mg.interpolate_mode_krogh, {}),
              "pchip": (mg.interpolate_mode_ppoly, {"method": "pchip"}), "hermite": (mg.interpolate_mode_ppoly, {"method": "hermite"}),
              "akima": (mg.interpolate_mode_ppoly, {"method": "akima"})}[method]
    with patched(mg, numpy=MGNumpy(), scipy=scipy_stub()):
        res = fn(V, W, grid, order=order, **kw)
    if not (isinstance(res, tuple) and len(res) == 3):
        return "does not return a triple"
    objs = [o for o in LOG]
    if len(objs) != 1:
        return "%d interpolants constructed (one and the same object must give all three quantities)" % len(objs)
    I = objs[0]
    want_kind = {"spline": "UnivariateSpline", "lagrange": "lagrange", "krogh": "KroghInterpolator", "pchip": "PchipInterpolator",
                 "hermite": "CubicHermiteSpline", "akima": "Akima1DInterpolator"}[method]
    if I.kind != want_kind:
        return "constructs a %s" % I.kind
    if method == "spline":
        if I.opts.get("k") != order or set(I.opts) - {"k"}:
            return "spline built with options %r, configured order %d" % (I.opts, order)
        idx = list(range(nv))
    else:
        interval = int(numpy.ceil(nv / order))
        idx = list(range(0, nv, interval))
    idx = list(reversed(idx))        # flipped: abscissae ascending in ln V
    xs, ys = list(I.x), list(I.y)
    # which volumes are used as nodes is the method's business (the property does not fix it); each node must pair ln V and
    # ln omega of ONE AND THE SAME sampled volume, no volume twice, abscissae in ascending ln V (volumes are listed decreasing)
    if len(xs) != len(ys) or len(xs) < 2:
        return "interpolant built on %d abscissae / %d ordinates" % (len(xs), len(ys))
    # the interpolant may live on a SHIFTED abscissa x = ln V + c (centring the nodes, c common to nodes and evaluation points): then it is the same function of
    # ln V, with the same derivatives; c is read off the first node and must be shared by every node and by the grid
    def same(a_, b_):
        return a_.eq(b_) or z3.is_true(z3.simplify(a_ == b_)) or smt.prove(a_ == b_, timeout_ms=2000, fallback=False).status == core.PROVED
    shift = None
    for i in range(nv):
        c = z3.simplify(symnp.term(xs[0]) - symnp.LOG(V[i].z))
        if all(any(same(symnp.term(xs[j]), symnp.LOG(V[k].z) + c) for k in range(nv)) for j in range(len(xs))):
            shift = c
            if z3.is_true(z3.simplify(c == 0)):
                break
    if shift is None:
        return "abscissae of the interpolant (%s, ...) are not ln V of sampled volumes (up to a common shift)" % (xs[0],)
    used = []
    for j in range(len(xs)):
        i = next((i for i in range(nv) if same(symnp.term(xs[j]), symnp.LOG(V[i].z) + shift)), None)
        if i is None:
            return "abscissa %d of the interpolant (%s) is not ln V of a sampled volume" % (j, xs[j])
        if not symnp.term(ys[j]).eq(symnp.LOG(W[i].z)):
            return "node %d pairs ln V[%d] with %s instead of ln omega[%d] of the same volume" % (j, i, ys[j], i)
        used.append(i)
    if len(set(used)) != len(used) or used != sorted(used, reverse=True):
        return "nodes use the volumes %s: repeated or not in ascending ln V order" % used
    if method == "spline" and used != idx:
        return "the spline is built on the volumes %s, not on all sampled volumes" % used
    for which, nu, sign in ((0, 0, None), (1, 1, -1), (2, 2, -1)):
        arr = res[which]
        if len(arr) != ntv:
            return "output %d has length %d" % (which, len(arr))
        for t in range(ntv):
            f = z3.Function("I%d_nu%d" % (I.id, nu), z3.RealSort(), z3.RealSort())
            val = f(symnp.LOG(grid[t].z) + shift)
            want = symnp.EXP(val) if which == 0 else -val
            got = symnp.term(arr[t])
            if not (got.eq(want) or z3.is_true(z3.simplify(got == want))):
                r = smt.prove(got == want, timeout_ms=2000, fallback=False)
                if r.status != core.PROVED:
                    return "output %d at grid point %d is %s, expected %s" % (which, t, got, want)
    return None


def run(s):
    mg = importlib.import_module("cij.core.mode_gamma")
    tier = s.tier
    s.trust("scipy.interpolate classes / numpy.linalg.lstsq (A-SCIPY, A-LSQ): I(x, nu) is the nu-th derivative of the interpolant", "z3 5.1")
    s.assume("A-SCIPY: scipy interpolators return a function I with I(x, nu) its nu-th derivative; numpy.poly1d/polyder/polyval = polynomial calculus",
             "A-LSQ", "chain rule: with I interpolating ln omega over ln V, gamma = -I' and V dgamma/dV = -I''")
    s.undecided_part("polynomial reproduction / extrapolation behaviour of scipy interpolators (external): exactness is a bounded stand-in")

    # ---------------- 1. triple consistency (sizes enumerated, values symbolic)
    for method in ("spline", "lagrange", "krogh", "pchip", "hermite", "akima"):
        def ob(method=method):
            n = 0
            orders = (2, 3, 4, 5) if method == "spline" else (2, 3, 4, 6)
            for nv in (4, 5, 6, 8, 12):
                for order in orders:
                    if order >= nv:
                        continue
                    n += 1
                    msg = check_triple(mg, method, nv, order)
                    if msg:
                        r = core.refuted("symnp", "%s, %d volumes, order %d: %s" % (method, nv, order, msg), witness_id="triple:%s" % method)
                        r.replay = native_triple(mg, method)
                        return r
            return core.proved("symnp", "%d (size, order) cases with symbolic tables: one interpolant over (flip ln V, flip ln omega) of the same (thinned) "
                                        "volumes; outputs exp(I), -I', -I'' at ln v" % n)
        s.oblige("C11.triple[%s]" % method, ob, [MG + ("interpolate_mode_%s" % (method if method in ("spline", "lagrange", "krogh") else "ppoly"))],
                 fallback=lambda method=method: native_triple(mg, method, extended=True))

    def lsq_triple():
        n = 0
        for nv in (4, 6, 9):
            for order in (1, 2, 3, 4, 5):
                if order >= nv:
                    continue
                n += 1
                V, W = sym_table(nv)
                grid = numpy.array([Sc(z3.Real("v%d" % i)) for i in range(2)], dtype=object)
                proxy = MGNumpy()
                with patched(mg, numpy=proxy):
                    # numpy.poly1d strips leading zero coefficients (a value-dependent branch): generic path = no coefficient vanishes
                    paths = symnp.Paths([], max_paths=64)
                    outs = paths.run(lambda: mg.interpolate_mode_lsq_poly(V, W, grid, order=order))
                    res = next((r for pc, r in outs if all("Not" in str(c) or "!=" in str(c) or "Distinct" in str(c) for c in pc)), outs[-1][1])
                if len(proxy.lstsq_calls) < 1:
                    return core.refuted("symnp", "lstsq called %d times" % len(proxy.lstsq_calls), witness_id="lsq-calls")
                c = proxy.lstsq_calls[-1]
                A, b, coef = numpy.asarray(c["a"], dtype=object), list(c["b"]), c["coef"]
                if A.shape != (nv, order + 1) or len(b) != nv:
                    return core.refuted("symnp", "least-squares system has shape %s, expected (%d, %d)" % (A.shape, nv, order + 1), witness_id="lsq-shape",
                                        replay=native_triple(mg, "lsq_poly"))
                for i in range(nv):
                    x = symnp.LOG(V[i].z)
                    if not symnp.term(b[i]).eq(symnp.LOG(W[i].z)):
                        return core.refuted("symnp", "right-hand side row %d is %s" % (i, b[i]), witness_id="lsq-rhs", replay=native_triple(mg, "lsq_poly"))
                    for k in range(order + 1):
                        want = symnp.zpow(x, order - k)
                        r = smt.prove(symnp.term(A[i, k]) == want, timeout_ms=2000, fallback=False)
                        if r.status != core.PROVED:
                            return core.refuted("symnp", "Vandermonde entry (%d,%d) is %s, expected (ln V)^%d" % (i, k, A[i, k], order - k), witness_id="lsq-vander",
                                                replay=native_triple(mg, "lsq_poly"))
                if c["rcond"] is not None:
                    return core.refuted("callsite", "lstsq is called with an explicit rcond=%r: singular values above machine precision would be discarded "
                                                    "(the fit is then not the least-squares polynomial)" % (c["rcond"],), witness_id="lsq-rcond",
                                        replay=native_exactness(mg, "lsq_poly"))
                for t in range(2):
                    x = symnp.LOG(grid[t].z)
                    P = sum((coef[k].z * symnp.zpow(x, order - k) for k in range(order + 1)), z3.RealVal(0))
                    dP = sum((coef[k].z * (order - k) * symnp.zpow(x, order - k - 1) for k in range(order)), z3.RealVal(0))
                    d2P = sum((coef[k].z * (order - k) * (order - k - 1) * symnp.zpow(x, order - k - 2) for k in range(order - 1)), z3.RealVal(0))
                    for which, want in ((0, None), (1, -dP), (2, -d2P)):
                        got = symnp.term(res[which][t])
                        if which == 0:
                            ok = z3.is_app(got) and got.decl().name() == "Exp"
                            r = smt.prove(got.children()[0] == P, timeout_ms=3000, fallback=False) if ok else None
                            if not ok or r.status != core.PROVED:
                                return core.refuted("symnp", "frequency output is %s, expected exp(P(ln v))" % got, witness_id="lsq-freq", replay=native_triple(mg, "lsq_poly"))
                        else:
                            r = smt.prove(got == want, timeout_ms=3000, fallback=False)
                            if r.status != core.PROVED:
                                return core.refuted("symnp", "output %d is %s, expected %s of the same polynomial" % (which, got, want), witness_id="lsq-deriv%d" % which,
                                                    replay=native_triple(mg, "lsq_poly"))
        return core.proved("z3", "%d (size, order) cases: Vandermonde system in ln V with ln omega as right-hand side, default rcond; outputs exp(P), -P', -P'' of "
                                 "the fitted polynomial" % n)
    s.oblige("C11.triple[lsq_poly]", lsq_triple, [MG + "interpolate_mode_lsq_poly", MG + "lstsq_polyfit"])

    # ---------------- 2. dispatch / no mixing / Gamma acoustic slots [F over sizes and methods]
    s.oblige("C11.dispatch_no_mixing", lambda: dispatch(mg), [MG + "interpolate_modes"], kind="finite")
    # ---------------- 3. plot selection [F over n]
    s.oblige("C11.plot_selection", plot_selection, ["plot.modes.ModePlotter.plot_modes"], kind="finite")
    # ---------------- construction on real scipy [F over the 7 documented names]
    for method in METHODS:
        s.oblige("C11.constructible[%s]" % method, lambda method=method: constructible(mg, method), [MG + "interpolate_modes"], kind="finite")
    # ---------------- 4. exactness, bounded
    exactness(s, mg)
    # q-points and modes are not mixed: the per-mode series handed to the interpolation are the columns of the FILE, which the reader (qha_input.py, outside this property's anchored files) must return in the listed branch order
    from props import C17
    s.oblige("C11.reader.hands_over_as_written(hand-written files)", C17.reader_hands_over_as_written, ["qha_input.read_energy"], kind="finite")
    s.min_obligations = 16


def native_triple(mg, method, extended=False):
    """real scipy/numpy: gamma = -dln w/dln V and V dgamma/dV by finite differences of the returned frequency.  extended: on the volume grid expanded by the usual ratio 1.2
    beyond the sampled volumes (where the calculation evaluates the triple); Akima is NaN there and Hermite cannot be constructed (known findings with their own obligations)"""
    V = numpy.linspace(900, 500, 9)
    W = 300.0 * (V / 700.0) ** -1.3 * numpy.exp(-0.4 * numpy.log(V / 700.0) ** 2)
    grid = numpy.linspace(500 / 1.2, 900 * 1.2, 600) if (extended and method != "akima") else numpy.linspace(520, 880, 400)
    try:
        with warnings.catch_warnings():
            warnings.simplefilter("ignore")
            w, g, dg = call_method(mg, method, V, W, grid, 9 if method == "akima" else 3)          # Akima: all nine volumes as nodes, grid inside them
    except Exception as e:
        if extended and method == "hermite" and isinstance(e, TypeError):
            return {"reproduced": False, "note": "hermite cannot be constructed (known finding, obligation C11.constructible[hermite])"}
        return {"reproduced": True, "raised": repr(e)}
    lnv, lnw = numpy.log(grid), numpy.log(w)
    g_fd = -numpy.gradient(lnw, lnv)
    dg_fd = numpy.gradient(g, lnv)
    # piecewise interpolants have a discontinuous second (pchip, akima: also a kinked first) derivative at their nodes: finite differences are compared away from every sampled volume
    h = abs(lnv[1] - lnv[0])
    away = numpy.all(numpy.abs(lnv[:, None] - numpy.log(V)[None, :]) > 3 * h, axis=1)
    in1, in2 = away.copy(), away.copy()
    in1[:5] = in1[-5:] = False
    in2[:10] = in2[-10:] = False
    bad = not (numpy.all(numpy.isfinite(w)) and numpy.allclose(g[in1], g_fd[in1], atol=2e-3) and numpy.allclose(dg[in2], dg_fd[in2], atol=5e-2))
    return {"reproduced": bool(bad), "max_gamma_dev": float(numpy.abs(g - g_fd)[in1].max()), "max_dgamma_dev": float(numpy.abs(dg - dg_fd)[in2].max()),
            "grid": "extended by the ratio 1.2" if extended and method != "akima" else "inside the sampled volumes"}


def call_method(mg, method, V, W, grid, order):
    if method in ("pchip", "hermite", "akima"):
        return mg.interpolate_mode_ppoly(V, W, grid, method=method, order=order)
    return getattr(mg, "interpolate_mode_" + method)(V, W, grid, order=order)


def duck_input(nv, nq, npm, positive_acoustic=True):
    from cij.io.traditional import models
    vols = []
    for v in range(nv):
        qps = []
        for q in range(nq):
            # generic spectrum: distinct values, NOT ascending in the mode index, branches crossing between volumes (mode-following order)
            modes = [100.0 + 37.0 * ((7 * m + 3 * q + 5 * v * (m % 3)) % 11) + 0.01 * (m + 10 * q + 100 * v) for m in range(npm)]
            modes[npm - 1] = 333.0 + q                                  # a branch that does not move with volume (gamma = 0) is a mode like any other
            if q == 0 and not positive_acoustic:
                modes[:3] = [0.0, -0.1, 0.0]
            qps.append(models.QPointData((0.0, 0.0, 0.1 * q), modes))
        # volume blocks in a generic (neither ascending nor descending) order: the per-mode routines that do not need monotone abscissae accept any listing
        vols.append(models.VolumeData(0.0, 900.0 - 40 * ((3 * v + 1) % nv if nv % 3 else (2 * v + 1) % nv if nv % 2 else v), -1.0, qps))
    return models.QHAInputData(nv, nq, npm, 1, npm // 3, [((0, 0, 0.1 * q), (2.0, 0.0, 1e-9)[q % 3]) for q in range(nq)], vols)       # weights: unnormalised, a q-point listed with weight 0 (band path), a tiny one


def dispatch(mg):
    n = 0
    fns = {"spline": "interpolate_mode_spline", "lagrange": "interpolate_mode_lagrange", "krogh": "interpolate_mode_krogh",
           "pchip": "interpolate_mode_ppoly", "hermite": "interpolate_mode_ppoly", "akima": "interpolate_mode_ppoly", "lsq_poly": "interpolate_mode_lsq_poly"}
    for (nv, nq, npm) in ((4, 1, 3), (5, 2, 6), (4, 3, 3)):
        for positive in (True, False):
            inp = duck_input(nv, nq, npm, positive)
            grid = numpy.linspace(950, 650, 7)
            for method in METHODS:
                calls = []

                def stub(name):
                    def f(mode_volumes, mode_freqs, v_array, **kw):
                        calls.append((name, numpy.array(mode_volumes), numpy.array(mode_freqs), v_array, kw))
                        tag = float(len(calls))
                        return (numpy.full(len(v_array), tag), numpy.full(len(v_array), tag + 0.25), numpy.full(len(v_array), tag + 0.5))
                    return f
                with patched(mg, **{nm: stub(nm) for nm in set(fns.values())}):
                    w, g, dg = mg.interpolate_modes(inp, grid, method=method, order=3)
                n += 1
                if w.shape != (7, nq, npm) or g.shape != w.shape or dg.shape != w.shape:
                    return core.refuted("finite", "output shapes %s %s %s" % (w.shape, g.shape, dg.shape), witness_id="dispatch-shape", replay={"reproduced": True})
                expect = [(q, m) for q in range(nq) for m in range(npm) if not (q == 0 and m < 3)]
                if len(calls) != len(expect):
                    return core.refuted("finite", "%s: %d per-mode interpolations for %d non-acoustic (q,m) slots (Gamma acoustic frequencies %s)" % (
                        method, len(calls), len(expect), "positive" if positive else "zero/negative"), witness_id="dispatch-count:%s:%s" % (method, positive),
                        replay={"reproduced": True, "method": method})
                for c, (q, m) in zip(calls, expect):
                    name, mv, mf, va, kw = c
                    want_f = numpy.array([vol.q_points[q].modes[m] for vol in inp.volumes])
                    want_kw = {"order": 3}
                    if fns[method] == "interpolate_mode_ppoly":
                        want_kw["method"] = method
                    # the pairing (V_k, omega_k) of the file must arrive intact; the order in which the pairs are listed is not fixed by the property
                    pairs_in = sorted(zip(numpy.asarray(mv, dtype=float).tolist(), numpy.asarray(mf, dtype=float).tolist()))
                    pairs_want = sorted(zip([float(vol.volume) for vol in inp.volumes], want_f.tolist()))
                    # the configured order (and method) must arrive; further keyword arguments (a pre-computed abscissa, say) are the callee's business
                    kw_ok = all(kw.get(k_) == v_ for k_, v_ in want_kw.items())
                    if name != fns[method] or not kw_ok or pairs_in != pairs_want or not (va is grid or numpy.array_equal(numpy.asarray(va, dtype=float), grid)):
                        return core.refuted("finite", "%s: slot (q=%d, m=%d) is interpolated by %s%r from frequencies %s" % (method, q, m, name, kw, mf.tolist()),
                                            witness_id="dispatch-args:%s" % method, replay={"reproduced": True})
                tagno = 0
                for q in range(nq):
                    for m in range(npm):
                        if q == 0 and m < 3:
                            if numpy.any(w[:, q, m] != 0) or numpy.any(g[:, q, m] != 0) or numpy.any(dg[:, q, m] != 0):
                                return core.refuted("finite", "Gamma acoustic slot m=%d is not left at zero" % m, witness_id="dispatch-gamma", replay={"reproduced": True})
                            continue
                        tagno += 1
                        if not (numpy.all(w[:, q, m] == tagno) and numpy.all(g[:, q, m] == tagno + 0.25) and numpy.all(dg[:, q, m] == tagno + 0.5)):
                            return core.refuted("finite", "%s: results of slot (q=%d,m=%d) are stored elsewhere / mixed" % (method, q, m), witness_id="dispatch-mix:%s" % method,
                                                replay={"reproduced": True})
    return core.proved("finite", "%d (size, Gamma-acoustic sign, method) runs: each non-acoustic (q,m) goes through the method's own function with the configured "
                                 "order and its own frequency column; results stored in the same slot of the three outputs; Gamma acoustic slots stay 0" % n)


def plot_selection():
    pm = importlib.import_module("cij.plot.modes")
    from cij.util.units import _to_ang3
    ntv, nq, npm = 5, 2, 6
    base = numpy.arange(ntv * nq * npm, dtype=float).reshape(ntv, nq, npm)
    freq, gam, vdg = base + 1000, base + 2000, base + 3000
    v_array = numpy.linspace(900, 700, ntv)
    # the calculator's fields are produced by its own glue (Calculator._interpolate_modes) from what interpolate_modes returns: the plot must draw THOSE three arrays,
    # whatever internal convention (order, signs, squares) the glue and the plotter share
    calc = types.SimpleNamespace(v_array=v_array, np=npm, qha_input=duck_input(4, nq, npm), qha_calculator=types.SimpleNamespace(v_array=v_array),
                                 config={"elast": {"settings": {"mode_gamma": {"interpolator": "lsq_poly", "order": 3}}}})
    try:
        cal = importlib.import_module("cij.core.calculator")
        with patched(cal, interpolate_modes=lambda *a, **k: (freq.copy(), gam.copy(), vdg.copy())):
            cal.Calculator._interpolate_modes(calc)
    except Exception as e:  # noqa: BLE001
        raise core.OutsideSubset("Calculator._interpolate_modes cannot be run on the recording calculator (%s: %s)" % (type(e).__name__, e))

    class Ax:
        def __init__(self):
            self.lines, self.points = [], []

        def plot(self, x, y, *a, **k):
            self.lines.append((numpy.array(x), numpy.array(y)))

        def scatter(self, x, y, *a, **k):
            self.points.append((numpy.array(x), numpy.array(y)))
    for n, want in ((0, freq), (1, gam), (2, vdg)):
        for iq in range(nq):
            ax = Ax()
            pm.ModePlotter(calc).plot_modes(ax, n=n, iq=iq)
            modes = [m for m in range(npm) if not (iq == 0 and m < 3)]
            if len(ax.lines) != len(modes):
                return core.refuted("finite", "n=%d iq=%d: %d curves drawn for %d non-acoustic modes" % (n, iq, len(ax.lines), len(modes)), witness_id="plot-count",
                                    replay={"reproduced": True})
            for (x, y), m in zip(ax.lines, modes):
                if not numpy.allclose(x, _to_ang3(v_array)) or not numpy.array_equal(y, want[:, iq, m]):
                    which = "freq" if numpy.array_equal(y, freq[:, iq, m]) else "gamma" if numpy.array_equal(y, gam[:, iq, m]) else \
                        "V dgamma/dV" if numpy.array_equal(y, vdg[:, iq, m]) else "gamma^2" if numpy.array_equal(y, (gam ** 2)[:, iq, m]) else "something else"
                    return core.refuted("finite", "plot_modes(n=%d) draws %s for mode %d" % (n, which, m), witness_id="plot-n%d" % n, replay={"reproduced": True})
    return core.proved("finite", "n = 0, 1, 2 draw omega, gamma, V dgamma/dV of the selected q-point against the volume grid in A^3, Gamma acoustic modes skipped")


def constructible(mg, method):
    V = numpy.linspace(900, 500, 9)
    W = 300.0 * (V / 700.0) ** -1.3
    try:
        with warnings.catch_warnings():
            warnings.simplefilter("ignore")
            w, g, dg = call_method(mg, method, V, W, numpy.linspace(880, 620, 5), 3)     # inside the (thinned) node range 600..900
    except Exception as e:
        return core.refuted("finite", "documented interpolator %r cannot be constructed/evaluated: %r" % (method, e), witness_id="construct:" + method,
                            replay={"reproduced": True, "raised": repr(e)})
    if not (numpy.all(numpy.isfinite(w)) and numpy.all(numpy.isfinite(g)) and numpy.all(numpy.isfinite(dg))):
        return core.refuted("finite", "%r yields non-finite values inside the sampled range" % method, witness_id="construct-finite:" + method, replay={"reproduced": True})
    return core.proved("finite", "%s constructs and evaluates with derivative orders 0, 1, 2 on real scipy" % method)


def admissible(method, nv):
    if method == "spline":
        return [o for o in (2, 3, 4, 5) if o < nv]
    if method == "lsq_poly":
        return [o for o in (1, 2, 3, 4, 5) if o < nv]
    return [o for o in (2, 3, 4, 5, 6, 8) if o < nv]


def native_exactness(mg, method):
    V = numpy.linspace(640.0, 480.0, 9)
    W = 350.0 * (V / 560.0) ** -1.4
    grid = numpy.linspace(640.0 * 1.2, 480.0 / 1.2, 41)
    with warnings.catch_warnings():
        warnings.simplefilter("ignore")
        for order in admissible(method, len(V)):
            w, g, dg = call_method(mg, method, V, W, grid, order)
            if not (numpy.allclose(w, 350.0 * (grid / 560.0) ** -1.4, rtol=1e-6) and numpy.allclose(g, 1.4, atol=1e-5) and numpy.allclose(dg, 0, atol=1e-3)):
                return {"reproduced": True, "order": order, "max_gamma_dev": float(numpy.abs(g - 1.4).max()), "max_rel_freq_dev": float(numpy.abs(w / (350.0 * (grid / 560.0) ** -1.4) - 1).max())}
    return {"reproduced": False}


def exactness(s, mg):
    rnd = numpy.random.RandomState(s.seed)
    n = 6 if s.tier == "quick" else 150
    evals, distinct, fails = 0, 0, []
    hermite_seen = akima_seen = False
    for trial2 in range(2 * n):
        trial, layout = divmod(trial2, 2)
        if layout == 0:
            nv = int(rnd.randint(6, 17))                    # up to 16 sampled volumes: node-based methods then keep up to 8 nodes
            vmax = float(rnd.uniform(150, 900))
            vmin = vmax * rnd.uniform(0.6, 0.8)
            V = numpy.linspace(vmax, vmin, nv)
        else:
            # same number of volumes and same end points, different interior nodes (uniform in ln V), in the SAME process:
            # a result that depends on an earlier call (a cached factorisation, reused nodes) is not exact here
            V = numpy.exp(numpy.linspace(numpy.log(vmax), numpy.log(vmin), nv))
        ratio = 1.2
        grid = numpy.linspace(V.max() * ratio, V.min() / ratio, 31)
        w0, g0 = float(rnd.uniform(30, 1500)), float(rnd.uniform(-1, 3))
        W = w0 * (V / V[0]) ** (-g0)
        for method in METHODS:
            for order in admissible(method, nv):
                evals += 1
                distinct += 1
                try:
                    with warnings.catch_warnings():
                        warnings.simplefilter("ignore")
                        w, g, dg = call_method(mg, method, V, W, grid, order)
                except Exception as e:
                    if method == "hermite":
                        hermite_seen = True
                        continue
                    fails.append({"witness_id": "exact-raise:%s" % method, "input": {"method": method, "order": order, "V": V.tolist(), "w0": w0, "gamma": g0},
                                  "observed": "raises %r" % (e,), "expected": "power law reproduced"})
                    break
                wt = w0 * (grid / V[0]) ** (-g0)
                # one tolerance for every method: with the abscissa centred, scipy's monomial-coefficient Lagrange form is as accurate as Krogh's divided differences
                # (1e-10 at 8 nodes); uncentred it lost two digits per node (2e-4 at 6 nodes, 0.9 at 8) -- known_findings.json, fixed
                tw, tg, td = (1e-6, 1e-5, 5e-3)
                ok = numpy.allclose(w, wt, rtol=tw, atol=0) and numpy.allclose(g, g0, rtol=0, atol=tg) and numpy.allclose(dg, 0, rtol=0, atol=td)
                if not ok:
                    if method == "akima" and numpy.any(numpy.isnan(w)):
                        akima_seen = True
                        continue
                    fails.append({"witness_id": "exact:%s:%d" % (method, order), "input": {"method": method, "order": order, "V": V.tolist(), "w0": w0, "gamma": g0},
                                  "observed": {"max_rel_freq_dev": float(numpy.nanmax(numpy.abs(w / wt - 1))), "max_gamma_dev": float(numpy.nanmax(numpy.abs(g - g0))),
                                               "max_vdgdv": float(numpy.nanmax(numpy.abs(dg)))},
                                  "expected": "exact on power-law data over the grid extended by the expansion ratio 1.2"})
                    break
            if fails:
                break
        if fails:
            break
        # least squares: ln omega polynomial in ln V up to the chosen order
        for order in admissible("lsq_poly", nv):
            coefs = rnd.uniform(-0.5, 0.5, size=order + 1)
            coefs[-1] = numpy.log(w0)
            x0 = numpy.log(V[0])
            lnw = lambda v: numpy.polyval(coefs, numpy.log(v) - x0)
            evals += 1
            distinct += 1
            with warnings.catch_warnings():
                warnings.simplefilter("ignore")
                w, g, dg = mg.interpolate_mode_lsq_poly(V, numpy.exp(lnw(V)), grid, order=order)
            gt = -numpy.polyval(numpy.polyder(coefs, 1), numpy.log(grid) - x0)
            dgt = -numpy.polyval(numpy.polyder(coefs, 2), numpy.log(grid) - x0) if order >= 2 else numpy.zeros_like(grid)
            if not (numpy.allclose(numpy.log(w), lnw(grid), rtol=0, atol=1e-6) and numpy.allclose(g, gt, rtol=0, atol=1e-4) and numpy.allclose(dg, dgt, rtol=0, atol=2e-2)):
                fails.append({"witness_id": "exact-logpoly:%d" % order, "input": {"order": order, "V": V.tolist(), "coefficients": coefs.tolist()},
                              "observed": {"max_lnw_dev": float(numpy.abs(numpy.log(w) - lnw(grid)).max()), "max_gamma_dev": float(numpy.abs(g - gt).max()),
                                           "max_vdgdv_dev": float(numpy.abs(dg - dgt).max())},
                              "expected": "least squares reproduces a degree-%d polynomial in ln V" % order})
                break
        if fails:
            break
    s.bounded_standin("C11.exactness(real scipy)", "%d random power-law tables (6-16 volumes, V_max 150-900, gamma -1..3; each followed in the same process by a table with the same end points and count but nodes uniform in ln V) x 7 methods x admissible orders, grid extended by 1.2; "
                      "log-polynomial tables for lsq_poly orders 1-5; tolerances 1e-6 / 1e-5 / 5e-3; seed %d" % (n, s.seed), evals, distinct, fails,
                      [MG + "interpolate_mode_*"])
    s.notes["hermite_raises_in_exactness_runs"] = hermite_seen
    s.notes["akima_nan_outside_range_seen"] = akima_seen
    # the two documented methods that cannot satisfy the property are separate obligations (known findings)
    def akima_outside():
        V = numpy.linspace(900, 500, 9)
        W = 300.0 * (V / 700.0) ** -1.3
        with warnings.catch_warnings():
            warnings.simplefilter("ignore")
            w, g, dg = mg.interpolate_mode_ppoly(V, W, numpy.array([1000.0, 700.0, 450.0]), method="akima", order=3)
        if numpy.any(numpy.isnan(w)) or numpy.any(numpy.isnan(g)):
            return core.refuted("runtime-contract", "akima returns NaN on the part of the volume grid outside the sampled volumes (V = 1000, 450 with samples 500..900)",
                                witness_id="akima-nan-outside-range", replay={"reproduced": True, "w": [repr(x) for x in w]})
        return core.proved("runtime-contract", "akima finite outside the sampled range")
    s.oblige("C11.akima_on_extrapolated_grid", akima_outside, [MG + "interpolate_mode_ppoly"], kind="finite")


MANIFEST = {
    "engine": "symnp", "category": "other",
    "technique": "contract-based verification: per-method functions run on symbolic tables with scipy/lstsq as recording contract stubs (z3 for "
                 "the polynomial calculus), complete enumeration for dispatch/plot; bounded run-time contract on real scipy for exactness",
    "text": "For each method the real function is run on symbolic (V, omega) tables (4-12 volumes, admissible orders) with the scipy interpolator "
            "replaced by a recording stub: exactly one interpolant is built over (ln V + c, ln omega) of the same (thinned) volumes, ascending, and the "
            "three outputs are exp(I), -I', -I'' of that object at ln v + c (c: a shift common to nodes and evaluation points, 0 or the centring of the Lagrange form); for least squares the Vandermonde system, default rcond and P, P', P'' of "
            "the fitted polynomial are proved. interpolate_modes is enumerated with tagged arrays (methods x sizes x sign of the Gamma acoustic "
            "frequencies): own function, configured order, own (q,m) column, same slot, Gamma acoustic slots zero. plot_modes draws omega, gamma, "
            "V dgamma/dV for n = 0,1,2. Bounded: exactness on power-law and log-polynomial data over the extended grid on real scipy.",
    "note": "scipy/numpy numerics trusted (A-SCIPY, A-LSQ); sizes enumerated (values unbounded) because the bodies use len()/strided slices; "
            "exactness is bounded: 6 (quick) / 150 (thorough) random tables of 6-16 volumes, orders up to 8, one tolerance for all methods. Known findings: "
            "hermite cannot be constructed, akima is NaN outside the sampled range. Fixed (d38ca3d): the uncentred Lagrange form lost two digits per node.",
}
