"""C10 -- Voigt/standard index algebra is a canonical 21-class quotient of the 81 tuples.

Engine: pyvc on the AST of /repo/cij/util/voigt.py (re-parsed each run), integers unbounded.
Spec side: taken from the property statement (table 1->11 ... 6->12, orbit under minor/major symmetry).
"""
import importlib, itertools, os, ast
import z3
from vf import core, smt, pyvc
from vf.pyvc import IntV, TupleV, StrV, ClsV, check_cases, pc_of, merged, cond_of

LEVEL = "proof"
EXPLANATION = ("pyvc path-wise verification conditions over unbounded integers for every function of "
               "cij/util/voigt.py + complete enumeration of the finite domain on the real code")

TABLE = {1: (1, 1), 2: (2, 2), 3: (3, 3), 4: (2, 3), 5: (1, 3), 6: (1, 2)}   # from the property statement


# --------------------------------------------------------------------------- spec-side terms
def zmin(a, b):
    return z3.If(a <= b, a, b)


def zmax(a, b):
    return z3.If(a <= b, b, a)


def v2s(I):
    a = z3.IntVal(TABLE[6][0])
    b = z3.IntVal(TABLE[6][1])
    for k in (5, 4, 3, 2, 1):
        a = z3.If(I == k, TABLE[k][0], a)
        b = z3.If(I == k, TABLE[k][1], b)
    return a, b


def s2v(a, b):
    r = z3.IntVal(-1)
    for k, (x, y) in TABLE.items():
        r = z3.If(z3.And(a == x, b == y), k, r)
    return r


def in13(*xs):
    return z3.And(*[z3.And(1 <= x, x <= 3) for x in xs])


def in16(*xs):
    return z3.And(*[z3.And(1 <= x, x <= 6) for x in xs])


def orbit(x):
    i, j, k, l = x
    return [(i, j, k, l), (j, i, k, l), (i, j, l, k), (j, i, l, k),
            (k, l, i, j), (l, k, i, j), (k, l, j, i), (l, k, j, i)]


def tup_eq(a, b):
    return z3.And(*[p == q for p, q in zip(a, b)])


def orbit_size(x):
    imgs = orbit(x)
    total = z3.IntVal(0)
    for n, g in enumerate(imgs):
        new = z3.And(*[z3.Not(tup_eq(g, h)) for h in imgs[:n]]) if n else z3.BoolVal(True)
        total = total + z3.If(new, 1, 0)
    return total


def flat(v):
    """flatten a (nested) TupleV of ints into z3 terms"""
    if isinstance(v, (pyvc.IntV, pyvc.BoolV)):
        return [pyvc.as_int(v)]
    if isinstance(v, TupleV):
        out = []
        for x in v.items:
            out += flat(x)
        return out
    raise core.OutsideSubset("flat(%s)" % type(v).__name__)


def is_key_shape(v):
    if not (isinstance(v, TupleV) and v.cls == "ModulusRepresentation" and len(v.items) == 2
            and all(isinstance(x, TupleV) and x.cls == "StrainRepresentation" and len(x.items) == 2 for x in v.items)):
        raise core.OutsideSubset("not a ModulusRepresentation of two StrainRepresentations")
    return True


def is_strain_shape(v):
    if not (isinstance(v, TupleV) and v.cls == "StrainRepresentation" and len(v.items) == 2):
        raise core.OutsideSubset("not a StrainRepresentation")
    return True


def sym_key(prefix):
    vs = [z3.Int(prefix + n) for n in "abcd"]
    key = TupleV([TupleV([IntV(vs[0]), IntV(vs[1])], "StrainRepresentation"),
                  TupleV([IntV(vs[2]), IntV(vs[3])], "StrainRepresentation")], "ModulusRepresentation")
    return vs, key


def valid_key(vs):
    """the 21 canonical keys, characterised from the property statement: both pairs are table entries"""
    a, b, c, d = vs
    return z3.And(s2v(a, b) >= 1, s2v(c, d) >= 1)


# --------------------------------------------------------------------------- native oracle (replay)
def py_canon_class(t):
    i, j, k, l = t
    return frozenset([(i, j, k, l), (j, i, k, l), (i, j, l, k), (j, i, l, k), (k, l, i, j), (l, k, i, j), (k, l, j, i), (l, k, j, i)])


def srepr(x):
    """repr that survives keys whose own __repr__ raises (e.g. an out-of-table strain pair)"""
    try:
        return repr(x)
    except Exception:
        try:
            if isinstance(x, tuple):
                return "(" + ", ".join(srepr(i) if not hasattr(i, "_fields") else srepr(tuple(i)) for i in tuple.__iter__(x)) + ")"
        except Exception:
            pass
        return "<unprintable %s>" % type(x).__name__


def native(fn, *args):
    try:
        return ("return", fn(*args))
    except RecursionError:
        return ("raise", "RecursionError")
    except Exception as e:
        return ("raise", type(e).__name__)


def ints_of_model(model, names):
    out = []
    for n in names:
        v = (model or {}).get(n, "0")
        try:
            out.append(int(v))
        except Exception:
            out.append(0)
    return out


# --------------------------------------------------------------------------- the run
def run(s):
    voigt = importlib.import_module("cij.util.voigt")
    util = importlib.import_module("cij.util")
    path = os.path.join(core.REPO, "cij/util/voigt.py")
    mod = pyvc.Module(path, voigt)
    s.python_semantics = list(pyvc.SEMANTICS)
    s.trust("z3 5.1 (QF_LIA/UFLIA)", "cvc5 1.4 (second opinion on unknown / thorough tier)", "vf/pyvc.py symbolic executor "
            "(cross-checked against CPython on the complete finite domain each run)", "Python tuple == / hash semantics")
    s.assume("A-PYSEM")
    s.min_obligations = 17
    tier = s.tier
    # bounded fall-back of every verification condition on voigt.py: the complete finite domain of the property on the real code (81 tuples, 36 pairs, every spelling,
    # the out-of-range neighbours) -- used when the current source leaves the AST engine's subset
    real_oblige = s.oblige

    def finite_fallback():
        r = finite_domain(None, voigt, util)()
        if r.status == core.REFUTED:
            return dict(r.replay or {}, reproduced=True, observed=r.detail[:400])
        return {"reproduced": False, "evaluations": 3000, "note": r.detail[:200]}

    def oblige_with_fallback(name, fn, functions=(), kind="deductive", fallback=None):
        return real_oblige(name, fn, functions, kind, fallback or (finite_fallback if kind == "deductive" else None))
    s.oblige = oblige_with_fallback
    E, C = "StrainRepresentation", "ModulusRepresentation"
    i, j, k, l = z3.Ints("i j k l")
    I, J = z3.Ints("I J")

    def member(cls, name):
        f = mod.member(cls, name)
        if f is None:
            raise core.OutsideSubset("%s.%s no longer exists" % (cls, name))
        return f

    def explore(cls, name, args, own=True, contracts=None, pre=()):
        f = member(cls, name)
        vm = pyvc.VM(mod, contracts=contracts or {}, own=f.qualname)
        fv = pyvc.FuncV(f.node, f.owner, f.kind, bound=ClsV(cls) if f.kind == "classmethod" else None)
        return vm, vm.explore(fv, args, pre=pre)

    def explore_prop(cls, name, selfv, contracts=None):
        f = member(cls, name)
        vm = pyvc.VM(mod, contracts=contracts or {}, own=f.qualname)
        return vm, vm.explore(pyvc.FuncV(f.node, f.owner, "method", bound=selfv), [])

    def replay_ints(fn, names, expect):
        def attach(r):
            if r.status == core.REFUTED:
                vals = ints_of_model(r.model, names)
                obs = native(fn, *vals)
                exp = expect(*vals)
                r.replay = {"input": vals, "observed": srepr(obs), "expected": srepr(exp), "reproduced": not exp_matches(obs, exp)}
                r.witness_id = "%s%r" % (getattr(fn, "__qualname__", fn), tuple(vals))
            return r
        return attach

    def exp_matches(obs, exp):
        if exp[0] == "raise":
            return obs[0] == "raise"
        return obs[0] == "return" and tuple(obs[1]) == tuple(exp[1])

    # ---------------------------------------------------------------- 1. tables [F on the imported module]
    def tables():
        ok = voigt.VOIGT_TO_STANDARD == TABLE and voigt.STANDARD_TO_VOIGT == {v: k for k, v in TABLE.items()}
        if ok:
            return core.proved("finite", "VOIGT_TO_STANDARD is the bijection 1->11 2->22 3->33 4->23 5->13 6->12; STANDARD_TO_VOIGT its inverse")
        return core.refuted("finite", "tables differ: %r / %r" % (voigt.VOIGT_TO_STANDARD, voigt.STANDARD_TO_VOIGT),
                            witness_id="tables", replay={"reproduced": True, "observed": repr(voigt.VOIGT_TO_STANDARD)})
    s.oblige("C10.tables", tables, ["voigt.VOIGT_TO_STANDARD", "voigt.STANDARD_TO_VOIGT"], kind="finite")

    # ---------------------------------------------------------------- 2. strain representation
    def e_from_voigt():
        vm, outs = explore(E, "from_voigt", [IntV(I)])
        a, b = v2s(I)
        r = check_cases(outs, [
            {"label": "1<=I<=6", "when": in16(I), "post": lambda v: is_strain_shape(v) and tup_eq(flat(v), (a, b))},
            {"label": "out of range", "when": z3.Not(in16(I)), "raises": True}], tier=tier, name="E.from_voigt")
        return replay_ints(voigt.E_.from_voigt, ["I"], lambda I: ("return", TABLE[I]) if 1 <= I <= 6 else ("raise",))(r)
    s.oblige("C10.E.from_voigt", e_from_voigt, ["voigt.StrainRepresentation.from_voigt"])

    def e_from_standard():
        vm, outs = explore(E, "from_standard", [IntV(i), IntV(j)])
        r = check_cases(outs, [
            {"label": "in range", "when": in13(i, j), "post": lambda v: is_strain_shape(v) and tup_eq(flat(v), (zmin(i, j), zmax(i, j)))},
            {"label": "out of range", "when": z3.Not(in13(i, j)), "raises": True}], tier=tier, name="E.from_standard")
        return replay_ints(voigt.E_.from_standard, ["i", "j"],
                           lambda i, j: ("return", (min(i, j), max(i, j))) if 1 <= i <= 3 and 1 <= j <= 3 else ("raise",))(r)
    s.oblige("C10.E.from_standard", e_from_standard, ["voigt.StrainRepresentation.from_standard"])

    a, b = z3.Ints("a b")
    selfE = TupleV([IntV(a), IntV(b)], E)
    validE = s2v(a, b) >= 1

    def e_views():
        for name, post in (("voigt", lambda v: pyvc.as_int(v) == s2v(a, b)),
                           ("v", lambda v: pyvc.as_int(v) == s2v(a, b)),
                           ("standard", lambda v: tup_eq(flat(v), (a, b))),
                           ("s", lambda v: tup_eq(flat(v), (a, b)))):
            vm, outs = explore_prop(E, name, selfE)
            outs = [o for o in outs]
            r = check_cases(outs, [{"label": name, "when": z3.BoolVal(True), "post": post}], pre=[validE], tier=tier,
                            name="E." + name)
            if r.status != core.PROVED:
                return r
        return r
    s.oblige("C10.E.views", e_views, ["voigt.StrainRepresentation.%s" % n for n in ("voigt", "v", "standard", "s")])

    def e_roundtrip():
        # from_voigt(e.voigt) == e  and from_standard(*e.standard) == e for the six valid representations,
        # and voigt(from_voigt(I)) == I: a lemma over the two contracts above
        g1 = z3.Implies(validE, tup_eq(v2s(s2v(a, b)), (a, b)))
        g2 = z3.Implies(in16(I), s2v(*v2s(I)) == I)
        g3 = z3.Implies(validE, z3.And(in13(a, b), zmin(a, b) == a, zmax(a, b) == b))
        return smt.prove(z3.And(g1, g2, g3), tier=tier, name="E.roundtrip")
    s.oblige("C10.E.roundtrip", e_roundtrip)

    # ---------------------------------------------------------------- 3. modulus representation
    holder = {}

    def c_from_standard():
        vm, outs = explore(C, "from_standard", [IntV(i), IntV(j), IntV(k), IntV(l)])
        holder["fs"] = outs
        p, q = (zmin(i, j), zmax(i, j)), (zmin(k, l), zmax(k, l))

        def post(v):
            is_key_shape(v)
            f = flat(v)
            return z3.Or(tup_eq(f, p + q), tup_eq(f, q + p))
        r = check_cases(outs, [
            {"label": "in range", "when": in13(i, j, k, l), "post": post},
            {"label": "out of range", "when": z3.Not(in13(i, j, k, l)), "raises": True}], tier=tier, name="C.from_standard")
        r.detail += " (%d paths)" % len(outs)

        def expect(i, j, k, l):
            return ("raise",) if not all(1 <= x <= 3 for x in (i, j, k, l)) else ("class", py_canon_class((i, j, k, l)))

        if r.status == core.REFUTED:
            vals = ints_of_model(r.model, ["i", "j", "k", "l"])
            obs = native(voigt.C_.from_standard, *vals)
            exp = expect(*vals)
            if exp[0] == "raise":
                bad = obs[0] != "raise"
            else:
                bad = obs[0] != "return" or tuple(obs[1].standard) not in exp[1]
            r.replay = {"input": vals, "observed": srepr(obs), "reproduced": bad}
            r.witness_id = "C.from_standard%r" % (tuple(vals),)
        return r
    s.oblige("C10.C.from_standard", c_from_standard, ["voigt.ModulusRepresentation.from_standard"])

    def summary(outs, xs, ys):
        """instantiate the path summary of from_standard at argument terms ys (z3 substitution)"""
        sub = list(zip(xs, ys))
        ok = z3.substitute(cond_of(outs, lambda o: o.kind == "return"), *sub)
        comps = [z3.substitute(merged(outs, lambda o, n=n: flat(o.value)[n]), *sub) for n in range(4)]
        return ok, comps

    def quotient():
        outs = holder.get("fs")
        if outs is None:
            return core.unknown("engine", "summary of from_standard unavailable")
        xs = [i, j, k, l]
        ys = z3.Ints("i2 j2 k2 l2")
        ok1, f1 = summary(outs, xs, xs)
        ok2, f2 = summary(outs, xs, ys)
        same_orbit = z3.Or(*[tup_eq(ys, g) for g in orbit(xs)])
        goal = z3.And(ok1, ok2, tup_eq(f1, f2) == same_orbit)
        r = smt.prove(goal, [in13(*xs), in13(*ys)], tier=tier, name="C.quotient")
        if r.status == core.REFUTED:
            v1 = ints_of_model(r.model, ["i", "j", "k", "l"])
            v2 = ints_of_model(r.model, ["i2", "j2", "k2", "l2"])
            o1, o2 = native(voigt.C_.from_standard, *v1), native(voigt.C_.from_standard, *v2)
            same = tuple(v2) in py_canon_class(tuple(v1))
            eq = o1[0] == "return" and o2[0] == "return" and o1[1] == o2[1] and hash(o1[1]) == hash(o2[1])
            r.replay = {"input": [v1, v2], "observed": [srepr(o1), srepr(o2)], "same_orbit": same, "equal": eq,
                        "reproduced": (eq != same) or o1[0] != "return" or o2[0] != "return"}
            r.witness_id = "quotient%r%r" % (tuple(v1), tuple(v2))
        return r
    s.oblige("C10.C.quotient_iff_orbit", quotient, ["voigt.ModulusRepresentation.from_standard"])

    def structural_eq_hash():
        # equality/hash of keys are Python's tuple semantics iff the classes do not override them
        bad = []
        for cname in (E, C):
            for meth in ("__eq__", "__hash__", "__ne__", "__new__"):
                if mod.member(cname, meth) is not None:
                    bad.append("%s.%s" % (cname, meth))
            if "NamedTuple" not in mod.classes[cname]["bases"]:
                bad.append("%s is not a NamedTuple" % cname)
        if bad:
            return core.refuted("frames", "structural equality/hash overridden: %s" % bad, witness_id="eqhash")
        return core.proved("frames", "no __eq__/__hash__/__new__ override; NamedTuple fields %s / %s"
                           % (mod.classes[E]["fields"], mod.classes[C]["fields"]))
    s.oblige("C10.C.eq_hash_structural", structural_eq_hash, kind="frame")

    def c_from_voigt():
        vm, outs = explore(C, "from_voigt", [IntV(I), IntV(J)])
        holder["fv"] = outs
        fs = holder.get("fs")
        if fs is None:
            return core.unknown("engine", "summary of from_standard unavailable")
        p, q = v2s(I), v2s(J)
        ok, f = summary(fs, [i, j, k, l], [p[0], p[1], q[0], q[1]])
        r = check_cases(outs, [
            {"label": "1<=I,J<=6", "when": in16(I, J), "post": lambda v: is_key_shape(v) and z3.And(ok, tup_eq(flat(v), f))},
            {"label": "out of range", "when": z3.Not(in16(I, J)), "raises": True}], tier=tier, name="C.from_voigt")

        def expect(I, J):
            return ("raise",) if not (1 <= I <= 6 and 1 <= J <= 6) else ("return", voigt.C_.from_standard(*TABLE[I], *TABLE[J]))
        if r.status == core.REFUTED:
            vals = ints_of_model(r.model, ["I", "J"])
            obs = native(voigt.C_.from_voigt, *vals)
            try:
                exp = expect(*vals)
            except Exception as e:
                exp = ("error", repr(e))
            r.replay = {"input": vals, "observed": srepr(obs), "expected": srepr(exp),
                        "reproduced": (obs[0] != exp[0]) or (obs[0] == "return" and obs[1] != exp[1])}
            r.witness_id = "C.from_voigt%r" % (tuple(vals),)
        return r
    s.oblige("C10.C.from_voigt_agrees_with_from_standard", c_from_voigt, ["voigt.ModulusRepresentation.from_voigt"])

    vs, selfC = sym_key("k")
    validC = valid_key(vs)

    def c_views():
        ka, kb, kc, kd = vs
        specs = {"voigt": (s2v(ka, kb), s2v(kc, kd)), "standard": (ka, kb, kc, kd)}
        specs["v"], specs["s"] = specs["voigt"], specs["standard"]
        r = None
        for name, spec in specs.items():
            vm, outs = explore_prop(C, name, selfC)
            r = check_cases(outs, [{"label": name, "when": z3.BoolVal(True), "post": lambda v, spec=spec: tup_eq(flat(v), spec)}],
                            pre=[validC], tier=tier, name="C." + name)
            if r.status != core.PROVED:
                return r
        return r
    s.oblige("C10.C.views", c_views, ["voigt.ModulusRepresentation.%s" % n for n in ("voigt", "v", "standard", "s")])

    def c_roundtrip():
        # for every value r that from_standard returns: from_voigt(*r.voigt) == r and from_standard(*r.standard) == r
        fs, fv = holder.get("fs"), holder.get("fv")
        if fs is None or fv is None:
            return core.unknown("engine", "summaries unavailable")
        xs = [i, j, k, l]
        ok, f = summary(fs, xs, xs)
        ok2, f2 = summary(fs, xs, f)                      # from_standard(*r.standard)
        vI, vJ = s2v(f[0], f[1]), s2v(f[2], f[3])          # r.voigt by the views contract
        sub = [(I, vI), (J, vJ)]
        ok3 = z3.substitute(cond_of(fv, lambda o: o.kind == "return"), *sub)
        f3 = [z3.substitute(merged(fv, lambda o, n=n: flat(o.value)[n]), *sub) for n in range(4)]
        goal = z3.And(ok, ok2, ok3, tup_eq(f2, f), tup_eq(f3, f), in16(vI, vJ))
        return smt.prove(goal, [in13(*xs)], tier=tier, name="C.roundtrip")
    s.oblige("C10.C.roundtrip_views", c_roundtrip)

    def c_multiplicity():
        fs = holder.get("fs")
        if fs is None:
            return core.unknown("engine", "summary unavailable")
        xs = [i, j, k, l]
        # the key returned for (i,j,k,l), then .multiplicity evaluated on it
        worst = None
        for o in fs:
            if o.kind != "return":
                continue
            vm, outs = explore_prop(C, "multiplicity", o.value)
            r = check_cases(outs, [{"label": "multiplicity = |class|", "when": z3.BoolVal(True),
                                    "post": lambda v: pyvc.as_int(v) == orbit_size(xs)}],
                            pre=[in13(*xs)] + list(o.pc), tier=tier, name="C.multiplicity")
            worst = r
            if r.status != core.PROVED:
                if r.status == core.REFUTED:
                    vals = ints_of_model(r.model, ["i", "j", "k", "l"])
                    obs = native(lambda *t: voigt.C_.from_standard(*t).multiplicity, *vals)
                    exp = len(py_canon_class(tuple(vals)))
                    r.replay = {"input": vals, "observed": srepr(obs), "expected": exp, "reproduced": obs != ("return", exp)}
                    r.witness_id = "multiplicity%r" % (tuple(vals),)
                return r
        return worst
    s.oblige("C10.C.multiplicity_is_class_size", c_multiplicity, ["voigt.ModulusRepresentation.multiplicity"])

    def c_classification():
        ka, kb, kc, kd = vs
        vI, vJ = s2v(ka, kb), s2v(kc, kd)
        shear = z3.Or(vI >= 4, vJ >= 4)                       # carries a Voigt index 4..6
        longi = z3.And(z3.Not(shear), vI == vJ)               # c11 c22 c33
        offd = z3.And(z3.Not(shear), vI != vJ)                # c12 c13 c23
        specs = {"is_shear": shear, "is_longitudinal": longi, "is_off_diagonal": offd}
        r = None
        for name, spec in specs.items():
            vm, outs = explore_prop(C, name, selfC)
            r = check_cases(outs, [{"label": name, "when": z3.BoolVal(True),
                                    "post": lambda v, spec=spec: (v.z if isinstance(v, pyvc.BoolV) else pyvc.as_int(v) != 0) == spec}],
                            pre=[validC], tier=tier, name="C." + name)
            if r.status != core.PROVED:
                return r
        # calc_type returns the matching enum member
        vm, outs = explore_prop(C, "calc_type", selfC)
        for o in outs:
            want = {"LONGITUDINAL": longi, "OFF_DIAGONAL": offd, "SHEAR": shear}
            if o.kind != "return" or not isinstance(o.value, pyvc.EnumV):
                g = z3.BoolVal(False)
            else:
                g = want.get(o.value.name, z3.BoolVal(False))
            r = smt.prove(g, [validC] + list(o.pc), tier=tier, name="C.calc_type")
            if r.status != core.PROVED:
                r.detail = "calc_type returns %s on path %s | %s" % (pyvc.show(o.value) if o.kind == "return" else o.exc,
                                                                    z3.simplify(pc_of(o)), r.detail)
                return r
        # exclusive and exhaustive (lemma over the three specs)
        r2 = smt.prove(z3.And(z3.Or(shear, longi, offd), z3.Not(z3.And(shear, longi)), z3.Not(z3.And(shear, offd)),
                              z3.Not(z3.And(longi, offd))), [validC], tier=tier)
        return r2 if r2.status != core.PROVED else r
    s.oblige("C10.C.classification", c_classification,
             ["voigt.ModulusRepresentation.%s" % n for n in ("is_shear", "is_longitudinal", "is_off_diagonal", "calc_type")])

    # ---------------------------------------------------------------- 4. spellings through create()
    def digits_pre(chars):
        return [z3.And(pyvc.DIGIT(c) >= -1, pyvc.DIGIT(c) <= 9) for c in chars]

    def e_create():
        # two ints
        vm, outs = explore(E, "create", [IntV(i), IntV(j)])
        r = check_cases(outs, [
            {"label": "two ints in range", "when": in13(i, j), "post": lambda v: tup_eq(flat(v), (zmin(i, j), zmax(i, j)))},
            {"label": "two ints out of range", "when": z3.Not(in13(i, j)), "raises": True}], tier=tier, name="E.create(i,j)")
        if r.status != core.PROVED:
            return r
        # one int: voigt digit, or two-digit standard spelling; every other integer is rejected
        ibound = [I < 10 ** pyvc.VM.MAX_DIGITS, I > -10 ** pyvc.VM.MAX_DIGITS]
        vm, outs = explore(E, "create", [IntV(I)], pre=ibound)
        d1, d0 = I / 10, I % 10
        two = z3.And(I >= 10, I <= 99, in13(d1, d0))
        r = check_cases(outs, [
            {"label": "voigt int", "when": in16(I), "post": lambda v: tup_eq(flat(v), v2s(I))},
            {"label": "two-digit int", "when": two, "post": lambda v: tup_eq(flat(v), (zmin(d1, d0), zmax(d1, d0)))},
            {"label": "any other int", "when": z3.And(z3.Not(in16(I)), z3.Not(two), I < 10 ** pyvc.VM.MAX_DIGITS, I > -10 ** pyvc.VM.MAX_DIGITS), "raises": True}],
            pre=ibound, tier=tier, name="E.create(int)")
        if r.status != core.PROVED:
            return replay_ints(voigt.E_.create, ["I"], lambda I: ("return", TABLE[I]) if 1 <= I <= 6 else (
                ("return", tuple(sorted((I // 10, I % 10)))) if 10 <= I <= 99 and 1 <= I // 10 <= 3 and 1 <= I % 10 <= 3 else ("raise",)))(r)
        # strings of length 0..4 over abstract characters
        for n in range(0, 5):
            chars = [z3.Int("c%d" % t) for t in range(n)]
            vm, outs = explore(E, "create", [StrV(chars)])
            ds = [pyvc.DIGIT(c) for c in chars]
            alld = z3.And(*[d >= 0 for d in ds]) if ds else z3.BoolVal(True)
            if n == 1:
                cases = [{"label": "'v'", "when": z3.And(alld, in16(ds[0])), "post": lambda v: tup_eq(flat(v), v2s(ds[0]))},
                         {"label": "other 1-char", "when": z3.Not(z3.And(alld, in16(ds[0]))), "raises": True}]
            elif n == 2:
                okc = z3.And(alld, in13(*ds))
                cases = [{"label": "'ij'", "when": okc, "post": lambda v: tup_eq(flat(v), (zmin(*ds), zmax(*ds)))},
                         {"label": "other 2-char", "when": z3.Not(okc), "raises": True}]
            else:
                cases = [{"label": "length %d" % n, "when": z3.BoolVal(True), "raises": True}]
            r = check_cases(outs, cases, pre=digits_pre(chars), tier=tier, name="E.create(str[%d])" % n)
            if r.status != core.PROVED:
                return r
        return r
    s.oblige("C10.E.create_spellings", e_create, ["voigt.StrainRepresentation.create"])

    def c_create():
        fs, fv = holder.get("fs"), holder.get("fv")
        if fs is None or fv is None:
            return core.unknown("engine", "summaries unavailable")
        xs = [i, j, k, l]

        def std_post(ys):
            ok, f = summary(fs, xs, ys)
            return lambda v: is_key_shape(v) and z3.And(ok, tup_eq(flat(v), f))

        def vgt_post(ys):
            sub = list(zip([I, J], ys))
            ok = z3.substitute(cond_of(fv, lambda o: o.kind == "return"), *sub)
            f = [z3.substitute(merged(fv, lambda o, n=n: flat(o.value)[n]), *sub) for n in range(4)]
            return lambda v: is_key_shape(v) and z3.And(ok, tup_eq(flat(v), f))
        # integer argument lists of length 0..5
        r = None
        for n in range(0, 6):
            args = [z3.Int("x%d" % t) for t in range(n)]
            if n == 1:
                continue
            vm, outs = explore(C, "create", [IntV(x) for x in args])
            if n == 4:
                cases = [{"label": "4 ints in range", "when": in13(*args), "post": std_post(args)},
                         {"label": "4 ints out of range", "when": z3.Not(in13(*args)), "raises": True}]
            elif n == 2:
                cases = [{"label": "2 ints in range", "when": in16(*args), "post": vgt_post(args)},
                         {"label": "2 ints out of range", "when": z3.Not(in16(*args)), "raises": True}]
            else:
                cases = [{"label": "%d ints" % n, "when": z3.BoolVal(True), "raises": True}]
            r = check_cases(outs, cases, tier=tier, name="C.create(%d ints)" % n)
            if r.status != core.PROVED:
                return r
        # strings of length 0..6
        for n in range(0, 7):
            chars = [z3.Int("c%d" % t) for t in range(n)]
            vm, outs = explore(C, "create", [StrV(chars)])
            ds = [pyvc.DIGIT(c) for c in chars]
            alld = z3.And(*[d >= 0 for d in ds]) if ds else z3.BoolVal(True)
            if n == 4:
                okc = z3.And(alld, in13(*ds))
                cases = [{"label": "'ijkl'", "when": okc, "post": std_post(ds)}, {"label": "bad 4-char", "when": z3.Not(okc), "raises": True}]
            elif n == 2:
                okc = z3.And(alld, in16(*ds))
                cases = [{"label": "'IJ'", "when": okc, "post": vgt_post(ds)}, {"label": "bad 2-char", "when": z3.Not(okc), "raises": True}]
            else:
                cases = [{"label": "length %d" % n, "when": z3.BoolVal(True), "raises": True}]
            r = check_cases(outs, cases, pre=digits_pre(chars), tier=tier, name="C.create(str[%d])" % n)
            if r.status != core.PROVED:
                return r
        # one integer: agrees with its decimal string
        N = z3.Int("N")
        bound = [N < 10 ** pyvc.VM.MAX_DIGITS, N > -10 ** pyvc.VM.MAX_DIGITS]
        vm, outs = explore(C, "create", [IntV(N)], pre=bound)
        d = lambda p: (N / (10 ** p)) % 10
        four = z3.And(N >= 1000, N <= 9999, in13(d(3), d(2), d(1), d(0)))
        two = z3.And(N >= 10, N <= 99, in16(d(1), d(0)))
        cases = [{"label": "4-digit int", "when": four, "post": std_post([d(3), d(2), d(1), d(0)])},
                 {"label": "2-digit int", "when": two, "post": vgt_post([d(1), d(0)])},
                 {"label": "other int", "when": z3.And(z3.Not(four), z3.Not(two)), "raises": True}]
        r = check_cases(outs, cases, pre=bound, tier=tier, name="C.create(int)")
        if r.status == core.REFUTED:
            vals = ints_of_model(r.model, ["N"])
            r.replay = {"input": vals, "observed": srepr(native(voigt.C_.create, *vals)), "reproduced": True}
            r.witness_id = "C.create(int)%r" % (tuple(vals),)
        return r
    s.oblige("C10.C.create_spellings", c_create, ["voigt.ModulusRepresentation.create"])
    s.notes["string_length_bound"] = ("strings are modelled up to length 6 (C) / 4 (E) over abstract characters; one-argument "
                                      "integers up to %d digits; within the bound characters and integers are unbounded" % pyvc.VM.MAX_DIGITS)

    def aliases():
        p = os.path.join(core.REPO, "cij/util/__init__.py")
        tree = ast.parse(open(p).read())
        found = {}
        for node in tree.body:
            if isinstance(node, ast.Assign) and len(node.targets) == 1 and isinstance(node.targets[0], ast.Name):
                found[node.targets[0].id] = ast.unparse(node.value)
        bad = []
        want = {"c_": "C_._", "e_": "E_._", "s_": "C_._"}
        for kname, v in want.items():
            if found.get(kname) != v:
                bad.append("%s = %s" % (kname, found.get(kname)))
        for cls in (E, C):
            f = mod.member(cls, "_")
            body = [st for st in f.node.body if not (isinstance(st, ast.Expr) and isinstance(st.value, ast.Constant))] if f else []
            if not (f and f.kind == "classmethod" and len(body) == 1 and ast.unparse(body[0]) == "return cls.create(*args)"):
                bad.append("%s._ is not `return cls.create(*args)`" % cls)
        if mod.aliases.get("E_") != E or mod.aliases.get("C_") != C:
            bad.append("E_/C_ aliases: %r" % mod.aliases)
        fn = lambda x: getattr(x, "__func__", x)
        if fn(util.c_) is not fn(voigt.ModulusRepresentation._) or fn(util.e_) is not fn(voigt.StrainRepresentation._) or fn(util.s_) is not fn(voigt.ModulusRepresentation._):
            bad.append("the imported shorthands c_ / e_ / s_ are not the classes' own `_` (they are %s objects: whatever they do to the argument happens before create() validates it)"
                       % type(util.c_).__name__)
        if bad:
            return core.refuted("frames", "aliases are not bound to create(): %s" % bad, witness_id="aliases")
        return core.proved("frames", "c_, s_ = C_._ ; e_ = E_._ ; _ forwards to create")
    s.oblige("C10.aliases", aliases, ["cij.util.c_", "cij.util.e_", "cij.util.s_", "voigt.ModulusRepresentation._", "voigt.StrainRepresentation._"], kind="frame")

    # ---------------------------------------------------------------- 5. complete finite domain on the real code [F]
    finite_domain(s, voigt, util)
    # ---------------------------------------------------------------- 6. engine cross-check against CPython
    crosscheck(s, mod, voigt, holder)
    # ---------------------------------------------------------------- canaries
    canaries(s, holder, tier)


def finite_domain(s, voigt, util):
    c_, e_ = util.c_, util.e_
    R = (1, 2, 3)

    def quotient_finite():
        keys = {}
        n = 0
        for t in itertools.product(R, repeat=4):
            k = c_(*t)
            n += 1
            keys.setdefault(k, set()).add(t)
            for sp in (("".join(map(str, t)),), (int("".join(map(str, t))),)):
                if c_(*sp) != k or hash(c_(*sp)) != hash(k):
                    return core.refuted("finite", "spelling %r differs from %r" % (sp, t), witness_id="spell%r" % (sp,),
                                        replay={"reproduced": True, "input": repr(sp)})
        if len(keys) != 21:
            return core.refuted("finite", "%d classes instead of 21" % len(keys), witness_id="nclasses", replay={"reproduced": True})
        for k, cls in keys.items():
            for t in cls:
                if py_canon_class(t) != frozenset(cls):
                    return core.refuted("finite", "class of %r is not its orbit" % (t,), witness_id="orbit%r" % (t,), replay={"reproduced": True})
            if k.multiplicity != len(cls):
                return core.refuted("finite", "multiplicity of %r is %d, class has %d" % (k, k.multiplicity, len(cls)),
                                    witness_id="mult%r" % (k.standard,), replay={"reproduced": True})
            if c_(*k.voigt) != k or c_(*k.standard) != k or c_("%d%d" % k.voigt) != k or c_(int("%d%d" % k.voigt)) != k:
                return core.refuted("finite", "views of %r do not round-trip" % (k,), witness_id="rt%r" % (k.standard,), replay={"reproduced": True})
        if sum(k.multiplicity for k in keys) != 81:
            return core.refuted("finite", "multiplicities sum to %d" % sum(k.multiplicity for k in keys), witness_id="sum81", replay={"reproduced": True})
        kinds = [(k.is_longitudinal, k.is_off_diagonal, k.is_shear) for k in keys]
        if any(sum(map(bool, x)) != 1 for x in kinds) or [sum(bool(x[t]) for x in kinds) for t in range(3)] != [3, 3, 15]:
            return core.refuted("finite", "classification is not a 3/3/15 partition", witness_id="partition", replay={"reproduced": True})
        T = voigt.ElasticModulusCalculationType
        for k in keys:
            want = T.SHEAR if max(k.voigt) >= 4 else (T.LONGITUDINAL if k.voigt[0] == k.voigt[1] else T.OFF_DIAGONAL)
            if k.calc_type is not want:
                return core.refuted("finite", "calc_type of %r" % (k,), witness_id="calc%r" % (k.standard,), replay={"reproduced": True})
        pairs = {}
        for I in range(1, 7):
            for J in range(1, 7):
                k = c_(I, J)
                n += 1
                if k != c_(*TABLE[I], *TABLE[J]) or c_("%d%d" % (I, J)) != k or c_(I * 10 + J) != k or c_(J, I) != k:
                    return core.refuted("finite", "voigt pair (%d,%d)" % (I, J), witness_id="pair%d%d" % (I, J), replay={"reproduced": True})
                pairs[k] = 1
        if len(pairs) != 21:
            return core.refuted("finite", "voigt pairs give %d keys" % len(pairs), witness_id="npairs", replay={"reproduced": True})
        for a in R:
            for b in R:
                e = e_(a, b)
                n += 1
                if tuple(e) != (min(a, b), max(a, b)) or e_(e.voigt) != e or e_(*e.standard) != e or e_("%d%d" % (a, b)) != e \
                        or e_(a * 10 + b) != e or e_(str(e.voigt)) != e or TABLE[e.voigt] != tuple(e):
                    return core.refuted("finite", "strain pair (%d,%d)" % (a, b), witness_id="strain%d%d" % (a, b), replay={"reproduced": True})
        # out-of-range neighbours are rejected
        rej = 0
        for t in itertools.product((0, 1, 2, 3, 4, 7, -1), repeat=4):
            if all(x in R for x in t):
                continue
            for sp in ((t,), (("".join(map(str, t)),) if all(x >= 0 for x in t) else None)):
                if sp is None:
                    continue
                args = sp[0] if isinstance(sp[0], tuple) else sp
                if native(c_, *args)[0] != "raise":
                    return core.refuted("finite", "out-of-range %r accepted" % (args,), witness_id="oor%r" % (args,),
                                        replay={"reproduced": True, "input": repr(args)})
                rej += 1
        for t in itertools.product((0, 1, 6, 7, -1, 10), repeat=2):
            if all(1 <= x <= 6 for x in t):
                continue
            if native(c_, *t)[0] != "raise":
                return core.refuted("finite", "out-of-range voigt %r accepted" % (t,), witness_id="oorv%r" % (t,), replay={"reproduced": True})
            rej += 1
        for t in itertools.product((0, 1, 3, 4, -1), repeat=2):
            if all(x in R for x in t):
                continue
            if native(e_, *t)[0] != "raise":
                return core.refuted("finite", "out-of-range strain %r accepted" % (t,), witness_id="oore%r" % (t,), replay={"reproduced": True})
            rej += 1
        for x in (0, 7, 8, 9, -1, 44, 14, 41, 123, "0", "7", "", "ab", "1a", "123"):
            if native(e_, x)[0] != "raise":
                return core.refuted("finite", "strain spelling %r accepted" % (x,), witness_id="oores%r" % (x,), replay={"reproduced": True})
            rej += 1
        for x in (0, 5, 77, 17, 123, 11111, 1114, -11, "5", "", "abc", "1 1", "11111", "17", "1141"):
            if native(c_, x)[0] != "raise":
                return core.refuted("finite", "modulus spelling %r accepted" % (x,), witness_id="oorcs%r" % (x,), replay={"reproduced": True})
            rej += 1
        if s is not None:
            s.notes["finite_domain_calls"] = n + rej
            s.notes["exhaustive"] = True
        return core.proved("finite", "81 tuples, 36 pairs, 9 strain pairs, their str/int spellings and %d out-of-range neighbours on the real code" % rej)
    if s is None:
        return quotient_finite
    s.oblige("C10.finite_domain", quotient_finite, ["cij.util.c_", "cij.util.e_"], kind="finite")


def crosscheck(s, mod, voigt, holder):
    """engine vs CPython: the engine's path outcome for concrete inputs must match the real function"""
    E, C = "StrainRepresentation", "ModulusRepresentation"
    i, j, k, l = z3.Ints("i j k l")
    I, J = z3.Ints("I J")
    mism = []
    n = 0

    def cmp(outs, vars_, vals, fn):
        nonlocal n
        n += 1
        hits = pyvc.eval_concrete(outs, [(v, z3.IntVal(x)) for v, x in zip(vars_, vals)])
        obs = native(fn, *vals)
        if len(hits) != 1:
            mism.append((fn.__qualname__, vals, "paths hit: %d" % len(hits)))
            return
        o, m = hits[0]
        if o.kind != obs[0]:
            mism.append((fn.__qualname__, vals, o.kind, obs))
            return
        if o.kind == "return":
            sub = [(v, z3.IntVal(x)) for v, x in zip(vars_, vals)]
            got = [z3.simplify(z3.substitute(t, *sub)) for t in flat(o.value)]
            real = obs[1]
            want = list(real.standard) if hasattr(real, "standard") and isinstance(real.standard, tuple) else [real]
            if [g.as_long() if z3.is_int_value(g) else None for g in got] != list(want):
                mism.append((fn.__qualname__, vals, [str(g) for g in got], want))
    fs, fv = holder.get("fs"), holder.get("fv")
    if fs:
        for t in itertools.product(range(0, 5), repeat=4):
            cmp(fs, [i, j, k, l], t, voigt.C_.from_standard)
    if fv:
        for t in itertools.product(range(0, 8), repeat=2):
            cmp(fv, [I, J], t, voigt.C_.from_voigt)
    s.crosscheck("pyvc-vs-CPython voigt.C_.from_standard/from_voigt", n, mism,
                 "5^4 tuples and 8^2 pairs: engine path + result vs the real function")


def canaries(s, holder, tier):
    i, j, k, l = z3.Ints("i j k l")
    fs = holder.get("fs")
    if not fs:
        return
    xs = [i, j, k, l]

    def wrong_orbit():
        # perturbed spec: (i,j,k,l) ~ (i,k,j,l) is NOT a symmetry of the elastic tensor
        ys = z3.Ints("i2 j2 k2 l2")
        sub = list(zip(xs, ys))
        f1 = [merged(fs, lambda o, n=n: flat(o.value)[n]) for n in range(4)]
        f2 = [z3.substitute(t, *sub) for t in f1]
        wrong = z3.Or(*[tup_eq(ys, g) for g in orbit(xs)] + [tup_eq(ys, (i, k, j, l))])
        return smt.prove(tup_eq(f1, f2) == wrong, [in13(*xs), in13(*ys)], tier=tier)
    s.canary("C10.canary.extra_symmetry_ikjl", wrong_orbit)

    def wrong_mult():
        f1 = [merged(fs, lambda o, n=n: flat(o.value)[n]) for n in range(4)]
        a, b, c, d = f1
        mult = z3.If(z3.Or(a != c, b != d), 2, 1) * z3.If(a != b, 2, 1) * z3.If(c != d, 2, 1)
        return smt.prove(mult == orbit_size(xs) + z3.If(z3.And(i == 1, j == 2, k == 1, l == 3), 1, 0), [in13(*xs)], tier=tier)
    s.canary("C10.canary.multiplicity_off_by_one_at_1213", wrong_mult)

    def range_canary():
        # perturbed spec: index 4 accepted
        return smt.prove(cond_of(fs, lambda o: o.kind == "return"), [z3.And(*[z3.And(1 <= x, x <= 4) for x in xs])], tier=tier)
    s.canary("C10.canary.range_1_to_4", range_canary)


MANIFEST = {
    "engine": "pyvc", "category": "proof",
    "technique": "contract-based deductive verification: AST->SMT verification conditions (z3/cvc5) on cij/util/voigt.py",
    "text": "Every function of cij/util/voigt.py is executed symbolically from its current source; per-path verification "
            "conditions over unbounded integers are discharged by z3 (cvc5 second): range => canonical result, out of range "
            "=> raises (for every integer), the quotient theorem F(x)=F(x') <=> x' in orbit(x) on the path summary, "
            "multiplicity = class size, 3/3/15 classification, view round trips, and all spellings through create() "
            "(strings up to length 6 over abstract characters, integers up to 7 digits). The property's own finite "
            "quantifier (81 tuples, 36 pairs, spellings, out-of-range neighbours) is additionally enumerated completely "
            "on the real code.",
    "note": "Assumes the Python semantics listed in evidence.python_semantics_assumed (A-PYSEM; cross-checked against CPython "
            "on 5^4 tuples + 8^2 pairs every run); trusts z3/cvc5 and the pyvc engine; bool/float arguments are outside the "
            "contract's precondition type in {int,str}.",
}
