"""C20 -- eigenvector tools: sorting recovers the permutation; conversion restores a basis."""
import importlib, itertools, os, re as _re, shutil, tempfile, types
import numpy
import z3
from vf import core, smt, symnp
from vf.symnp import Sc

LEVEL = "other"
EXPLANATION = ("evec_disp2eig: the real function run by real numpy on object arrays of symbolic reals (sizes enumerated, values unbounded; z3 "
               "NRA with Sqrt axioms): formula, unit norm, basis restoration, frame, rejection; evec_sort: Hoare loop rule on the function's own "
               "statements executed on a matrix of SYMBOLIC dimension (vf/looprule.py; invariant + counting lemmas in Lean) plus a bounded run-time contract; "
               "evec_load: bounded run-time contract (rendered matdyn files)")
D2E = "evec_disp2eig.evec_disp2eig"


def run(s):
    d2e = importlib.import_module("cij.misc.evec_disp2eig")
    tier = s.tier
    s.trust("z3 5.1 (QF_NRA)", "numpy object-array arithmetic (the real numpy executes the function)")
    s.assume("A-FP", "Sqrt axioms: x >= 0 => Sqrt(x) >= 0 and Sqrt(x)^2 = x", "real displacement vectors in the deductive part (complex ones in the bounded part)")
    s.undecided_part("evec_sort: that a permuted, re-phased, <= 5 %-perturbed unitary basis has the dominant-overlap structure the loop-rule obligation assumes "
                     "(A-DOM, Cauchy-Schwarz; stated, exercised by the bounded run), the "
                     "optional filter / threshold arguments (the dimension check in front of the loop is discharged for every shape: C20.evec_sort.dimension_check)")
    s.undecided_part("matdyn file loader: float() of the printed tokens is bounded only, and matdyn's layout itself is an assumption (A-MATDYN); regular expressions, column slices and the "
                     "order of the lines consumed (all 120 layouts of the quantifier, abstract contents) are discharged")

    def sym_case(N, M, tag=""):
        a = numpy.array([[Sc(z3.Real("a%s_%d_%d" % (tag, i, j))) for j in range(3 * N)] for i in range(M)], dtype=object)
        mass = [Sc(z3.Real("m%s_%d" % (tag, k))) for k in range(N)]
        return a, mass

    def run_real(a, mass):
        from contracts.np_proxy import NumpyProxy
        from contracts.nonshear_env import patched

        class P(NumpyProxy):
            """real numpy; element-wise sqrt / maximum / minimum / real on object arrays that mix symbolic scalars and floats"""

            def _elem(self, f, *arrs):
                arrs = numpy.broadcast_arrays(*[numpy.asarray(x, dtype=object) for x in arrs])
                out = numpy.empty(arrs[0].shape, dtype=object)
                for idx in numpy.ndindex(arrs[0].shape):
                    out[idx] = f(*[x[idx] for x in arrs])
                return out

            def sqrt(self, x):
                return self._elem(lambda v: Sc(symnp.SQRT(symnp.term(v))), x)

            def maximum(self, x, y):
                return self._elem(lambda u, v: Sc(z3.If(symnp.term(u) >= symnp.term(v), symnp.term(u), symnp.term(v))), x, y)

            def minimum(self, x, y):
                return self._elem(lambda u, v: Sc(z3.If(symnp.term(u) <= symnp.term(v), symnp.term(u), symnp.term(v))), x, y)

            def real(self, x):
                return x

            def conj(self, x):
                return x
        paths = symnp.Paths([], max_paths=64)
        with patched(d2e, numpy=P()):
            return paths.run(lambda: d2e.evec_disp2eig(a, mass))

    # ---------------- 1. formula, unit norm, frame
    def formula():
        n = 0
        for N, M in ((1, 1), (1, 3), (2, 2), (2, 6)):
            a, mass = sym_case(N, M)
            a0 = a.copy()
            outs = run_real(a, mass)
            if any(a[i, j] is not a0[i, j] for i in range(M) for j in range(3 * N)):
                return core.refuted("frames", "evec_disp2eig modifies its input array", witness_id="d2e-frame", replay=native_d2e(d2e))
            pos = [m.z > 0 for m in mass]
            for pc, res in outs:
                for i in range(M):
                    nrm = sum((a0[i, j].z * a0[i, j].z * mass[j // 3].z for j in range(3 * N)), z3.RealVal(0))
                    facts = pos + pc + [nrm > 0]
                    for j in range(3 * N):
                        n += 1
                        got = symnp.term(res[i, j])
                        want = a0[i, j].z * symnp.SQRT(mass[j // 3].z) / symnp.SQRT(nrm)
                        nz = symnp.SumNormalizer(facts, tier)
                        goal = got == want
                        r = nz.decide(goal, nz.facts(goal) + sqrt_links(goal), "d2e[%d,%d]" % (i, j))
                        if r.status != core.PROVED:
                            r.detail = "N=%d M=%d: result[%d,%d] is not a_ij sqrt(m_j) / sqrt(sum_j a_ij^2 m_j) on path %s | %s" % (N, M, i, j, [str(c)[:60] for c in pc], r.detail)
                            if r.status == core.REFUTED:
                                r.replay, r.witness_id = native_d2e(d2e), "d2e-formula"
                            return r
        return core.proved("z3", "%d entries over sizes (N,M) in {(1,1),(1,3),(2,2),(2,6)}: result = a sqrt(m) / sqrt(sum a^2 m); input array not written" % n)
    s.oblige("C20.disp2eig.formula_and_frame", formula, [D2E])

    def unit_norm():
        # lemma over the contract: rows of a_ij sqrt(m_j)/sqrt(S) with S = sum a^2 m > 0 have unit norm
        N = 2
        a = [z3.Real("a%d" % j) for j in range(3 * N)]
        m = [z3.Real("m%d" % k) for k in range(N)]
        S = sum((a[j] * a[j] * m[j // 3] for j in range(3 * N)), z3.RealVal(0))
        sq = [z3.Real("sq%d" % k) for k in range(N)]
        sS = z3.Real("sqS")
        facts = [x > 0 for x in m] + [S > 0, sS > 0, sS * sS == S] + [z3.And(q > 0, q * q == mm) for q, mm in zip(sq, m)]
        row = [a[j] * sq[j // 3] / sS for j in range(3 * N)]
        return smt.prove(sum((x * x for x in row), z3.RealVal(0)) == 1, facts, tier=tier)
    s.oblige("C20.disp2eig.lemma.unit_norm", unit_norm, [D2E])

    def restores_basis():
        # a_i = lambda_i u_i / sqrt(m) with u orthonormal  =>  result_i = sign(lambda_i) u_i  (N = 1: three components, two rows)
        u = [[z3.Real("u%d%d" % (i, j)) for j in range(3)] for i in range(2)]
        lam = [z3.Real("lam%d" % i) for i in range(2)]
        m, sq = z3.Real("m"), z3.Real("sqm")
        ortho = [sum((u[i][j] * u[k][j] for j in range(3)), z3.RealVal(0)) == (1 if i == k else 0) for i in range(2) for k in range(2)]
        facts = ortho + [m > 0, sq > 0, sq * sq == m] + [l != 0 for l in lam]
        goals = []
        for i in range(2):
            a = [lam[i] * u[i][j] / sq for j in range(3)]
            S = sum((x * x * m for x in a), z3.RealVal(0))             # = lam^2
            sS = z3.If(lam[i] > 0, lam[i], -lam[i])                     # sqrt(lam^2)
            facts.append(sS * sS == S)
            for j in range(3):
                goals.append(a[j] * sq / sS == z3.If(lam[i] > 0, u[i][j], -u[i][j]))
        return smt.prove(z3.And(*goals), facts, tier=tier)
    s.oblige("C20.disp2eig.lemma.restores_orthonormal_basis", restores_basis, [D2E])

    def rejects():
        # complete over small shapes: M vectors of w components with N masses is a mismatch exactly when w != 3 N -- also when M w happens to be a multiple of 3 N
        # (six 6-vectors with three masses, two 3-vectors with two masses: a re-cut into other rows is not a conversion of the vectors that were given)
        n = 0
        for N in range(1, 5):
            mass = [1.0 + 0.5 * k for k in range(N)]
            for M in range(1, 8):
                for w in range(1, 14):
                    a = numpy.arange(1.0, M * w + 1.0).reshape(M, w)
                    n += 1
                    try:
                        out = d2e.evec_disp2eig(a.copy(), list(mass))
                    except Exception:  # noqa: BLE001 - which exception signals the rejection is the code's choice
                        if w == 3 * N:
                            return core.refuted("finite", "%d displacement vector(s) of %d components with %d masses (matching dimensions) are rejected" % (M, w, N), witness_id="d2e-accept",
                                                replay={"reproduced": True, "shape": [M, w], "masses": N})
                        continue
                    if w != 3 * N:
                        return core.refuted("finite", "%d displacement vector(s) of %d components with %d masses are accepted (result of shape %s)" % (M, w, N, numpy.shape(out)),
                                            witness_id="d2e-reject", replay={"reproduced": True, "shape": [M, w], "masses": N})
                    if numpy.shape(out) != (M, w):
                        return core.refuted("finite", "result of shape %s for %d vectors of %d components" % (numpy.shape(out), M, w), witness_id="d2e-shape", replay={"reproduced": True})
        return core.proved("finite", "%d shapes (1-7 vectors x 1-13 components x 1-4 masses): accepted exactly when the width is 3 N, result of the input's shape" % n)
    s.oblige("C20.disp2eig.rejects_dimension_mismatch", rejects, [D2E], kind="finite")

    sort_loop_rule(s)
    load_lemmas(s)
    load_structure(s)
    bounded_d2e(s, d2e)
    bounded_sort(s)
    bounded_load(s)
    s.min_obligations = 9
    s.required_names = ["C20.evec_sort.loop_rule(all dimensions)", "C20.evec_sort.dimension_check(all shapes)", "C20.disp2eig.formula_and_frame"]


# ----------------------------------------------------------------------------------------------------------------------
# evec_sort: the greedy elimination loop under the loop rule (vf/looprule.py), dimension n symbolic
SORT = "evec_sort.evec_sort"


def numpy_stub_globals(func, stub, extra):
    """the function's module globals with every reference to the numpy module / a numpy function replaced by the stub"""
    out = dict(extra)
    for name, val in func.__globals__.items():
        if val is numpy:
            out[name] = stub
        elif getattr(val, "__module__", "") and str(getattr(val, "__module__", "")).startswith("numpy") and callable(val) \
                and getattr(numpy, getattr(val, "__name__", "?"), None) is val:
            out[name] = getattr(stub, val.__name__)
    return out


def sort_setup(es):
    from contracts import evec_env as E
    from vf import looprule
    n = z3.Int("n")
    E.CTX[0] = E.Ctx(E.SInt(n))
    pieces = looprule.Pieces(es.evec_sort, 0, stubs=numpy_stub_globals(es.evec_sort, E.NumpyStub(), {"len": E.sym_len, "range": E.sym_range}))
    target = E.SymList(E.SInt(n), lambda k: E.TARGET(k))
    env0 = {"target_arr": target, "target_evecs": E.SymVecs("target", E.SInt(n)), "base_evecs": E.SymVecs("base", E.SInt(n)),
            "filter": None, "threshold": None}
    missing = [a for a in pieces.args if a not in env0]
    if missing or [a for a in env0 if a not in pieces.args]:
        raise core.OutsideSubset("evec_sort's parameters are %s" % pieces.args)
    return E, pieces, n, env0, target


def state_of(E, env, target):
    mats = [(k, v) for k, v in env.items() if isinstance(v, E.SymMat) and not v.real]
    lists = [(k, v) for k, v in env.items() if isinstance(v, E.SymList) and v is not target]
    if len(mats) != 1 or len(lists) != 1:
        raise core.OutsideSubset("loop state: %d overlap matrices, %d result lists among the locals %s" % (len(mats), len(lists), sorted(env)))
    return mats[0], lists[0]


def sort_loop_rule(s):
    es = importlib.import_module("cij.misc.evec_sort")
    s.assume("A-ARGMAX: numpy.argmax returns the row-major first maximal entry, numpy.unravel_index its (row, column); conj(base) @ target.T is the overlap matrix "
             "M[i][j] = sum_k conj(base[i][k]) target[j][k] (entries in an abstract normed field, so real and complex bases alike)",
             "A-DOM: for a unitary base and target = (permutation, phases) of it plus row perturbations of norm <= eps = 5 %, |M[i][j] - phase_j delta(i, perm_j)| = "
             "|<base_i, E_j>| <= eps (Cauchy-Schwarz), i.e. one entry >= 0.95 per row and column and all others <= 0.05: the precondition of the loop-rule obligation")
    s.trust("lean 4 / Mathlib for lemmas/Counting.lean (pigeonhole facts used by the loop rule)")
    I = z3.IntSort()
    PI, PINV = z3.Function("pi", I, I), z3.Function("pinv", I, I)

    def rng(n, *xs):
        return z3.And(*[z3.And(x >= 0, x < n) for x in xs])

    def precondition(E, n, eps):
        """the property's input domain seen through the overlap matrix (A-DOM): a bijection pi of [0, n) with |M0[i, pi(i)]| >= 1 - eps and every other
        entry <= eps, eps = 5 %"""
        A = lambda i, j: E.ABS(E.M0(i, j))
        sch = [(1, lambda i: z3.Implies(rng(n, i), z3.And(rng(n, PI(i)), PINV(PI(i)) == i))),
               (1, lambda j: z3.Implies(rng(n, j), z3.And(rng(n, PINV(j)), PI(PINV(j)) == j))),
               (2, lambda i, j: z3.Implies(z3.And(rng(n, i, j), j != PI(i)), A(i, j) <= eps)),
               (1, lambda i: z3.Implies(rng(n, i), A(i, PI(i)) >= 1 - eps)),
               (2, lambda i, j: z3.Implies(rng(n, i, j), A(i, j) >= 0))]
        return sch, [E.ABS(E.ZERO) == 0, n >= 1]

    def invariant(E, n, mat, lst, done, eps):
        """Inv (about the abstraction, not about how entries are eliminated): overlaps of rows and columns still in play are intact, every entry of a
        finished row or column is small (cleared or never dominant), finished rows hold their partner's item"""
        return [(2, lambda i, j: z3.Implies(z3.And(rng(n, i, j), z3.Not(done(i)), z3.Not(done(PINV(j)))), mat(i, j) == E.M0(i, j))),
                (2, lambda i, j: z3.Implies(z3.And(rng(n, i, j), z3.Or(done(i), done(PINV(j)))), E.ABS(mat(i, j)) <= eps)),
                (1, lambda i: z3.Implies(z3.And(rng(n, i), done(i)), lst(i) == E.TARGET(PI(i))))]

    def prove_all(goals, facts, schemas, terms, what):
        from vf import looprule
        inst = looprule.instantiate(schemas, terms)
        t = 0.0
        for name, g in goals:
            r = smt.prove(g, facts + inst, tier=s.tier, name=name)
            t += r.time_s
            if r.status != core.PROVED:
                r.detail = "%s: premise `%s` of the loop rule is not valid | %s" % (what, name, r.detail)
                if r.status == core.REFUTED:
                    r.replay, r.witness_id = native_sort(es), "sort-loop:%s" % name.split("[")[0]
                return r, t
        return None, t

    def with_pre(eps=z3.RealVal("1/20")):
        E, pieces, n, env0, target = sort_setup(es)
        c = E.ctx()
        pre_s, pre_f = precondition(E, n, eps)
        tot, nprem = 0.0, 0
        # ---- premise 1: {pre} prefix {Inv(0)}
        out = pieces.run_prefix(env0)
        if out.kind != "fall":
            return core.refuted("looprule", "the code before the loop returns (%s) for square inputs" % out.kind, witness_id="sort-loop:prefix", replay=native_sort(es))
        (mname, mat0), (lname, lst0) = state_of(E, out.env, target)
        tgt, it = pieces.loop_header(out.env)
        if not isinstance(it, E.SymRange) or not isinstance(tgt, __import__("ast").Name):
            raise core.OutsideSubset("the loop does not run over range(<dimension>)")
        i0, j0 = z3.Int("i0"), z3.Int("j0")
        done0 = lambda i: z3.BoolVal(False)
        goals = [("Inv0[%d]" % k, f(*([i0, j0][:a]))) for k, (a, f) in enumerate(invariant(E, n, mat0.elem, lst0.fn, done0, eps))]
        goals += [("range is 0..n", z3.And(it.lo == 0, it.hi == n)), ("result list has length n", lst0.n.z == n), ("matrix is n x n", mat0.n.z == n)]
        goals += [("bound: " + d, b) for d, b in c.bounds]
        r, t = prove_all(goals, pre_f + c.facts + [rng(n, i0, j0)], pre_s + c.schemas, [i0, j0, PI(i0), PINV(j0)], "prefix")
        tot += t
        nprem += len(goals)
        if r:
            return r
        prefix_env = out.env
        # ---- premise 2: {Inv(k), 0 <= k < n} body {Inv(k+1)}
        E.CTX[0] = c = E.Ctx(E.SInt(n))
        k = z3.Int("k")
        MAT = z3.Function("MAT", I, I, E.Cx)
        LST = z3.Function("LST", I, E.Item)
        DONE = z3.Function("DONE", I, z3.BoolSort())
        u = z3.Int("u")                         # Counting.exists_not_done: |done| = k < n  =>  some row is not done
        env = dict(prefix_env)
        env[mname] = E.SymMat(E.SInt(n), lambda i, j: MAT(i, j), origin="loop state")
        env[lname] = E.SymList(E.SInt(n), lambda i: LST(i))
        frozen = {nm: v for nm, v in env.items() if nm not in (mname, lname)}
        tfn = target.fn
        outb = pieces.run_body(env, E.SInt(k))
        if outb.kind != "fall":
            return core.refuted("looprule", "the loop body leaves the loop (%s) although threshold is None" % outb.kind, witness_id="sort-loop:body", replay=native_sort(es))
        for nm, v in frozen.items():
            if outb.env.get(nm) is not v and nm != tgt.id:
                raise core.OutsideSubset("the loop body rebinds %s, which the invariant treats as constant" % nm)
        if target.fn is not tfn:
            return core.refuted("looprule", "the loop body writes into the list to be sorted", witness_id="sort-loop:frame", replay=native_sort(es))
        (_, mat1), (_, lst1) = state_of(E, outb.env, target)
        picks = [(c.terms[q], c.terms[q + 1]) for q in range(0, len(c.terms), 2)]
        if len(picks) != 1:
            raise core.OutsideSubset("the loop body takes %d arg-maxima per iteration; the ghost update of the invariant expects one" % len(picks))
        r_, c_ = picks[0]
        done1 = lambda i: z3.Or(DONE(i), i == r_)
        facts = pre_f + c.facts + [k >= 0, k < n, rng(n, u), z3.Not(DONE(u)), rng(n, i0, j0)]
        schemas = pre_s + c.schemas + invariant(E, n, lambda i, j: MAT(i, j), lambda i: LST(i), lambda i: DONE(i), eps)
        goals = [("Inv'[%d]" % q, f(*([i0, j0][:a]))) for q, (a, f) in enumerate(invariant(E, n, mat1.elem, lst1.fn, done1, eps))]
        goals += [("the chosen row was not done (so |done| grows by one: Counting.card_insert_done)", z3.Not(DONE(r_)))]
        goals += [("bound: " + d, b) for d, b in c.bounds]
        terms = [i0, j0, r_, c_, u, PI(u), PI(r_), PINV(c_), PINV(j0), PI(i0)]
        r, t = prove_all(goals, facts, schemas, terms, "body")
        tot += t
        nprem += len(goals)
        if r:
            return r
        # ---- premise 3: {Inv(n)} suffix {post}   (|done| = n  =>  every row is done: Counting.all_done_of_card)
        E.CTX[0] = c = E.Ctx(E.SInt(n))
        env = dict(prefix_env)
        env[mname] = E.SymMat(E.SInt(n), lambda i, j: MAT(i, j), origin="loop state")
        env[lname] = E.SymList(E.SInt(n), lambda i: LST(i))
        outs = pieces.run_suffix(env)
        if outs.kind != "return" or not isinstance(outs.value, E.SymList):
            return core.refuted("looprule", "after the loop the function does not return the result list (%s, %r)" % (outs.kind, outs.value), witness_id="sort-loop:suffix",
                                replay=native_sort(es))
        schemas = pre_s + invariant(E, n, lambda i, j: MAT(i, j), lambda i: LST(i), lambda i: DONE(i), eps) + [(1, lambda i: z3.Implies(rng(n, i), DONE(i)))]
        goals = [("post: result[i] = target_arr[pi(i)]", outs.value.fn(i0) == E.TARGET(PI(i0))), ("post: the result has n entries", outs.value.n.z == n)]
        r, t = prove_all(goals, pre_f + c.facts + [rng(n, i0)], schemas, [i0, PI(i0)], "suffix")
        tot += t
        nprem += len(goals)
        if r:
            return r
        s.notes["evec_sort_loop_rule"] = dict(pieces.dropped(), premises=nprem, products=E_products(prefix_env, E),
                                              invariant="entries of rows and columns still in play equal M; entries of finished rows / columns have modulus <= 5 %; finished rows hold target_arr[pi(i)]; |done| = k",
                                              precondition="a bijection pi with |M[i][pi(i)]| >= 0.95 and every other |M[i][j]| <= 0.05 (A-DOM: permuted, re-phased basis with row perturbations of norm <= 5 %)")
        return core.proved("z3", "loop rule on evec_sort for EVERY dimension n >= 1: %d premises (initialisation, preservation, exit) generated by executing the function's own "
                           "statements on a matrix of symbolic size; post: result[i] = target_arr[pi(i)] for the dominant-overlap bijection pi, hence a permutation of the input "
                           "with every item at the position of its matching base vector; skipped prefix statements: %s" % (nprem, [t_ for _, t_, _ in pieces.skipped]), time_s=tot)

    def E_products(env, E):
        return [v.origin for v in env.values() if isinstance(v, E.SymMat)]

    s.oblige("C20.evec_sort.loop_rule(all dimensions)", lambda: with_pre(), [SORT])
    s.canary("C20.canary.evec_sort_with_ties_allowed(eps=1/2)", lambda: with_pre(z3.RealVal("1/2")))

    def dimension_check(broken_spec=False):
        """the statements in front of the loop, executed on lists of vectors of ARBITRARY symbolic shape (a rows of lengths TL(k), b rows of lengths BL(k), n items):
        the input reaches the matrix construction  <=>  a = b = n and every row has n components  (the property's `rejects dimension mismatches`)"""
        from contracts import evec_env as E
        from vf import looprule
        n, a, b = z3.Int("n"), z3.Int("a"), z3.Int("b")
        TL, BL = z3.Function("TL", I, I), z3.Function("BL", I, I)
        k = z3.Int("k")
        square = z3.And(a == n, b == n, z3.ForAll([k], z3.Implies(z3.And(k >= 0, k < a), TL(k) == n)), z3.ForAll([k], z3.Implies(z3.And(k >= 0, k < b), BL(k) == n)))
        if broken_spec:       # canary: a specification that forgets the rows of base_evecs must be refuted by the same machinery
            square = z3.And(a == n, b == n, z3.ForAll([k], z3.Implies(z3.And(k >= 0, k < a), TL(k) == n)))
        dom = [n >= 0, a >= 0, b >= 0, z3.ForAll([k], TL(k) >= 0), z3.ForAll([k], BL(k) >= 0)]
        E.CTX[0] = E.Ctx(E.SInt(n))
        pieces = looprule.Pieces(es.evec_sort, 0, stubs=numpy_stub_globals(es.evec_sort, E.NumpyStub(), {"len": E.sym_len, "range": E.sym_range, "set": E.sym_set}))
        if set(pieces.args) != {"target_arr", "target_evecs", "base_evecs", "filter", "threshold"}:
            raise core.OutsideSubset("evec_sort's parameters are %s" % pieces.args)

        def thunk():
            env = {"target_arr": E.SymList(E.SInt(n), lambda q: E.TARGET(q)), "target_evecs": E.Ragged("target", E.SInt(a), TL),
                   "base_evecs": E.Ragged("base", E.SInt(b), BL), "filter": None, "threshold": None}
            try:
                out = pieces.run(pieces.prefix, env)
            except E.ReachedMatrix:
                return "accept"
            except RuntimeError as e:
                return "reject"
            raise core.OutsideSubset("the code in front of the loop neither raises nor builds the overlap matrix (%s)" % out.kind)

        paths = symnp.Paths(list(dom), max_paths=16).run(thunk)
        tot, seen = 0.0, set()
        for q, (pc, outcome) in enumerate(paths):
            goal = square if outcome == "accept" else z3.Not(square)
            r = smt.prove(goal, dom + list(pc), tier=s.tier, name="dimension_check[path %d: %s]" % (q, outcome))
            tot += r.time_s
            if r.status != core.PROVED:
                r.detail = "path %d of the code in front of the loop (%s) %s although the shapes %s | %s" % (
                    q, "; ".join(str(z3.simplify(c))[:120] for c in pc), "goes on to the matrix product" if outcome == "accept" else "raises",
                    "are not n x n" if outcome == "accept" else "are n x n", r.detail)
                if r.status == core.REFUTED:
                    r.replay, r.witness_id = native_dimension(es), "sort-dimension-check"
                return r
            seen.add(outcome)
        if seen != {"accept", "reject"}:
            return core.refuted("looprule", "the code in front of the loop only ever %ss (paths: %s)" % (sorted(seen), [o for _, o in paths]), witness_id="sort-dimension-check",
                                replay=native_dimension(es))
        return core.proved("z3", "the statements in front of evec_sort's loop executed on lists of vectors of arbitrary symbolic shape (a rows of lengths TL(k), b rows of lengths "
                           "BL(k), n items; comprehension by the element-wise map rule, `set` / `len` / `in` by their contracts): %d paths; the matrix construction is reached "
                           "<=> a = b = n and every row has n components, RuntimeError otherwise -- for EVERY n, a, b and row lengths (quantified goals, z3 MBQI)" % len(paths),
                           time_s=tot)

    s.oblige("C20.evec_sort.dimension_check(all shapes)", lambda: dimension_check(), [SORT])
    s.canary("C20.canary.dimension_check_spec_without_base_rows", lambda: dimension_check(True))

    def pieces_are_the_function():
        """engine self-check: prefix + iterated body + suffix, executed by CPython on concrete inputs with the real numpy, is the function"""
        from vf import looprule
        rnd = numpy.random.RandomState(7)
        bad = []
        for t in range(12):
            d = int(rnd.randint(1, 7))
            base = rnd.normal(size=(d, d)) + 1j * rnd.normal(size=(d, d))
            targ = rnd.normal(size=(d, d)) + 1j * rnd.normal(size=(d, d))
            items = list(range(d))
            try:          # the same explicit arguments the pieces get (what the DEFAULTS are is decided by the bounded run, which calls the function as a user does)
                want = es.evec_sort(list(items), [list(x) for x in targ], [list(x) for x in base], filter=None, threshold=None)
            except Exception as e:  # noqa: BLE001
                s.notes["looprule_selfcheck"] = "not comparable on this source: evec_sort raises %r on a random input" % (e,)
                return
            p = looprule.Pieces(es.evec_sort, 0)
            o = p.run(p.prefix, {"target_arr": list(items), "target_evecs": [list(x) for x in targ], "base_evecs": [list(x) for x in base], "filter": None, "threshold": None})
            env = o.env
            _, it = p.loop_header(env)
            for x in it:
                env = p.run_body(env, x).env
            got = p.run_suffix(env).value
            if got != want:
                bad.append((d, got, want))
        s.crosscheck("looprule pieces of evec_sort vs the function (CPython, real numpy)", 12, bad)
    pieces_are_the_function()

    def counting():
        from vf import lean
        return lean.check_file("lemmas/Counting.lean")
    s.oblige("C20.lemma.counting(lean)", counting, [SORT])


def native_sort(es):
    """a failing native input for the sort: a re-phased, permuted, 3 %-perturbed unitary basis"""
    rnd = numpy.random.RandomState(3)
    for t in range(60):
        d = int(rnd.randint(2, 12))
        cplx = t % 2 == 0
        g = rnd.normal(size=(d, d)) + (1j * rnd.normal(size=(d, d)) if cplx else 0)
        base = numpy.linalg.qr(g)[0].T
        perm = rnd.permutation(d)
        ph = numpy.exp(1j * rnd.uniform(0, 6.28, size=d)) if cplx else rnd.choice([-1.0, 1.0], size=d)
        noise = rnd.normal(size=(d, d))
        noise = noise / numpy.linalg.norm(noise, axis=1)[:, None]
        if t % 3 == 1:          # adversarial: the whole 5 % along one other base vector / against the matching one
            noise = 0.6 * base[(perm + 1) % d] - 0.8 * ph[:, None] * base[perm]
        target = ph[:, None] * base[perm] + (0.05 if t % 3 else 0.03) * noise
        items = ["item%d" % j for j in range(d)]
        want = [None] * d
        for j in range(d):
            want[perm[j]] = items[j]
        try:
            got = es.evec_sort(list(items), [list(r) for r in target], [list(r) for r in base])
        except Exception as e:
            return {"reproduced": True, "dimension": d, "complex": cplx, "raised": repr(e)[:200]}
        if got != want:
            return {"reproduced": True, "dimension": d, "complex": cplx, "permutation": perm.tolist(), "observed": got, "expected": want}
    return {"reproduced": False}


def native_dimension(es):
    """a failing native input for the dimension check: n items, a x (row lengths) target vectors, b x (row lengths) base vectors; accepted <=> everything is n"""
    for n in (1, 2, 3):
        for a in (n - 1, n, n + 1):
            for b in (n - 1, n, n + 1):
                for odd in [None] + [(w, r) for w in (0, 1) for r in range((a, b)[w])]:
                    for delta in (1, -1):
                        tl, bl = [n] * a, [n] * b
                        if odd is not None:
                            (tl, bl)[odd[0]][odd[1]] = n + delta
                        if min(tl + bl + [1]) < 1:
                            continue
                        square = a == n and b == n and all(x == n for x in tl + bl)
                        te, be = [[1.0 if c == r % x else 0.0 for c in range(x)] for r, x in enumerate(tl)], [[1.0 if c == r % x else 0.0 for c in range(x)] for r, x in enumerate(bl)]
                        try:
                            es.evec_sort(list(range(n)), te, be)
                            got = "accepted"
                        except RuntimeError:
                            got = "RuntimeError"
                        except Exception as e:
                            got = "another exception: %r" % (e,)
                        if (got == "accepted") != square or (not square and got != "RuntimeError"):
                            return {"reproduced": True, "items": n, "target_row_lengths": tl, "base_row_lengths": bl, "observed": got[:200],
                                    "expected": "accepted" if square else "RuntimeError (dimension mismatch)"}
    return {"reproduced": False}


def sqrt_links(goal):
    """Sqrt(x)^2 = x facts are added by instantiate_facts; nothing more needed"""
    return []


def native_d2e(d2e):
    rnd = numpy.random.RandomState(0)
    for scale in (1.0, 1e-6, 1e6):
        for mscale in (1.0, 1.66e-27, 1e3):
            N, M = 3, 4
            a = rnd.normal(size=(M, 3 * N)) * scale
            m = rnd.uniform(1, 50, size=N) * mscale
            a0 = a.copy()
            try:
                r = d2e.evec_disp2eig(a, list(m))
            except Exception as e:
                return {"reproduced": True, "raised": repr(e)}
            want = a0 * numpy.sqrt(numpy.repeat(m, 3))[None, :]
            want = want / numpy.sqrt((want ** 2).sum(axis=1))[:, None]
            if not numpy.array_equal(a, a0) or not numpy.allclose(r, want, rtol=1e-10, atol=1e-300):
                return {"reproduced": True, "amplitude_scale": scale, "mass_scale": mscale, "row_norms": numpy.sqrt((numpy.asarray(r) ** 2).sum(axis=1)).tolist()}
    return {"reproduced": False}


def bounded_d2e(s, d2e):
    rnd = numpy.random.RandomState(s.seed)
    n = 30 if s.tier == "quick" else 1500
    fails, evals = [], 0
    for t in range(n):
        N = int(rnd.randint(1, 21))
        dim = 3 * N
        cplx = rnd.rand() < 0.5
        g = rnd.normal(size=(dim, dim)) + (1j * rnd.normal(size=(dim, dim)) if cplx else 0)
        u, _ = numpy.linalg.qr(g)
        u = u.T                                                   # rows orthonormal
        mass = rnd.uniform(0.5, 250, size=N) * 10 ** rnd.uniform(-30, 3)
        lam = rnd.uniform(0.1, 10, size=dim) * 10 ** rnd.uniform(-8, 8) * rnd.choice([-1, 1], size=dim)
        a = lam[:, None] * u / numpy.sqrt(numpy.repeat(mass, 3))[None, :]
        evals += 1
        try:
            r = d2e.evec_disp2eig(a, list(mass))
        except Exception as e:
            fails.append({"witness_id": "d2e:%d" % t, "input": {"N": N, "complex": bool(cplx)}, "observed": "raises %r" % (e,), "expected": "orthonormal rows"})
            break
        gram = numpy.conj(r) @ r.T
        if not numpy.allclose(gram, numpy.eye(dim), atol=1e-8):
            fails.append({"witness_id": "d2e:%d" % t, "input": {"N": N, "complex": bool(cplx), "mass_scale": float(mass.max()), "amplitude_scale": float(numpy.abs(lam).max())},
                          "observed": "max |G - 1| = %.3g, row norms %.3g..%.3g" % (numpy.abs(gram - numpy.eye(dim)).max(), numpy.sqrt(numpy.abs(numpy.diag(gram))).min(),
                                                                                     numpy.sqrt(numpy.abs(numpy.diag(gram))).max()),
                          "expected": "unit-norm, mutually orthogonal mass-weighted eigenvectors"})
            break
    s.bounded_standin("C20.disp2eig.restores_orthonormality", "%d random cases: N = 1..20 atoms, real and complex orthonormal bases, masses 0.5-250 x 10^(-30..3), amplitudes 10^(-8..8), seed %d" % (n, s.seed),
                      evals, evals, fails, [D2E])


def bounded_sort(s):
    es = importlib.import_module("cij.misc.evec_sort")
    rnd = numpy.random.RandomState(s.seed + 1)
    n = 59 if s.tier == "quick" else 2006
    fails, evals = [], 0
    perms_small = [p for d in (2, 3, 4) for p in itertools.permutations(range(d))]
    for t in range(n + len(perms_small)):
        if t < len(perms_small):
            perm = numpy.array(perms_small[t])
            dim = len(perm)
        else:
            dim = 2 + (t - len(perms_small)) % 59          # every dimension 2..60 of the property's quantifier occurs
            perm = rnd.permutation(dim)
        cplx = rnd.rand() < 0.6
        g = rnd.normal(size=(dim, dim)) + (1j * rnd.normal(size=(dim, dim)) if cplx else 0)
        base, _ = numpy.linalg.qr(g)
        base = base.T
        phases = numpy.exp(1j * rnd.uniform(0, 2 * numpy.pi, size=dim)) if cplx else rnd.choice([-1.0, 1.0], size=dim)
        pert = rnd.uniform(0, 0.05)
        noise = rnd.normal(size=(dim, dim)) + (1j * rnd.normal(size=(dim, dim)) if cplx else 0)
        noise = noise / numpy.linalg.norm(noise, axis=1)[:, None]
        target = (phases[:, None] * base[perm]) + pert * noise          # target item j matches base vector perm[j]
        items = ["item%d" % j for j in range(dim)]
        evals += 1
        try:
            out = es.evec_sort(list(items), [list(r) for r in target], [list(r) for r in base])
        except Exception as e:
            fails.append({"witness_id": "sort:%d" % t, "input": {"dim": dim, "complex": bool(cplx)}, "observed": "raises %r" % (e,), "expected": "sorted items"})
            break
        # the same call with numpy arrays handed over (the caller keeps them): inputs must come back unchanged, and a second sort against the
        # same base array (another permutation of it) must be right as well
        base_a, target_a = numpy.array(base), numpy.array(target)
        base_0, target_0 = base_a.copy(), target_a.copy()
        perm2 = rnd.permutation(dim)
        target2 = numpy.array(phases[:, None] * base[perm2] + pert * noise)
        try:
            out_a = es.evec_sort(list(items), target_a, base_a)
            out_b = es.evec_sort(list(items), target2, base_a)
        except Exception as e:
            fails.append({"witness_id": "sort-ndarray:%d" % t, "input": {"dim": dim, "complex": bool(cplx), "inputs": "numpy arrays"}, "observed": "raises %r" % (e,), "expected": "sorted items"})
            break
        evals += 2
        if not (numpy.array_equal(base_a, base_0) and numpy.array_equal(target_a, target_0)):
            fails.append({"witness_id": "sort-frame:%d" % t, "input": {"dim": dim, "complex": bool(cplx), "inputs": "numpy arrays"},
                          "observed": "evec_sort writes into the arrays it was given", "expected": "inputs unchanged"})
            break
        want2 = [None] * dim
        for j in range(dim):
            want2[perm2[j]] = items[j]
        if out_a != out or out_b != want2:
            fails.append({"witness_id": "sort-reuse:%d" % t, "input": {"dim": dim, "complex": bool(cplx), "inputs": "numpy arrays, base array reused for a second sort"},
                          "observed": "first call %s the list-input result; second call has %d misplaced items" % ("equals" if out_a == out else "differs from",
                                                                                                                  sum(1 for a_, b_ in zip(out_b, want2) if a_ != b_)),
                          "expected": "item j at the index of its dominant base vector in both calls"})
            break
        if sorted(out, key=str) != sorted(items, key=str):
            fails.append({"witness_id": "sort-perm:%d" % t, "input": {"dim": dim, "complex": bool(cplx)}, "observed": "result is not a permutation of the input", "expected": "permutation"})
            break
        want = [None] * dim
        for j in range(dim):
            want[perm[j]] = items[j]
        if out != want:
            wrong = sum(1 for a_, b_ in zip(out, want) if a_ != b_)
            fails.append({"witness_id": "sort-pos:%d" % t, "input": {"dim": dim, "complex": bool(cplx), "perturbation": float(pert), "permutation": perm.tolist()[:12]},
                          "observed": "%d of %d items are not at the position of their matching base vector" % (wrong, dim), "expected": "item j at the index of its dominant base vector"})
            break
    if not fails:
        lists = [(["a", "b"], [[1, 0], [0, 1]], [[1, 0, 0], [0, 1, 0]]), (["a", "b", "c"], [[1, 0], [0, 1]], [[1, 0], [0, 1]]), (["a", "b"], [[1, 0]], [[1, 0], [0, 1]]),
                 # BOTH sets truncated / padded the same way: n vectors of k != n components are not n x n either
                 (["a", "b"], [[1, 0, 0], [0, 1, 0]], [[1, 0, 0], [0, 1, 0]]), (["a", "b", "c"], [[1, 0], [0, 1], [0, 0]], [[1, 0], [0, 1], [0, 0]]),
                 (["a", "b"], [[1], [1]], [[1], [1]]), (["a", "b"], [[1, 0], [0, 1], [1, 1]], [[1, 0], [0, 1], [1, 1]])]
        for bad in lists + [(b[0], numpy.array(b[1], dtype=float), numpy.array(b[2], dtype=float)) for b in lists]:
            evals += 1
            try:
                es.evec_sort(*bad)
                fails.append({"witness_id": "sort-mismatch", "input": {"shapes": [len(bad[0]), len(bad[1]), len(bad[2])]}, "observed": "accepted (%s inputs, shapes %s / %s)" % (type(bad[1]).__name__, numpy.shape(bad[1]), numpy.shape(bad[2])), "expected": "RuntimeError"})
                break
            except Exception:  # noqa: BLE001 - the property demands rejection; which exception type signals it is the code's choice (numpy's own broadcast error for arrays)
                pass
    s.bounded_standin("C20.evec_sort.recovers_permutation", "all permutations for dimensions 2-4 + %d random cases covering EVERY dimension 2-60 (real and complex unitary bases, arbitrary phases, "
                      "perturbation <= 5 %%), dimension mismatches; seed %d" % (n, s.seed), evals, evals, fails, ["evec_sort.evec_sort"])


# ----------------------------------------------------------------------------------------------------------------------
# evec_load: the two regular expressions of the reader over ALL lines of matdyn's layout (vf/regauto.py), the fixed-column slices of the vector lines
Q_LINE_SPEC = r"q = +(-?[0-9]+\.[0-9]{4}) +(-?[0-9]+\.[0-9]{4}) +(-?[0-9]+\.[0-9]{4})"                                        # ' q = ' 3F12.4, |q| < 1e6, stripped
MODE_LINE_SPEC = r"freq \( *([0-9]+)\) = +(-?[0-9]+\.[0-9]{6}) \[THz\] = +(-?[0-9]+\.[0-9]{6}) \[cm-1\]"                      # 'freq (' I5 ') =' F15.6 ' [THz] =' F15.6 ' [cm-1]'


def load_lemmas(s):
    import re as _re
    from props import C17
    el = importlib.import_module("cij.misc.evec_load")
    s.assume("A-MATDYN: matdyn.x writes ' q = ' 3F12.4, '     freq (' I5 ') =' F15.6 ' [THz] =' F15.6 ' [cm-1]' and ' (' 3(F10.6, 1X, F10.6, 3X) ')' lines (the layout of "
             "tests/data/pwscf.eig and of the rendered files of the bounded run)", "A-RE: CPython's re returns the highest-priority successful path (cross-checked every run)")
    s.trust("vf/regauto.py (regex -> ordered tagged automata, subset construction)")
    for label, rx, spec in (("q-point line", getattr(el, "Q_COORDS_REGEX", None), Q_LINE_SPEC), ("mode line", getattr(el, "MODE_INDEX_REGEX", None), MODE_LINE_SPEC)):
        def ob(rx=rx, spec=spec, label=label):
            if rx is None:
                raise core.OutsideSubset("the reader no longer has a module-level pattern for the %s" % label)
            pattern = rx.pattern if hasattr(rx, "pattern") else rx
            if getattr(rx, "flags", _re.UNICODE) not in (_re.UNICODE, 0):
                raise core.OutsideSubset("regex flags on the %s pattern" % label)
            r = C17.ob_regex_lemma(pattern, spec, LAYOUT_DOMAIN, "evec_load, %s" % label, replay_fn=C17.native_search(pattern, spec))
            REGEX_LEMMAS[label] = r.status
            return r
        s.oblige("C20.evec_load.regex[%s]" % label, ob, ["evec_load._read_q_points" if label.startswith("q") else "evec_load._read_modes"],
                 fallback=lambda: {"reproduced": False, "note": "bounded run C20.evec_load.matdyn_layout decides"})

    def slices():
        """[F] the six constant slices of _read_vecs against the stripped vector line '(' 3(F10.6, 1X, F10.6, 3X) ')': for every component with |x| < 10 (unit-norm
        eigenvectors) the first column of its F10.6 field is blank, so slice [a:b] = the field without that blank plus the blank that follows: float() of it is the value"""
        import ast, inspect, textwrap
        tree = ast.parse(textwrap.dedent(inspect.getsource(el._read_vecs)))
        sl = []
        for n in ast.walk(tree):
            if isinstance(n, ast.Subscript) and isinstance(n.slice, ast.Slice) and isinstance(n.slice.lower, ast.Constant) and isinstance(n.slice.upper, ast.Constant):
                sl.append((n.slice.lower.value, n.slice.upper.value))
        # stripped line: '(' at column 0, then per component: F10.6 (10 columns), 1 blank, F10.6, 3 blanks
        fields, col = [], 1
        for comp in range(3):
            fields.append((col, col + 10)); col += 11
            fields.append((col, col + 10)); col += 13
        if len(sl) != 6:
            raise core.OutsideSubset("_read_vecs has %d constant slices" % len(sl))
        for (a, b), (fa, fb) in zip(sorted(sl), fields):
            # the slice must contain columns fa+1 .. fb-1 (a number of at most 9 characters right-justified in 10) and nothing of a neighbouring number
            if not (fa <= a <= fa + 1 and fb <= b <= fb + 1):
                return core.refuted("finite", "slice [%d:%d] does not cover the F10.6 field at columns %d..%d of the stripped vector line" % (a, b, fa, fb - 1),
                                    witness_id="slice:%d" % a, replay={"reproduced": True, "slices": sorted(sl), "fields": fields})
        return core.proved("finite", "the six slices %s read the six F10.6 fields %s of the stripped vector line (values |x| < 10)" % (sorted(sl), fields))
    s.oblige("C20.evec_load.vector_slices_cover_fields", slices, ["evec_load._read_vecs"], kind="finite",
             fallback=lambda: {"reproduced": False, "note": "bounded run C20.evec_load.matdyn_layout decides"})


# every (stripped) line of the layout: the domain of the regex lemmas' third clause -- on a line of the layout that is not of the pattern's own kind the search returns None
VEC_LINE_SPEC = r"\((?: *-?[0-9]\.[0-9]{6}){6} *\)"
def _noncapturing(spec):
    """the same language with every capturing group made non-capturing (escaped parentheses untouched)"""
    out, k = "", 0
    while k < len(spec):
        if spec[k] == "\\":
            out += spec[k:k + 2]
            k += 2
        elif spec[k] == "(" and spec[k + 1:k + 2] != "?":
            out += "(?:"
            k += 1
        else:
            out += spec[k]
            k += 1
    return out


LAYOUT_DOMAIN = "(?:%s|%s|%s|%s|%s|)" % (_noncapturing(Q_LINE_SPEC), _noncapturing(MODE_LINE_SPEC), VEC_LINE_SPEC, r"\*{74}", r"diagonalizing the dynamical matrix \.\.\.")
REGEX_LEMMAS = {}


class _Tok:
    """an abstract printed token of the file: ('q', iq, c) | ('mode_id' | 'thz' | 'cm1', iq, k) | ('vec', iq, k, atom, field 0..5)"""

    def __init__(self, what):
        self.what = what


class _Num:
    """float()/int() of a token, and the complex combinations the reader forms of them: value = re + i im with re, im token names (or None)"""

    def __init__(self, re_=None, im=None):
        self.re, self.im = re_, im

    def __mul__(self, o):
        if o == 1j and self.im is None:
            return _Num(None, self.re)
        if o == 1 or o == 1.0:
            return self
        raise core.OutsideSubset("arithmetic on a parsed number that the structure contract does not model (* %r)" % (o,))
    __rmul__ = __mul__

    def __add__(self, o):
        if isinstance(o, _Num) and not (self.re is not None and o.re is not None) and not (self.im is not None and o.im is not None):
            return _Num(self.re if self.re is not None else o.re, self.im if self.im is not None else o.im)
        if o == 0:
            return self
        raise core.OutsideSubset("arithmetic on a parsed number that the structure contract does not model (+ %r)" % (o,))
    __radd__ = __add__

    def key(self):
        return (self.re, self.im)

    def _value_dependent(self, *a):
        raise core.OutsideSubset("the reader branches on / compares the VALUE of a parsed number: the structure contract keeps contents abstract")
    __bool__ = __eq__ = __ne__ = __lt__ = __le__ = __gt__ = __ge__ = __abs__ = __neg__ = _value_dependent
    __hash__ = object.__hash__


def _absnum(x, *a):
    if isinstance(x, _Tok):
        return _Num(x.what)
    if isinstance(x, _Num):
        return x
    if isinstance(x, _Line):
        raise core.OutsideSubset("a whole line is converted to a number")
    return float(x, *a)


def _abscomplex(x=0, y=0):
    if isinstance(x, (_Num, _Tok)) or isinstance(y, (_Num, _Tok)):
        x = _absnum(x) if isinstance(x, (_Num, _Tok)) else x
        y = _absnum(y) if isinstance(y, (_Num, _Tok)) else y
        return (x if isinstance(x, _Num) else _Num()) + ((y * 1j) if isinstance(y, _Num) else _Num()) if (isinstance(y, _Num) or y == 0) else x
    return complex(x, y)


class _Line:
    """an abstract line of the layout: its kind and position in the file; contents are tokens"""
    FIELDS = []          # (first column, end column) of the six F10.6 fields in the STRIPPED vector line
    col = 1
    for _c in range(3):
        FIELDS.append((col, col + 10)); col += 11
        FIELDS.append((col, col + 10)); col += 13

    def __init__(self, kind, ids, stripped=False):
        self.kind, self.ids, self.stripped = kind, ids, stripped

    def strip(self, *a):
        if a and a[0] is not None:
            raise core.OutsideSubset("strip(%r)" % (a,))
        return _Line(self.kind, self.ids, True)
    rstrip = strip

    def __getitem__(self, sl):
        if self.kind != "vec":
            raise _Misread("a fixed-column field is cut out of a %s line (q-point %d)" % (self.kind, self.ids[0]))
        if not isinstance(sl, slice) or sl.step not in (None, 1) or sl.start is None or sl.stop is None:
            raise core.OutsideSubset("vector line indexed by %r" % (sl,))
        off = 0 if self.stripped else 1          # the raw line carries one leading blank (1X)
        a, b = sl.start - off, sl.stop - off
        for f, (fa, fb) in enumerate(self.FIELDS):
            if fa <= a <= fa + 1 and fb <= b <= fb + 1:          # the rule of C20.evec_load.vector_slices_cover_fields
                return _Tok(("vec",) + tuple(self.ids) + (f,))
        raise _Misread("slice [%s:%s] of a vector line covers none of the six F10.6 fields" % (sl.start, sl.stop))

    def split(self, *a):
        raise core.OutsideSubset("the reader splits lines at white space (the structure contract models the fixed-column reader)")


class _Misread(Exception):
    pass


class _Match:
    def __init__(self, toks):
        self.toks = tuple(toks)

    def groups(self):
        return self.toks

    def group(self, *idx):
        if not idx:
            raise core.OutsideSubset("group() of a whole match")
        out = tuple(self.toks[i - 1] for i in idx)
        return out[0] if len(out) == 1 else out

    def __getitem__(self, i):
        return self.group(i)


class _Rx:
    """contract stub of a compiled pattern, justified by the three clauses of C20.evec_load.regex[...]: on a line of its own kind the match starts at 0 and captures the
    printed tokens; on every other line of the layout search returns None"""

    def __init__(self, kind, label, pattern):
        self.kind, self.label, self.pattern = kind, label, pattern

    def search(self, line, *a):
        if not isinstance(line, _Line):
            raise core.OutsideSubset("pattern applied to %r" % type(line).__name__)
        if REGEX_LEMMAS.get(self.label) != core.PROVED:
            raise core.OutsideSubset("premise not available: C20.evec_load.regex[%s] is not proved on this source" % self.label)
        if line.kind != self.kind:
            return None
        iq = line.ids[0]
        if self.kind == "q":
            return _Match([_Tok(("q", iq, c)) for c in range(3)])
        return _Match([_Tok((w, iq, line.ids[1])) for w in ("mode_id", "thz", "cm1")])

    def match(self, line, *a):
        # by the lemma the match starts at position 0 of the STRIPPED line; on a raw line `match` fails on the leading blanks, which the stub does not decide
        if isinstance(line, _Line) and not line.stripped:
            raise core.OutsideSubset("pattern.match on an unstripped line")
        return self.search(line, *a)

    def fullmatch(self, line, *a):
        raise core.OutsideSubset("fullmatch")


def abstract_layout(nq, nat):
    out = []
    for iq in range(nq):
        out += [_Line("diag", (iq,)), _Line("blank", (iq,)), _Line("q", (iq,)), _Line("stars", (iq,))]
        for k in range(3 * nat):
            out.append(_Line("mode", (iq, k)))
            out += [_Line("vec", (iq, k, a)) for a in range(nat)]
        out.append(_Line("stars", (iq,)))
    return out


class _AbsFile:
    def __init__(self, lines):
        self.it = iter(lines)

    def __enter__(self):
        return self

    def __exit__(self, *a):
        return False

    def __iter__(self):
        return self

    def __next__(self):
        return next(self.it)

    def readline(self):
        return next(self.it, "")

    def readlines(self):
        return list(self.it)

    def close(self):
        pass

    def read(self, *a):
        raise core.OutsideSubset("the reader takes the file as one string (the structure contract models the line-by-line reader)")


def load_structure(s):
    """[F x symbolic] the reader's LINE STRUCTURE for every layout of the quantifier (1-6 q-points x 1-20 atoms, all 120), contents abstract: the real evec_load runs on a
    stream of abstract lines (kind + position); its two patterns are contract stubs justified by the regex lemmas, float/int of a token is that token's value (A-FLOAT),
    a slice of a vector line is the field it covers.  Post: q-point iq's coordinates are the three tokens of ITS q line, mode k carries the index / THz / cm-1 tokens of
    ITS mode line and, in order, (re, im) of the three components of every atom from ITS vector lines."""
    el = importlib.import_module("cij.misc.evec_load")
    from contracts.nonshear_env import patched

    def ob():
        rxq, rxm = getattr(el, "Q_COORDS_REGEX", None), getattr(el, "MODE_INDEX_REGEX", None)
        if rxq is None or rxm is None:
            raise core.OutsideSubset("the reader no longer has the two module-level patterns")
        n = 0
        for nq in range(1, 7):
            for nat in range(1, 21):
                npm = 3 * nat
                stubs = dict(Q_COORDS_REGEX=_Rx("q", "q-point line", rxq), MODE_INDEX_REGEX=_Rx("mode", "mode line", rxm), open=lambda *a, **k: _AbsFile(abstract_layout(nq, nat)),
                             float=_absnum, int=_absnum, complex=_abscomplex)
                msg = None
                try:
                    with patched(el, **stubs):
                        got = el.evec_load("abstract.eig", nq, npm)
                    got = list(got)
                    if len(got) != nq:
                        msg = "%d q-points returned" % len(got)
                    for iq in range(nq):
                        if msg:
                            break
                        qc, ms = got[iq]
                        if [getattr(x, "key", lambda: None)() for x in qc] != [(("q", iq, c), None) for c in range(3)]:
                            msg = "coordinates of q-point %d are not the three numbers of its own q line" % iq
                            break
                        ms = list(ms)
                        if len(ms) != npm:
                            msg = "q-point %d has %d modes" % (iq, len(ms))
                            break
                        for k in range(npm):
                            head, vec = ms[k]
                            if [getattr(x, "key", lambda: None)() for x in head] != [((w, iq, k), None) for w in ("mode_id", "thz", "cm1")]:
                                msg = "q-point %d mode %d: index / THz / cm-1 are not the numbers of its own mode line" % (iq, k + 1)
                                break
                            want = [(("vec", iq, k, a, 2 * c), ("vec", iq, k, a, 2 * c + 1)) for a in range(nat) for c in range(3)]
                            if [getattr(x, "key", lambda: None)() for x in vec] != want:
                                msg = "q-point %d mode %d: the components are not (re, im) of the six fields of its own %d vector lines, in order" % (iq, k + 1, nat)
                                break
                        if msg:
                            break
                except _Misread as e:
                    msg = str(e)
                except StopIteration:
                    msg = "the reader runs past the end of the file"
                except (AttributeError, TypeError) as e:
                    # e.g. None.groups(): a pattern applied to a line of another kind
                    if "NoneType" in str(e):
                        msg = "a pattern is applied to a line of another kind (%s)" % e
                    else:
                        raise core.OutsideSubset("the code used an abstract line / number in a way the structure contract does not model (%s: %s)" % (type(e).__name__, e))
                n += 1
                if msg:
                    rep = native_layout(el, nq, nat)
                    r = core.refuted("finite", "layout of %d q-point(s) x %d atom(s) (%d modes): %s" % (nq, nat, npm, msg), witness_id="structure:%d:%d" % (nq, nat))
                    r.replay = rep
                    return r
        return core.proved("finite", "all %d layouts of the quantifier (1-6 q-points x 3-60 modes), contents abstract: every returned number is the token of its own line and field" % n)
    s.oblige("C20.evec_load.line_structure(all 120 layouts, abstract contents)", ob, ["evec_load.evec_load", "evec_load._read_q_points", "evec_load._read_modes", "evec_load._read_vecs"],
             kind="finite", fallback=lambda: {"reproduced": False, "note": "bounded run C20.evec_load.matdyn_layout decides"})


def native_layout(el, nq, nat):
    """replay of a structure refutation on the real reader: a rendered file of that layout with random contents"""
    rnd = numpy.random.RandomState(nq * 100 + nat)
    npm = 3 * nat
    qs = numpy.round(rnd.uniform(-1, 1, size=(nq, 3)), 4)
    modes = [[(round(float(rnd.uniform(-2, 60)), 6), round(float(rnd.uniform(-60, 2000)), 6), numpy.round(rnd.uniform(-1, 1, size=npm), 6) + 1j * numpy.round(rnd.uniform(-1, 1, size=npm), 6))
              for _ in range(npm)] for _ in range(nq)]
    tmp = tempfile.mkdtemp(prefix="c20s_")
    try:
        p = os.path.join(tmp, "f.eig")
        with open(p, "w") as fp:
            fp.write(render_eig(qs, modes))
        try:
            got = el.evec_load(p, nq, npm)
            ok = len(got) == nq and all(numpy.allclose(got[q][0], qs[q], atol=1e-9) and len(got[q][1]) == npm and all(
                got[q][1][k][0][0] == k + 1 and abs(got[q][1][k][0][1] - modes[q][k][0]) < 1e-9 and abs(got[q][1][k][0][2] - modes[q][k][1]) < 1e-9 and
                len(got[q][1][k][1]) == npm and numpy.allclose(numpy.array(got[q][1][k][1]), modes[q][k][2], atol=1e-9) for k in range(npm)) for q in range(nq))
            return {"reproduced": not ok, "input": {"nq": nq, "modes": npm, "file": "rendered matdyn layout, RandomState(%d)" % (nq * 100 + nat)},
                    "observed": "parsed values %s the printed ones" % ("equal" if ok else "differ from")}
        except Exception as e:  # noqa: BLE001
            return {"reproduced": True, "input": {"nq": nq, "modes": npm}, "observed": "raises %r" % (e,)}
    finally:
        shutil.rmtree(tmp, ignore_errors=True)


def render_eig(qs, modes):
    lines = []
    for q, ms in zip(qs, modes):
        lines += ["     diagonalizing the dynamical matrix ...", "", " q = %12.4f%12.4f%12.4f" % tuple(q), " " + "*" * 74]
        for k, (thz, cm1, vec) in enumerate(ms):
            lines.append("     freq (%5d) = %14.6f [THz] = %14.6f [cm-1]" % (k + 1, thz, cm1))
            for a in range(len(vec) // 3):
                c = vec[3 * a:3 * a + 3]
                # matdyn's layout (1x,'(',3(f10.6,1x,f10.6,3x),')'), as in tests/data/pwscf.eig: the first F10.6 field starts right after the parenthesis
                lines.append(" (%10.6f %10.6f   %10.6f %10.6f   %10.6f %10.6f   )" % (c[0].real, c[0].imag, c[1].real, c[1].imag, c[2].real, c[2].imag))
        lines.append(" " + "*" * 74)
    return "\n".join(lines) + "\n"


def bounded_load(s):
    el = importlib.import_module("cij.misc.evec_load")
    # the renderer reproduces the shipped matdyn file line for line (engine self-check of the layout the run relies on)
    try:
        ref = [ln for ln in open(os.path.join(core.REPO, "tests/data/pwscf.eig")).read().split("\n")][:8]
        mine = render_eig([(0.0, 0.0, 0.0)], [[(-0.018788, -0.626714, numpy.array([-0.211208, -0.215596, 0.041957, -0.211208, -0.215596, 0.041957]) + 0j)]]).split("\n")
        want = [ref[2], ref[3], ref[4], ref[5].replace("-0.000000", " 0.000000")]
        if mine[2:6] != want:
            s.crosscheck("render_eig vs tests/data/pwscf.eig", 4, [(mine[2:6], want)])
        else:
            s.crosscheck("render_eig reproduces the q, separator, freq and vector lines of tests/data/pwscf.eig", 4, [])
    except OSError:
        pass
    rnd = numpy.random.RandomState(s.seed + 2)
    # the layout counts of the property's quantifier (1-6 q-points, 3-60 modes) are a finite space: all 120 pairs on every run (values random)
    pairs = [(nq, nat) for nq in range(1, 7) for nat in range(1, 21)] * (1 if s.tier == "quick" else 5)
    n = len(pairs)
    fails, evals = [], 0
    tmp = tempfile.mkdtemp(prefix="c20_")
    try:
        for t, (nq, nat) in enumerate(pairs):
            npm = 3 * nat
            qs = numpy.round(rnd.uniform(-1, 1, size=(nq, 3)), 4)
            if t % 3 == 0:
                # the zone centre, and a point that only PRINTS as zero: degenerate modes come out of the diagonaliser as complex combinations there as anywhere else
                qs[rnd.randint(nq)] = [(0.0, 0.0, 0.0), (-0.0, 0.0, -0.0), (0.00004, -0.00003, 0.0)][(t // 3) % 3]
            modes = []
            for q in range(nq):
                ms = []
                for k in range(npm):
                    thz = round(float(rnd.uniform(-2, 60)), 6)
                    vec = numpy.round(rnd.uniform(-1, 1, size=npm), 6) + 1j * numpy.round(rnd.uniform(-1, 1, size=npm), 6)
                    if k % 3 == 0:
                        # the ends of what an F10.6 field can print: the smallest non-zero magnitudes (weakly coupled components) and the largest
                        edge = [1e-6, -1e-6, 2e-6, -0.000009, 9.999999, -9.999999, 0.0]
                        vec[k % npm] = edge[(k // 3 + q) % len(edge)] + 1j * edge[(k // 3 + q + 3) % len(edge)]
                    ms.append((thz, round(thz * 33.35641, 6), vec))
                modes.append(ms)
            p = os.path.join(tmp, "f.eig")
            with open(p, "w") as fp:
                fp.write(render_eig(qs, modes))
            evals += 1
            try:
                if t % 4 == 0:
                    # history: the same path held other values a moment ago (same layout) and was loaded then: this load must return what the file holds NOW
                    with open(p, "w") as fp:
                        fp.write(render_eig(qs[::-1] * 0.5, [[(thz + 1.0, cm1 + 33.35641, vec * 0.5) for (thz, cm1, vec) in ms] for ms in modes]))
                    el.evec_load(p, nq, npm)
                    with open(p, "w") as fp:
                        fp.write(render_eig(qs, modes))
                got = el.evec_load(p, nq, npm)
            except Exception as e:
                fails.append({"witness_id": "load:%d" % t, "input": {"nq": nq, "modes": npm}, "observed": "raises %r" % (e,), "expected": "parsed file"})
                break
            msg = None
            if len(got) != nq:
                msg = "%d q-points returned" % len(got)
            for q in range(nq):
                if msg:
                    break
                qc, ms = got[q]
                if not numpy.allclose(qc, numpy.round(qs[q], 4), atol=1e-9) or len(ms) != npm:
                    msg = "q-point %d: coordinates %s / %d modes" % (q, qc, len(ms))
                    break
                for k in range(npm):
                    (mid, thz, cm1), vec = ms[k]
                    if mid != k + 1 or abs(thz - modes[q][k][0]) > 1e-9 or abs(cm1 - modes[q][k][1]) > 1e-9 or len(vec) != npm or \
                            not numpy.allclose(numpy.array(vec), modes[q][k][2], atol=1e-9):
                        msg = "q-point %d mode %d: index/frequencies/components differ from the printed values" % (q, k + 1)
                        break
            if msg:
                fails.append({"witness_id": "load:%d" % t, "input": {"nq": nq, "modes": npm}, "observed": msg, "expected": "printed q-coordinates, mode index, THz, cm-1, complex components"})
                break
    finally:
        shutil.rmtree(tmp, ignore_errors=True)
    s.bounded_standin("C20.evec_load.matdyn_layout", "%d rendered files in matdyn layout: EVERY pair of 1-6 q-points x 3-60 modes, negative and positive values at the printed precision, seed %d" % (n, s.seed),
                      evals, evals, fails, ["evec_load.evec_load", "evec_load._read_q_points", "evec_load._read_modes", "evec_load._read_vecs"])


MANIFEST = {
    "engine": "symnp", "category": "other",
    "technique": "contract-based deductive verification of evec_disp2eig (real function on object arrays of symbolic reals, z3 NRA, lemmas for unit "
                 "norm and basis restoration, frame) and of evec_sort (Hoare loop rule: the function's own prefix / loop body / suffix executed on a matrix of "
                 "symbolic dimension, invariant premises by z3, counting lemmas by Lean) and of evec_load's regular expressions (tagged-automata inclusion over all lines of the "
                 "file layout); bounded run-time contracts for evec_sort and evec_load",
    "text": "evec_disp2eig is executed by real numpy on symbolic displacement matrices and masses (sizes (N,M) in {(1,1),(1,3),(2,2),(2,6)}, values "
            "unbounded): every entry is proved to be a_ij sqrt(m_j)/sqrt(sum_j a_ij^2 m_j) on every value-dependent path, the input is not written, "
            "width != 3N raises; lemmas over that contract: rows have unit norm, and displacement vectors lambda_i u_i/sqrt(m) of an orthonormal basis "
            "come back as +-u_i. Bounded: orthonormality restored for random real/complex bases over 33 orders of magnitude of masses and 16 of "
            "amplitudes. evec_sort: the statements before, inside and after the greedy loop are cut out of the current source and executed unchanged on an "
            "overlap matrix of symbolic dimension n (entries in an abstract normed field, so real and complex); initialisation, preservation and exit "
            "premises of the invariant are discharged by z3 for every n, the ghost counter by three Lean lemmas; post: result[i] = target_arr[pi(i)] "
            "for the dominant-overlap bijection pi. Bounded as well: all permutations for d <= 4, random d <= 60, phases, 5 % perturbation, dimension "
            "mismatches rejected. evec_load: the reader's two regular expressions are proved (tagged-automata inclusion over ALL strings) to match at position 0 and capture "
            "exactly the printed tokens of every q-point line and every mode line of matdyn's layout, and to match nowhere in any other line of the layout; the real reader run on abstract line streams of all 120 layouts returns, for every q-point and mode, the tokens of its own lines and fields in order; the six constant slices of the vector lines are checked against the "
            "F10.6 columns of the stripped line; bounded: every (q-points, modes) layout of the quantifier rendered (the renderer reproduces the shipped file line for line) "
            "and read back, also right after the same path held other values.",
    "note": "For evec_sort the step from 'permuted, re-phased, 5 %-perturbed unitary basis' to the dominance precondition is a stated lemma (A-DOM), the "
            "dimension check in front of the loop is discharged for lists of vectors of arbitrary symbolic shape (the function's own statements executed on ragged symbolic lists; "
            "comprehension by the element-wise map rule, set / len / in by contract stubs; quantified goals by z3 MBQI), argmax / unravel_index / matmul are contract stubs. The loader's line STRUCTURE (which line "
            "follows which) is decided for the complete layout space of the quantifier (120 layouts, abstract contents: the real reader on a stream of abstract lines, its two patterns "
            "replaced by stubs justified by the three-clause regex lemmas incl. 'no match on any other line of the layout'); float() of the printed tokens is bounded only (120 / 600 files; 59+33 / 2006+33 sort cases, 30 / 1500 conversion cases); matdyn's layout is an "
            "assumption (A-MATDYN).",
}
