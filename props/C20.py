"""C20 -- eigenvector tools: sorting recovers the permutation; conversion restores a basis."""
import importlib, itertools, os, shutil, tempfile, types
import numpy
import z3
from vf import core, smt, symnp
from vf.symnp import Sc

LEVEL = "other"
EXPLANATION = ("evec_disp2eig: the real function run by real numpy on object arrays of symbolic reals (sizes enumerated, values unbounded; z3 "
               "NRA with Sqrt axioms): formula, unit norm, basis restoration, frame, rejection; evec_sort and evec_load: bounded run-time "
               "contracts (random unitary bases with permutation/phases/perturbation; rendered matdyn files)")
D2E = "evec_disp2eig.evec_disp2eig"


def run(s):
    d2e = importlib.import_module("cij.misc.evec_disp2eig")
    tier = s.tier
    s.trust("z3 5.1 (QF_NRA)", "numpy object-array arithmetic (the real numpy executes the function)")
    s.assume("A-FP", "Sqrt axioms: x >= 0 => Sqrt(x) >= 0 and Sqrt(x)^2 = x", "real displacement vectors in the deductive part (complex ones in the bounded part)")
    s.undecided_part("greedy maximum-overlap sort for all dimensions / all unitary bases (loop over argmax of a matrix of symbolic size): bounded only",
                     )
    s.undecided_part("matdyn file loader (fixed-column string parsing): bounded only")

    def sym_case(N, M, tag=""):
        a = numpy.array([[Sc(z3.Real("a%s_%d_%d" % (tag, i, j))) for j in range(3 * N)] for i in range(M)], dtype=object)
        mass = [Sc(z3.Real("m%s_%d" % (tag, k))) for k in range(N)]
        return a, mass

    def run_real(a, mass):
        from contracts.np_proxy import NumpyProxy
        from contracts.nonshear_env import patched

        class P(NumpyProxy):
            """real numpy; element-wise sqrt / maximum / minimum / real on object arrays that mix symbolic scalars and floats"""

            def _elem(self, f, *arrs):
                arrs = numpy.broadcast_arrays(*[numpy.asarray(x, dtype=object) for x in arrs])
                out = numpy.empty(arrs[0].shape, dtype=object)
                for idx in numpy.ndindex(arrs[0].shape):
                    out[idx] = f(*[x[idx] for x in arrs])
                return out

            def sqrt(self, x):
                return self._elem(lambda v: Sc(symnp.SQRT(symnp.term(v))), x)

            def maximum(self, x, y):
                return self._elem(lambda u, v: Sc(z3.If(symnp.term(u) >= symnp.term(v), symnp.term(u), symnp.term(v))), x, y)

            def minimum(self, x, y):
                return self._elem(lambda u, v: Sc(z3.If(symnp.term(u) <= symnp.term(v), symnp.term(u), symnp.term(v))), x, y)

            def real(self, x):
                return x

            def conj(self, x):
                return x
        paths = symnp.Paths([], max_paths=64)
        with patched(d2e, numpy=P()):
            return paths.run(lambda: d2e.evec_disp2eig(a, mass))

    # ---------------- 1. formula, unit norm, frame
    def formula():
        n = 0
        for N, M in ((1, 1), (1, 3), (2, 2), (2, 6)):
            a, mass = sym_case(N, M)
            a0 = a.copy()
            outs = run_real(a, mass)
            if any(a[i, j] is not a0[i, j] for i in range(M) for j in range(3 * N)):
                return core.refuted("frames", "evec_disp2eig modifies its input array", witness_id="d2e-frame", replay=native_d2e(d2e))
            pos = [m.z > 0 for m in mass]
            for pc, res in outs:
                for i in range(M):
                    nrm = sum((a0[i, j].z * a0[i, j].z * mass[j // 3].z for j in range(3 * N)), z3.RealVal(0))
                    facts = pos + pc + [nrm > 0]
                    for j in range(3 * N):
                        n += 1
                        got = symnp.term(res[i, j])
                        want = a0[i, j].z * symnp.SQRT(mass[j // 3].z) / symnp.SQRT(nrm)
                        nz = symnp.SumNormalizer(facts, tier)
                        goal = got == want
                        r = nz.decide(goal, nz.facts(goal) + sqrt_links(goal), "d2e[%d,%d]" % (i, j))
                        if r.status != core.PROVED:
                            r.detail = "N=%d M=%d: result[%d,%d] is not a_ij sqrt(m_j) / sqrt(sum_j a_ij^2 m_j) on path %s | %s" % (N, M, i, j, [str(c)[:60] for c in pc], r.detail)
                            if r.status == core.REFUTED:
                                r.replay, r.witness_id = native_d2e(d2e), "d2e-formula"
                            return r
        return core.proved("z3", "%d entries over sizes (N,M) in {(1,1),(1,3),(2,2),(2,6)}: result = a sqrt(m) / sqrt(sum a^2 m); input array not written" % n)
    s.oblige("C20.disp2eig.formula_and_frame", formula, [D2E])

    def unit_norm():
        # lemma over the contract: rows of a_ij sqrt(m_j)/sqrt(S) with S = sum a^2 m > 0 have unit norm
        N = 2
        a = [z3.Real("a%d" % j) for j in range(3 * N)]
        m = [z3.Real("m%d" % k) for k in range(N)]
        S = sum((a[j] * a[j] * m[j // 3] for j in range(3 * N)), z3.RealVal(0))
        sq = [z3.Real("sq%d" % k) for k in range(N)]
        sS = z3.Real("sqS")
        facts = [x > 0 for x in m] + [S > 0, sS > 0, sS * sS == S] + [z3.And(q > 0, q * q == mm) for q, mm in zip(sq, m)]
        row = [a[j] * sq[j // 3] / sS for j in range(3 * N)]
        return smt.prove(sum((x * x for x in row), z3.RealVal(0)) == 1, facts, tier=tier)
    s.oblige("C20.disp2eig.lemma.unit_norm", unit_norm, [D2E])

    def restores_basis():
        # a_i = lambda_i u_i / sqrt(m) with u orthonormal  =>  result_i = sign(lambda_i) u_i  (N = 1: three components, two rows)
        u = [[z3.Real("u%d%d" % (i, j)) for j in range(3)] for i in range(2)]
        lam = [z3.Real("lam%d" % i) for i in range(2)]
        m, sq = z3.Real("m"), z3.Real("sqm")
        ortho = [sum((u[i][j] * u[k][j] for j in range(3)), z3.RealVal(0)) == (1 if i == k else 0) for i in range(2) for k in range(2)]
        facts = ortho + [m > 0, sq > 0, sq * sq == m] + [l != 0 for l in lam]
        goals = []
        for i in range(2):
            a = [lam[i] * u[i][j] / sq for j in range(3)]
            S = sum((x * x * m for x in a), z3.RealVal(0))             # = lam^2
            sS = z3.If(lam[i] > 0, lam[i], -lam[i])                     # sqrt(lam^2)
            facts.append(sS * sS == S)
            for j in range(3):
                goals.append(a[j] * sq / sS == z3.If(lam[i] > 0, u[i][j], -u[i][j]))
        return smt.prove(z3.And(*goals), facts, tier=tier)
    s.oblige("C20.disp2eig.lemma.restores_orthonormal_basis", restores_basis, [D2E])

    def rejects():
        for N, width in ((2, 5), (2, 7), (1, 2), (3, 6)):
            try:
                d2e.evec_disp2eig(numpy.ones((2, width)), [1.0] * N)
                return core.refuted("finite", "displacement matrix of width %d with %d masses is accepted" % (width, N), witness_id="d2e-reject", replay={"reproduced": True})
            except RuntimeError:
                pass
        return core.proved("finite", "width != 3N raises RuntimeError")
    s.oblige("C20.disp2eig.rejects_dimension_mismatch", rejects, [D2E], kind="finite")

    bounded_d2e(s, d2e)
    bounded_sort(s)
    bounded_load(s)
    s.min_obligations = 4


def sqrt_links(goal):
    """Sqrt(x)^2 = x facts are added by instantiate_facts; nothing more needed"""
    return []


def native_d2e(d2e):
    rnd = numpy.random.RandomState(0)
    for scale in (1.0, 1e-6, 1e6):
        for mscale in (1.0, 1.66e-27, 1e3):
            N, M = 3, 4
            a = rnd.normal(size=(M, 3 * N)) * scale
            m = rnd.uniform(1, 50, size=N) * mscale
            a0 = a.copy()
            try:
                r = d2e.evec_disp2eig(a, list(m))
            except Exception as e:
                return {"reproduced": True, "raised": repr(e)}
            want = a0 * numpy.sqrt(numpy.repeat(m, 3))[None, :]
            want = want / numpy.sqrt((want ** 2).sum(axis=1))[:, None]
            if not numpy.array_equal(a, a0) or not numpy.allclose(r, want, rtol=1e-10, atol=1e-300):
                return {"reproduced": True, "amplitude_scale": scale, "mass_scale": mscale, "row_norms": numpy.sqrt((numpy.asarray(r) ** 2).sum(axis=1)).tolist()}
    return {"reproduced": False}


def bounded_d2e(s, d2e):
    rnd = numpy.random.RandomState(s.seed)
    n = 30 if s.tier == "quick" else 1500
    fails, evals = [], 0
    for t in range(n):
        N = int(rnd.randint(1, 21))
        dim = 3 * N
        cplx = rnd.rand() < 0.5
        g = rnd.normal(size=(dim, dim)) + (1j * rnd.normal(size=(dim, dim)) if cplx else 0)
        u, _ = numpy.linalg.qr(g)
        u = u.T                                                   # rows orthonormal
        mass = rnd.uniform(0.5, 250, size=N) * 10 ** rnd.uniform(-30, 3)
        lam = rnd.uniform(0.1, 10, size=dim) * 10 ** rnd.uniform(-8, 8) * rnd.choice([-1, 1], size=dim)
        a = lam[:, None] * u / numpy.sqrt(numpy.repeat(mass, 3))[None, :]
        evals += 1
        try:
            r = d2e.evec_disp2eig(a, list(mass))
        except Exception as e:
            fails.append({"witness_id": "d2e:%d" % t, "input": {"N": N, "complex": bool(cplx)}, "observed": "raises %r" % (e,), "expected": "orthonormal rows"})
            break
        gram = numpy.conj(r) @ r.T
        if not numpy.allclose(gram, numpy.eye(dim), atol=1e-8):
            fails.append({"witness_id": "d2e:%d" % t, "input": {"N": N, "complex": bool(cplx), "mass_scale": float(mass.max()), "amplitude_scale": float(numpy.abs(lam).max())},
                          "observed": "max |G - 1| = %.3g, row norms %.3g..%.3g" % (numpy.abs(gram - numpy.eye(dim)).max(), numpy.sqrt(numpy.abs(numpy.diag(gram))).min(),
                                                                                     numpy.sqrt(numpy.abs(numpy.diag(gram))).max()),
                          "expected": "unit-norm, mutually orthogonal mass-weighted eigenvectors"})
            break
    s.bounded_standin("C20.disp2eig.restores_orthonormality", "%d random cases: N = 1..20 atoms, real and complex orthonormal bases, masses 0.5-250 x 10^(-30..3), amplitudes 10^(-8..8), seed %d" % (n, s.seed),
                      evals, evals, fails, [D2E])


def bounded_sort(s):
    es = importlib.import_module("cij.misc.evec_sort")
    rnd = numpy.random.RandomState(s.seed + 1)
    n = 40 if s.tier == "quick" else 2000
    fails, evals = [], 0
    perms_small = [p for d in (2, 3, 4) for p in itertools.permutations(range(d))]
    for t in range(n + len(perms_small)):
        if t < len(perms_small):
            perm = numpy.array(perms_small[t])
            dim = len(perm)
        else:
            dim = int(rnd.randint(2, 61))
            perm = rnd.permutation(dim)
        cplx = rnd.rand() < 0.6
        g = rnd.normal(size=(dim, dim)) + (1j * rnd.normal(size=(dim, dim)) if cplx else 0)
        base, _ = numpy.linalg.qr(g)
        base = base.T
        phases = numpy.exp(1j * rnd.uniform(0, 2 * numpy.pi, size=dim)) if cplx else rnd.choice([-1.0, 1.0], size=dim)
        pert = rnd.uniform(0, 0.05)
        noise = rnd.normal(size=(dim, dim)) + (1j * rnd.normal(size=(dim, dim)) if cplx else 0)
        noise = noise / numpy.linalg.norm(noise, axis=1)[:, None]
        target = (phases[:, None] * base[perm]) + pert * noise          # target item j matches base vector perm[j]
        items = ["item%d" % j for j in range(dim)]
        evals += 1
        try:
            out = es.evec_sort(list(items), [list(r) for r in target], [list(r) for r in base])
        except Exception as e:
            fails.append({"witness_id": "sort:%d" % t, "input": {"dim": dim, "complex": bool(cplx)}, "observed": "raises %r" % (e,), "expected": "sorted items"})
            break
        if sorted(out, key=str) != sorted(items, key=str):
            fails.append({"witness_id": "sort-perm:%d" % t, "input": {"dim": dim, "complex": bool(cplx)}, "observed": "result is not a permutation of the input", "expected": "permutation"})
            break
        want = [None] * dim
        for j in range(dim):
            want[perm[j]] = items[j]
        if out != want:
            wrong = sum(1 for a_, b_ in zip(out, want) if a_ != b_)
            fails.append({"witness_id": "sort-pos:%d" % t, "input": {"dim": dim, "complex": bool(cplx), "perturbation": float(pert), "permutation": perm.tolist()[:12]},
                          "observed": "%d of %d items are not at the position of their matching base vector" % (wrong, dim), "expected": "item j at the index of its dominant base vector"})
            break
    if not fails:
        for bad in ((["a", "b"], [[1, 0], [0, 1]], [[1, 0, 0], [0, 1, 0]]), (["a", "b", "c"], [[1, 0], [0, 1]], [[1, 0], [0, 1]]), (["a", "b"], [[1, 0]], [[1, 0], [0, 1]])):
            evals += 1
            try:
                es.evec_sort(*bad)
                fails.append({"witness_id": "sort-mismatch", "input": {"shapes": [len(bad[0]), len(bad[1]), len(bad[2])]}, "observed": "accepted", "expected": "RuntimeError"})
                break
            except RuntimeError:
                pass
            except Exception as e:
                fails.append({"witness_id": "sort-mismatch", "input": {}, "observed": "raises %r" % (e,), "expected": "RuntimeError"})
                break
    s.bounded_standin("C20.evec_sort.recovers_permutation", "all permutations for dimensions 2-4 + %d random cases (dimension 2-60, real and complex unitary bases, arbitrary phases, "
                      "perturbation <= 5 %%), dimension mismatches; seed %d" % (n, s.seed), evals, evals, fails, ["evec_sort.evec_sort"])


def render_eig(qs, modes):
    lines = []
    for q, ms in zip(qs, modes):
        lines += ["     diagonalizing the dynamical matrix ...", "", " q = %12.4f%12.4f%12.4f" % tuple(q), " " + "*" * 74]
        for k, (thz, cm1, vec) in enumerate(ms):
            lines.append("     freq (%5d) = %14.6f [THz] = %14.6f [cm-1]" % (k + 1, thz, cm1))
            for a in range(len(vec) // 3):
                c = vec[3 * a:3 * a + 3]
                lines.append(" ( %10.6f %10.6f   %10.6f %10.6f   %10.6f %10.6f   )" % (c[0].real, c[0].imag, c[1].real, c[1].imag, c[2].real, c[2].imag))
        lines.append(" " + "*" * 74)
    return "\n".join(lines) + "\n"


def bounded_load(s):
    el = importlib.import_module("cij.misc.evec_load")
    rnd = numpy.random.RandomState(s.seed + 2)
    n = 12 if s.tier == "quick" else 300
    fails, evals = [], 0
    tmp = tempfile.mkdtemp(prefix="c20_")
    try:
        for t in range(n):
            nq, nat = int(rnd.randint(1, 7)), int(rnd.randint(1, 21))
            npm = 3 * nat
            qs = numpy.round(rnd.uniform(-1, 1, size=(nq, 3)), 4)
            modes = []
            for q in range(nq):
                ms = []
                for k in range(npm):
                    thz = round(float(rnd.uniform(-2, 60)), 6)
                    vec = numpy.round(rnd.uniform(-1, 1, size=npm), 6) + 1j * numpy.round(rnd.uniform(-1, 1, size=npm), 6)
                    ms.append((thz, round(thz * 33.35641, 6), vec))
                modes.append(ms)
            p = os.path.join(tmp, "f.eig")
            with open(p, "w") as fp:
                fp.write(render_eig(qs, modes))
            evals += 1
            try:
                got = el.evec_load(p, nq, npm)
            except Exception as e:
                fails.append({"witness_id": "load:%d" % t, "input": {"nq": nq, "modes": npm}, "observed": "raises %r" % (e,), "expected": "parsed file"})
                break
            msg = None
            if len(got) != nq:
                msg = "%d q-points returned" % len(got)
            for q in range(nq):
                if msg:
                    break
                qc, ms = got[q]
                if not numpy.allclose(qc, qs[q], atol=1e-9) or len(ms) != npm:
                    msg = "q-point %d: coordinates %s / %d modes" % (q, qc, len(ms))
                    break
                for k in range(npm):
                    (mid, thz, cm1), vec = ms[k]
                    if mid != k + 1 or abs(thz - modes[q][k][0]) > 1e-9 or abs(cm1 - modes[q][k][1]) > 1e-9 or len(vec) != npm or \
                            not numpy.allclose(numpy.array(vec), modes[q][k][2], atol=1e-9):
                        msg = "q-point %d mode %d: index/frequencies/components differ from the printed values" % (q, k + 1)
                        break
            if msg:
                fails.append({"witness_id": "load:%d" % t, "input": {"nq": nq, "modes": npm}, "observed": msg, "expected": "printed q-coordinates, mode index, THz, cm-1, complex components"})
                break
    finally:
        shutil.rmtree(tmp, ignore_errors=True)
    s.bounded_standin("C20.evec_load.matdyn_layout", "%d rendered files in matdyn layout (1-6 q-points, 3-60 modes, negative and positive values at the printed precision), seed %d" % (n, s.seed),
                      evals, evals, fails, ["evec_load.evec_load", "evec_load._read_q_points", "evec_load._read_modes", "evec_load._read_vecs"])


MANIFEST = {
    "engine": "symnp", "category": "other",
    "technique": "contract-based deductive verification of evec_disp2eig (real function on object arrays of symbolic reals, z3 NRA, lemmas for unit "
                 "norm and basis restoration, frame); bounded run-time contracts for evec_sort and evec_load",
    "text": "evec_disp2eig is executed by real numpy on symbolic displacement matrices and masses (sizes (N,M) in {(1,1),(1,3),(2,2),(2,6)}, values "
            "unbounded): every entry is proved to be a_ij sqrt(m_j)/sqrt(sum_j a_ij^2 m_j) on every value-dependent path, the input is not written, "
            "width != 3N raises; lemmas over that contract: rows have unit norm, and displacement vectors lambda_i u_i/sqrt(m) of an orthonormal basis "
            "come back as +-u_i. Bounded: orthonormality restored for random real/complex bases over 33 orders of magnitude of masses and 16 of "
            "amplitudes; evec_sort places every item at the position of its matching base vector and returns a permutation (all permutations for "
            "d <= 4, random d <= 60, phases, 5 % perturbation), rejects dimension mismatches; evec_load returns the printed values of rendered files.",
    "note": "The greedy sort (argmax loop on a matrix of symbolic size) and the fixed-column file loader are outside the deductive engines: bounded "
            "stand-ins only (40+33 / 2000+33 sort cases, 12 / 300 files, 30 / 1500 conversion cases).",
}
