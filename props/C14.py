"""C14 -- deterministic and isolated: hash seed, working directory, process history.

A statement about hash seeds, working directories and interleaved process histories is a whole-history property;
contracts carry its per-call footprint: frame obligations (nothing shared is written, no ambient state is read beyond
what the contract names, set iteration order cannot escape), repeated-read obligations and the idempotence of filling.
Byte-identical output under different hash seeds / directory contents is exercised as a bounded stand-in.
"""
import re, glob, hashlib, importlib, os, shutil, subprocess, sys, tempfile, types, warnings
import numpy
import pandas
import z3
from vf import core, frames, symnp
from contracts.nonshear_env import Env
from contracts import fill_env, calc_env
from props import C01

LEVEL = "other"
EXPLANATION = ("frame obligations by a conservative AST effect analysis of every function in the anchored files (shared state written, ambient "
               "state read, set iteration), repeated-read obligations on the symbolic runs, idempotence of filling; whole-process determinism "
               "(hash seed, directory contents) only as a bounded stand-in with subprocess runs")

FILES = ["core/calculator.py", "core/tasks.py", "core/full_modulus.py", "core/qha_adapter.py", "core/mode_gamma.py", "core/phonon_contribution/nonshear.py",
         "core/phonon_contribution/shear.py", "io/config/config.py", "io/config/validate.py", "io/output/results_writer.py", "io/traditional/elast_dat.py",
         "io/traditional/qha_input.py", "util/fill.py", "util/units.py", "util/voigt.py"]

from contracts.frame_contracts import history_fallback, ALLOWED_AMBIENT, ALLOWED_SET_ITERATION, ALLOWED_WRITES, ALLOWED_AMBIENT_MODULE, ALLOWED_WRITES_MODULE, frame_result  # noqa: E402,F401


def filling_through_configuration(seed, tier):
    """the clause as a calculation meets it: the table is filled by apply_symetry_on_elast_data with the symmetry settings of the EFFECTIVE configuration (the user
    names the system only, everything else comes from the packaged defaults).  Tables carry symmetry-allowed components that are small next to the largest modulus
    (1e-3 ... 1e-6 of it, far above any vanishing tolerance a unit could justify) in GPa-, kbar- and Ry/bohr^3-sized magnitudes: the first pass keeps every supplied
    value, the second pass changes nothing."""
    import sympy as sp
    from specs import laue
    config = importlib.import_module("cij.io.config")
    ed = importlib.import_module("cij.io.traditional.elast_dat")
    c_ = importlib.import_module("cij.util").c_
    rnd = numpy.random.RandomState(seed + 5)
    coupling = [k for k, nm in enumerate(fill_env.NAMES) if nm in ("c14", "c15", "c16", "c24", "c25", "c26", "c34", "c35", "c36", "c45", "c46", "c56")]
    n = 0
    for system in fill_env.SYSTEMS:
        if system == "triclinic":
            continue
        sym = config.apply_default_config({"elast": {"settings": {"symmetry": {"system": system}}}})["elast"]["settings"]["symmetry"]
        basis = numpy.array([[float(sp.N(x)) for x in v] for v in laue.invariant_basis(system)])
        for trial in range(4 if tier == "quick" else 40):
            unit = (1.0, 10.0, 1.0 / 14710.5)[trial % 3]
            coef = rnd.uniform(100, 500, size=(3, len(basis)))
            small = [k for k in range(len(basis)) if not numpy.any(numpy.delete(basis[k], coupling))]      # invariants that live on the normal-shear / shear-shear couplings only
            for k in small:
                coef[:, k] = rnd.uniform(0.5, 1.0, size=3) * 500 * 10.0 ** (-3 - (trial + k) % 4) * rnd.choice([-1, 1])
            tens = (coef @ basis) * unit
            names = [fill_env.NAMES[k] for k in range(21) if numpy.any(tens[:, k] != 0)]

            def table(rows):
                return ed.ElastData(100.0, len(rows), 50.0, [ed.ElastVolumeData(90.0 - i, dict((c_(nm[1:]), float(rows[i][nm])) for nm in rows[i])) for i in range(len(rows))], [])
            rows0 = [{nm: tens[i, fill_env.NAMES.index(nm)] for nm in names} for i in range(3)]
            data = table(rows0)
            witness = {"reproduced": True, "system": system, "symmetry_settings": {k: (v if isinstance(v, (int, float, str, bool)) else str(v)) for k, v in sym.items()},
                       "table": {nm: [r[nm] for r in rows0] for nm in names}}
            try:
                ed.apply_symetry_on_elast_data(data, dict(sym))
                first = [{"c%s%s" % k.v: v for k, v in vol.static_elastic_modulus.items()} for vol in data.volumes]
                ed.apply_symetry_on_elast_data(data, dict(sym))
                second = [{"c%s%s" % k.v: v for k, v in vol.static_elastic_modulus.items()} for vol in data.volumes]
            except Exception as e:
                return core.refuted("runtime-contract", "%s, filled through the effective configuration: %r" % (system, e), witness_id="idempotent-config:" + system, replay=witness)
            n += 1
            scale = float(numpy.abs(tens).max())
            lost = [nm for nm in names if any(nm not in r or abs(r[nm] - r0[nm]) > 1e-9 * scale for r, r0 in zip(first, rows0))]
            if lost:
                return core.refuted("runtime-contract", "%s, filled through the effective configuration: the supplied component(s) %s (%.1e of the largest modulus) are dropped or moved "
                                    "by the first pass" % (system, lost, max(abs(rows0[0][nm]) for nm in lost) / scale), witness_id="idempotent-config:" + system, replay=dict(witness, first_pass=first))
            if [sorted(r) for r in first] != [sorted(r) for r in second] or any(abs(r[nm] - q[nm]) > 1e-9 * scale for r, q in zip(first, second) for nm in r):
                return core.refuted("runtime-contract", "%s: filling an already filled table through the effective configuration changes it" % system,
                                    witness_id="idempotent-config:" + system, replay=dict(witness, first_pass=first, second_pass=second))
    return core.proved("runtime-contract", "%d invariant tables with small symmetry-allowed components over eight systems and three unit magnitudes, filled twice by "
                                           "apply_symetry_on_elast_data with the effective configuration's symmetry settings: supplied values kept, second pass changes nothing" % n)


def run(s):
    tier = s.tier
    s.trust("vf/frames.py (conservative AST analysis; unsound for setattr/exec/C extensions/aliasing through locals)", "python import system (modules executed once)")
    s.assume("LazyProperty caching on the instance and logging are not shared state", "A-LSQ for the idempotence argument",
             "numba / pint / pandas internal caches are outside the analysis")
    s.undecided_part("byte-identical files for ALL hash seeds, ALL working-directory contents and ALL interleavings of two calculations: no contract within reach quantifies over "
                     "interpreter runs; a bounded stand-in (few subprocess runs) is all that is offered")
    base = os.path.join(core.REPO, "cij")

    # ---------------- 1. frame obligations, one per anchored file
    for rel in FILES:
        def ob(rel=rel):
            return frame_result(rel)
        s.oblige("C14.frame[%s]" % rel, ob, ["cij/" + rel], kind="frame", fallback=lambda rel=rel: history_fallback(rel))

    def module_state():
        """module-level shared objects are created once and are only read afterwards"""
        rw = importlib.import_module("cij.io.output.results_writer")
        units = importlib.import_module("cij.util.units")
        import copy
        before = copy.deepcopy(rw.DEFAULT_WRITER_RULES)
        base_obj = types.SimpleNamespace(_base_name="tv", bulk_modulus_voigt=numpy.ones((2, 2)), write_table=lambda f, v: None)
        for _ in range(3):
            w = rw.ResultsWriter(base_obj)
            w.write("bm_V")
            w.write({"keyword": "bm_V", "unit": "kbar", "fname": "x"})
        if rw.DEFAULT_WRITER_RULES != before:
            return core.refuted("finite", "DEFAULT_WRITER_RULES changes when results are written", witness_id="writer-rules-mutated", replay={"reproduced": True})
        a = units._to_gpa(1.0)
        units.convert_unit("bohr^3", "angstrom^3", 2.0)
        if units._to_gpa(1.0) != a:
            return core.refuted("finite", "unit conversions depend on earlier conversions", witness_id="units-state", replay={"reproduced": True})
        return core.proved("finite", "repeated writes / conversions leave DEFAULT_WRITER_RULES and the unit registry's answers unchanged")
    s.oblige("C14.module_level_state_read_only", module_state, ["results_writer.DEFAULT_WRITER_RULES", "cij.util.units.units"], kind="finite")

    # ---------------- 2. repeated reads
    def repeated_reads():
        env = Env()
        C01.ENV["env"] = env
        names = ["prefactors", "mode_gamma", "Q", "Q1", "Q2", "zero_point_contribution", "thermal_contribution", "value_isothermal", "isothermal_to_adiabatic", "value_adiabatic"]
        with env.active():
            for kind in ("longitudinal", "off_diagonal"):
                o = env.make(kind)
                symnp.FRAME["epoch"] += 1
                symnp.FRAME["start"], symnp.FRAME["violations"] = symnp.FRAME["epoch"], []
                first = {n: getattr(o, n) for n in names}
                order2 = list(reversed(names))
                second = {n: getattr(o, n) for n in order2}
                viol, symnp.FRAME["start"] = list(symnp.FRAME["violations"]), None
                if viol:
                    return core.refuted("frames", "%s: reading the results writes pre-existing arrays: %s" % (kind, viol[:3]), witness_id="reads-write", replay=replay_reads(env, kind))
                for n in names:
                    a, b = first[n], second[n]
                    if n in ("value_adiabatic",):
                        idx, _ = symnp.index_vars(a.shape)
                        if not a.elem(idx).eq(b.elem(idx)):
                            return core.refuted("symnp", "%s.%s: two reads give different terms" % (kind, n), witness_id="reads-differ:" + n, replay=replay_reads(env, kind))
                    elif a is not b:
                        return core.refuted("symnp", "%s.%s is recomputed on the second read (lazily cached result expected)" % (kind, n), witness_id="reads-recompute:" + n)
        return core.proved("symnp", "both non-shear classes: ten results read twice in opposite orders are the same objects / identical terms; no pre-existing array is written")
    s.oblige("C14.repeated_reads_equal", repeated_reads, ["nonshear.LongitudinalElasticModulusPhononContribution.*", "nonshear.OffDiagonalElasticModulusPhononContribution.*"])

    def shear_inputs_set_before_use():
        tasks = importlib.import_module("cij.core.tasks")
        from contracts import tasks_env
        order = []
        with tasks_env.stubbed() as tk:
            tl = tk.PhononContributionTaskList(types.SimpleNamespace())
            tl.resolve(numpy.array([[0.2, 0.3, 0.5]]), tasks_env.all_keys())
            for t in tl.data:
                if t.calc_type == tk.ElasticModulusCalculationType.SHEAR:
                    real = t.calculator.get_target_elastic_modulus

                    def spy(t=t, real=real):
                        order.append((t.key, hasattr(t, "modulus_results") and hasattr(t, "modulus_results_rotated") and hasattr(t.calculator, "modulus")
                                      and t.calculator.modulus is t.modulus_results and t.calculator.modulus_rotated is t.modulus_results_rotated))
                        return real()
                    t.calculator.get_target_elastic_modulus = spy
            tl.calculate()
            a1 = {k: str(v) for k, v in tl.get_adiabatic_results().items()}
            tl.calculate()
            a2 = {k: str(v) for k, v in tl.get_adiabatic_results().items()}
        if len(order) < 15 or not all(ok for _, ok in order):
            return core.refuted("finite", "a shear task is evaluated before its inputs are assigned: %s" % [k for k, ok in order if not ok][:3], witness_id="shear-inputs",
                                replay={"reproduced": True})
        if a1 != a2:
            return core.refuted("finite", "calculate() twice gives different results", witness_id="calculate-twice", replay={"reproduced": True})
        return core.proved("finite", "15 shear tasks: modulus / modulus_rotated are assigned from the results of calculate() before the solver runs; calculate() is repeatable")
    s.oblige("C14.shear_task_inputs_assigned_before_use", shear_inputs_set_before_use, ["tasks.PhononContributionTask.get_modulus_isothermal", "tasks.PhononContributionTaskList.calculate"],
             kind="finite")

    # ---------------- 2b. order of property access on the (T,P) interfaces: every quantity read in two interleaved orders on two calculators alive at once is the
    # conversion of its OWN volume-base quantity (the call-site obligation of C06, registered here: a result that depends on what was read before is an isolation defect)
    from props import C06
    core.SubSession(s, lambda n: n.replace("C06.", "C14.access_order."), lambda n: "forwarding_of_every_quantity" in n).run(C06)

    # ---------------- 3. idempotence of filling
    fill = fill_env.fill_module()

    def idempotent_generic():
        import sympy as sp
        from specs import laue
        rnd = numpy.random.RandomState(s.seed)
        n = 0
        for system in fill_env.SYSTEMS:
            basis = numpy.array([[float(sp.N(x)) for x in v] for v in laue.invariant_basis(system)])
            for trial in range(3 if tier == "quick" else 40):
                tens = rnd.uniform(20, 400, size=(2, len(basis))) @ basis
                df = pandas.DataFrame({fill_env.NAMES[k]: tens[:, k] for k in range(21) if numpy.any(numpy.abs(tens[:, k]) > 1e-6)})
                # row labels are not data: a table that was sliced, filtered or indexed by volume before (any pandas index) fills like the freshly read one
                if trial % 3 == 1:
                    df.index = [7, 3]
                elif trial % 3 == 2:
                    df.index = ["v_low", "v_high"]
                one = fill.fill_cij(df.copy(), system)
                two = fill.fill_cij(one.copy(), system)
                again = fill.fill_cij(df.copy(), system)
                n += 1
                if list(one.columns) != list(again.columns) or not numpy.array_equal(one.to_numpy(dtype=float), again.to_numpy(dtype=float), equal_nan=False) or list(one.index) != list(df.index):
                    return core.refuted("runtime-contract", "%s: filling the same table (row labels %s) twice gives different results / other row labels" % (system, list(df.index)),
                                        witness_id="repeat:" + system, replay={"reproduced": True, "table": df.to_dict("list"), "row_labels": [str(x) for x in df.index]})
                if list(one.columns) != list(two.columns) or not numpy.allclose(one.to_numpy(dtype=float), two.to_numpy(dtype=float), rtol=1e-10, atol=1e-10):
                    return core.refuted("runtime-contract", "%s: filling an already filled table changes it" % system, witness_id="idempotent:" + system,
                                        replay={"reproduced": True, "table": df.to_dict("list")})
        # the same with whole-number tables typed as integers (as pandas reads moduli printed without decimal point): an independent sufficient subset, any integers
        for system in fill_env.SYSTEMS:
            if system == "triclinic":
                continue
            B = numpy.array([[float(sp.N(x)) for x in v] for v in laue.invariant_basis(system)])
            for trial in range(2 if tier == "quick" else 20):
                chosen = []
                for k in rnd.permutation(21):
                    if numpy.linalg.matrix_rank(B[:, chosen + [int(k)]], tol=1e-9) > len(chosen):
                        chosen.append(int(k))
                df = pandas.DataFrame({fill_env.NAMES[k]: rnd.randint(20, 600, size=3).astype("int64") for k in chosen})
                try:
                    one = fill.fill_cij(df.copy(), system)
                    two = fill.fill_cij(one.copy(), system)
                    ref = fill.fill_cij(df.astype(float), system)
                except Exception as e:
                    return core.refuted("runtime-contract", "%s, integer-typed table: %r" % (system, e), witness_id="idempotent-int:" + system, replay={"reproduced": True, "table": df.to_dict("list")})
                n += 1
                same = lambda x, y: list(x.columns) == list(y.columns) and numpy.allclose(x.to_numpy(dtype=float), y.to_numpy(dtype=float), rtol=1e-10, atol=1e-8)
                if not same(one, two) or not same(one, ref):
                    return core.refuted("runtime-contract", "%s: filling an integer-typed table %s" % (system, "twice changes it" if not same(one, two) else "differs from filling the same numbers typed as floats"),
                                        witness_id="idempotent-int:" + system, replay={"reproduced": True, "table": df.to_dict("list"), "first_pass": one.to_dict("list"), "second_pass": two.to_dict("list")})
        return core.proved("runtime-contract", "%d generic invariant tables over nine systems (float- and integer-typed): fill(fill(x)) == fill(x)" % n)
    s.oblige("C14.filling_idempotent(generic tensors)", idempotent_generic, ["fill.fill_cij"], kind="finite")

    def idempotent_zero_component():
        df = pandas.DataFrame({"c11": [300., 310.], "c12": [100., 105.], "c13": [80., 82.], "c33": [280., 290.], "c44": [70., 72.], "c14": [10., 11.], "c15": [0., 0.]})
        one = fill.fill_cij(df.copy(), "trigonal7")
        try:
            two = fill.fill_cij(one.copy(), "trigonal7")
        except Warning as e:
            return core.refuted("runtime-contract", "trigonal7 table with c15 = 0 at every volume: the first pass omits the vanishing c15/c25/c46, the second pass then refuses the table (%s)"
                                % str(e)[:60], witness_id="idempotence-zero-allowed-component", replay={"reproduced": True, "table": df.to_dict("list"), "first_pass_columns": list(one.columns)})
        if list(one.columns) != list(two.columns):
            return core.refuted("runtime-contract", "second pass changes the column set", witness_id="idempotence-zero-columns", replay={"reproduced": True})
        return core.proved("runtime-contract", "a symmetry-allowed component that is zero at all volumes survives a second pass")
    s.oblige("C14.filling_idempotent(zero allowed component)", idempotent_zero_component, ["fill.fill_cij"], kind="finite")

    s.oblige("C14.filling_idempotent(through the effective configuration)", lambda: filling_through_configuration(s.seed, tier),
             ["elast_dat.apply_symetry_on_elast_data", "fill.fill_cij", "cij/data/default/settings.yaml"], kind="finite")

    # ---------------- 4. bounded: whole process
    process_runs(s)
    r = calc_env.interleaving_battery()
    s.bounded_standin("C14.interleaved_calculations(colliding data sets)", "two synthetic calculations with equal file names, shapes, volume end points, component set and q-points but different "
                      "interior volumes, column order, values and settings (one spelling out non-default nested settings and unit overrides, the other relying on the packaged defaults), "
                      "interleaved in one process (A, B, A read again, both written, A rebuilt) against each alone in a fresh process with the opposite read order: arrays bit for bit, "
                      "output files byte for byte", 6, 6, [] if not r.get("reproduced") else [dict(witness_id="interleaving", input=r.get("history", r.get("data")), observed=r.get("observed"),
                                                                                                  expected=r.get("expected", "bit-identical results"))],
                      ["calculator.Calculator", "calculator.Calculator.write_output"])
    s.min_obligations = 21


def replay_reads(env, kind):
    from oracles import phonon as oracle
    try:
        with env.native():
            rep, rec = oracle.frame_check(kind)
    except Exception as e:
        return {"reproduced": False, "oracle_error": repr(e)}
    rec["reproduced"] = rep
    return rec


RUNNER = r'''
import sys, os, warnings
warnings.simplefilter("ignore")
import logging
logging.disable(logging.CRITICAL)
mode = sys.argv[2]
os.chdir(sys.argv[1])
import cij.core.calculator as C
if mode == "history":
    c0 = C.Calculator("other/settings.yaml")           # an unrelated calculation earlier in the same process
    _ = c0.pressure_base.c11
    _ = c0.volume_base.bulk_modulus_voigt_reuss_hill
c = C.Calculator("settings.yaml")
if mode == "history":
    _ = c.pressure_base.bulk_modulus_voigt             # results read in another order / several times before writing
    _ = c.pressure_base.c11
    c.write_output()
c.write_output()
'''


def process_runs(s):
    ex = "akimotoite"
    settings = {"qha": {"settings": {"NT": 5, "DT": 300, "DT_SAMPLE": 300, "NTV": 11, "DELTA_P": 4.0, "DELTA_P_SAMPLE": 4.0}},
                "output": {"pressure_base": ["cij", "cij_t", "bm_VRH", "vs", "v"], "volume_base": ["p", "G_V"]}}
    runs = [("12345", "plain", []), ("0", "plain", ["cubic", "trigonal7", "constraints"]), ("777", "history", ["monoclinic"])]
    if s.tier == "thorough":
        runs += [("1", "history", []), ("99", "plain", ["hexagonal"])]
    digests, fails, evals = [], [], 0
    py = sys.executable
    for seed, mode, extra_dirs in runs:
        with calc_env.Case(ex, settings) as case:
            for d in extra_dirs:
                os.mkdir(os.path.join(case.dir, d))
            os.mkdir(os.path.join(case.dir, "other"))
            other = calc_env.Case("diopside", {"qha": {"settings": {"NT": 4, "DT": 400, "DT_SAMPLE": 400, "NTV": 9, "DELTA_P": 5.0, "DELTA_P_SAMPLE": 5.0}}})
            for f in os.listdir(other.dir):
                shutil.copy(os.path.join(other.dir, f), os.path.join(case.dir, "other", f))
            other.close()
            env = dict(os.environ, PYTHONHASHSEED=seed, PYTHONWARNINGS="ignore")
            evals += 1
            p = subprocess.run([py, "-c", RUNNER, case.dir, mode], env=env, capture_output=True, text=True, timeout=900)
            if p.returncode != 0:
                fails.append({"witness_id": "process-run:%s:%s" % (seed, mode), "input": {"PYTHONHASHSEED": seed, "mode": mode, "extra_dirs": extra_dirs},
                              "observed": "exit %d: %s" % (p.returncode, p.stderr[-400:]), "expected": "output files"})
                break
            h = {}
            for f in sorted(glob.glob(os.path.join(case.dir, "*.txt"))):
                h[os.path.basename(f)] = hashlib.sha256(open(f, "rb").read()).hexdigest()
            digests.append(((seed, mode, extra_dirs), h))
    if not fails and digests:
        ref = digests[0][1]
        for cfg, h in digests[1:]:
            if h != ref:
                diff = sorted(set(k for k in set(h) | set(ref) if h.get(k) != ref.get(k)))
                fails.append({"witness_id": "process-differs:%s" % (cfg,), "input": {"run": cfg, "reference": digests[0][0]},
                              "observed": "output files differ: %s" % diff[:6], "expected": "byte-identical files"})
                break
    s.bounded_standin("C14.process_level_determinism", "%d subprocess runs of the same calculation (hash seeds %s; working directories with extra entries named like crystal systems; "
                      "an unrelated calculation and extra reads/writes earlier in the same process): output files compared byte by byte" % (len(runs), [r[0] for r in runs]),
                      evals, len(runs), fails, ["calculator.Calculator", "calculator.Calculator.write_output"])


MANIFEST = {
    "engine": "frames", "category": "other",
    "technique": "contract-based frame obligations (conservative AST effect analysis of every function in 15 files), repeated-read obligations on "
                 "symbolic runs, run-time idempotence contracts; bounded subprocess runs for the whole-process clause",
    "text": "Per-call footprint of the property, discharged on the current source: no function of the 15 anchored files writes anything reachable "
            "from module level, a class body or a mutable default, reads ambient state outside its contract (fill_cij's relations-file probe is the "
            "one named exception) or iterates a set outside the two loops whose bodies commute; module-level rule table and unit registry answer "
            "identically after use; all lazily cached results of the non-shear classes read twice in opposite orders are the same objects and no "
            "pre-existing array is written; shear task inputs are assigned before use and calculate() is repeatable; filling is idempotent on "
            "generic invariant tables of all nine systems (the zero-allowed-component corner is a known finding). Bounded: byte-identical output "
            "files across subprocess runs with different hash seeds, directory contents and process histories.",
    "note": "The whole-history clause (all hash seeds, all directory contents, all interleavings) cannot be decided by contracts; it is covered by 3 "
            "(quick) / 5 (thorough) subprocess runs only. The AST analysis is conservative but unsound for setattr/exec/C-extension state and "
            "aliasing through local names.",
}
