"""C18 -- run-static reports a consistent static EoS and elasticity table in every mode.

cli/static.py is one click callback whose helpers are closures and whose imports happen inside the body: there is no
function boundary to put a deductive contract on.  The contract is a postcondition on the printed table, evaluated at run
time on the real callback (bounded stand-in).
"""
import importlib, io, itertools, os, random, shutil, tempfile
import numpy
import pandas
from vf import core

LEVEL = "other"
EXPLANATION = ("the VRH / unit-conversion / velocity statements of the real `run-static` callback are extracted by AST every run and executed unchanged on a "
               "symbolic table of symbolic length (z3: assembly, tensor definitions, converters, velocities); the fits, the mode-specific table "
               "construction and the printed table are a bounded run-time contract on the real command")
RY_J, BOHR, EV = 2.1798723611030e-18, 5.29177210903e-11, 1.602176634e-19
GPA = RY_J / BOHR ** 3 / 1e9
ANG3 = (BOHR * 1e10) ** 3
RY_EV = RY_J / EV
AMU_G = 1.0 / 6.02214076e23


def strain(v0, v):
    return ((v0 / v) ** (2.0 / 3.0) - 1.0) / 2.0


def write_inputs(tmp, V, E, table=None, mass=250.0, notation=0):
    from cij.io.traditional import models, qha_input
    nv = len(V)
    vols = [models.VolumeData(0.0, float(V[i]), float(E[i]), [models.QPointData((0.0, 0.0, 0.0), [0.0, 0.0, 0.0])]) for i in range(nv)]
    qha_input.write_energy(os.path.join(tmp, "input01"), models.QHAInputData(nv, 1, 3, 1, 1, [models.QPointWeight((0.0, 0.0, 0.0), 1.0)], vols))
    if notation:
        # the same file with the energies (notation 1) or pressure, volume and energy (notation 2) in exponent notation, as Fortran / %E writers produce them
        import re as _re
        k = iter(range(nv))

        def repl(m):
            i = next(k)
            return ("P= %12.6f V= %12.6f E= %.10E" % (0.0, V[i], E[i])) if notation == 1 else ("P= %.6E V= %.10E E= %.10E" % (0.0, V[i], E[i]))
        path = os.path.join(tmp, "input01")
        text = _re.sub(r"^P=.*$", repl, open(path).read(), flags=_re.M)
        with open(path, "w") as fp:
            fp.write(text)
    if table is not None:
        cols, Vt, rows = table
        lines = ["title", "%.6f %d %.4f" % (Vt[0], len(Vt), mass), "V " + " ".join(cols)]
        for i in range(len(Vt)):
            lines.append("%.8f " % Vt[i] + " ".join("%.8f" % x for x in rows[i]))
        with open(os.path.join(tmp, "input02"), "w") as fp:
            fp.write("\n".join(lines) + "\n")


def parse(out):
    return pandas.read_table(io.StringIO(out), sep=r"\s+", index_col=0)


def vrh(row, names):
    C = numpy.zeros((6, 6))
    for n in names:
        i, j = int(n[1]) - 1, int(n[2]) - 1
        C[i, j] = C[j, i] = row[n]
    S = numpy.linalg.inv(C)
    KV = (C[0, 0] + C[1, 1] + C[2, 2] + 2 * (C[0, 1] + C[1, 2] + C[0, 2])) / 9
    GV = (C[0, 0] + C[1, 1] + C[2, 2] - (C[0, 1] + C[1, 2] + C[0, 2]) + 3 * (C[3, 3] + C[4, 4] + C[5, 5])) / 15
    KR = 1 / (S[0, 0] + S[1, 1] + S[2, 2] + 2 * (S[0, 1] + S[1, 2] + S[0, 2]))
    GR = 15 / (4 * (S[0, 0] + S[1, 1] + S[2, 2]) - 4 * (S[0, 1] + S[1, 2] + S[0, 2]) + 3 * (S[3, 3] + S[4, 4] + S[5, 5]))
    return KV, KR, (KV + KR) / 2, GV, GR, (GV + GR) / 2


# =========================================================================================== deductive fragment
# The VRH / unit-conversion / velocity statements of `main` are extracted from the current source by AST on every run
# (the contiguous run of top-level statements of `main` from the `if` that assigns df.loc[:, "bm_V"] to the `if` that assigns
# df.loc[:, "v_p"]) and executed UNCHANGED on a symbolic table of symbolic length.  Dropped by the extraction: everything before
# (file reading, the fits, the mode-specific table construction, fill_cij, the density column) and after (sampling, printing).
def extract_vrh_block(static):
    import ast, inspect
    src = open(inspect.getsourcefile(static)).read()
    tree = ast.parse(src)
    main = [n for n in tree.body if isinstance(n, ast.FunctionDef) and n.name == "main"]
    if len(main) != 1:
        raise core.OutsideSubset("cli/static.py: function main not found")
    body = main[0].body

    def assigns(node, col):
        for a in ast.walk(node):
            if isinstance(a, ast.Assign):
                for t in a.targets:
                    if isinstance(t, ast.Subscript) and col in [c.value for c in ast.walk(t.slice) if isinstance(c, ast.Constant)]:
                        return True
        return False
    first = [i for i, st in enumerate(body) if isinstance(st, ast.If) and assigns(st, "bm_V")]
    last = [i for i, st in enumerate(body) if isinstance(st, ast.If) and assigns(st, "v_p")]
    if len(first) != 1 or len(last) != 1 or first[0] > last[0]:
        raise core.OutsideSubset("cli/static.py: the VRH / velocity statements are not two top-level `if` blocks of main any more")
    stmts = body[first[0]:last[0] + 1]
    mod = ast.Module(body=stmts, type_ignores=[])
    return compile(mod, inspect.getsourcefile(static), "exec"), (stmts[0].lineno, stmts[-1].end_lineno)


def run_vrh_block(static, present):
    """executes the extracted statements; returns (df stub, record)"""
    import types, z3
    from vf import symnp
    from vf.symnp import SymArr, Dim, Sc, SymNumpy
    code, span = extract_vrh_block(static)
    n = Dim("nrow")
    rec = {"span": span}

    class Col(SymArr):
        def to_numpy(self, *a, **k):
            return self

    def col(a):
        if isinstance(a, Col):
            return a
        if symnp.is_arr(a):
            c = Col(a.shape, a.elem)
            return c
        raise core.OutsideSubset("table column set to %r" % (a,))

    class Loc:
        def __init__(self, df): self.df = df

        def __getitem__(self, k):
            if not (isinstance(k, tuple) and len(k) == 2 and k[0] == slice(None) and isinstance(k[1], str)):
                raise core.OutsideSubset("df.loc[%r]" % (k,))
            return self.df[k[1]]

        def __setitem__(self, k, v):
            if not (isinstance(k, tuple) and len(k) == 2 and k[0] == slice(None) and isinstance(k[1], str)):
                raise core.OutsideSubset("df.loc[%r] = ..." % (k,))
            self.df[k[1]] = v

    class DF:
        def __init__(self, cols):
            self.cols = dict(cols)
            self.writes = []
        @property
        def loc(self): return Loc(self)
        @property
        def shape(self): return (n, len(self.cols))
        @property
        def columns(self): return list(self.cols)

        def __getitem__(self, k):
            if k not in self.cols:
                raise KeyError(k)
            return col(self.cols[k])

        def __setitem__(self, k, v):
            self.writes.append(k)
            self.cols[k] = col(v)
    cols = {"V": SymArr.atom("V_in", (n,), lambda i, v: v > 0), "F": SymArr.atom("F_in", (n,)), "P": SymArr.atom("P_in", (n,)),
            "density": SymArr.atom("rho_in", (n,), lambda i, v: v > 0)}
    for (I, J) in present:
        cols["c%d%d" % (I, J)] = SymArr.atom("tab_c%d%d" % (I, J), (n,))
    df = DF(cols)

    def inv_stub(M):
        rec["inv_arg"] = M
        fs = {}

        def elem(idx):
            i, j = z3.simplify(idx[1]), z3.simplify(idx[2])
            if not (z3.is_int_value(i) and z3.is_int_value(j)):
                raise core.OutsideSubset("symbolic matrix index into the inverse")
            key = (i.as_long(), j.as_long())
            if key not in fs:
                fs[key] = z3.Function("SINV_%d%d" % key, z3.IntSort(), z3.RealSort())
            return fs[key](idx[0])
        rec["inv"] = SymArr(M.shape, elem)
        return rec["inv"]
    K = {nm: z3.Real("K_" + nm) for nm in ("ang3", "ev", "gpa", "gcm3", "kms")}
    rec["K"] = K

    def conv(nm):
        def f(a):
            rec.setdefault("conv", []).append(nm)
            return a * Sc(K[nm])
        return f
    ns = {"numpy": SymNumpy(linalg={"inv": inv_stub}), "itertools": itertools, "df": df, "input02": True,
          "_to_ang3": conv("ang3"), "_to_ev": conv("ev"), "_to_gpa": conv("gpa"), "_to_gcm3": conv("gcm3"), "_to_kms": conv("kms")}
    exec(code, ns)
    return df, rec, cols, n


def vrh_obligations(s, static):
    import z3
    from vf import symnp, smt
    from cij.util import c_
    tier = s.tier
    full = [(I, J) for I in range(1, 7) for J in range(I, 7)]
    ortho = [(1, 1), (2, 2), (3, 3), (1, 2), (1, 3), (2, 3), (4, 4), (5, 5), (6, 6)]

    def check(present, label):
        def ob():
            df, rec, cols, n = run_vrh_block(static, present)
            r = z3.Int("r")
            facts = [r >= 0, r < n.n]
            if "inv_arg" not in rec:
                return core.refuted("callsite", "numpy.linalg.inv is not called", witness_id="no-inv")
            M, INV = rec["inv_arg"], rec["inv"]
            if not symnp.same_shape(M.shape, (n, 6, 6)):
                return core.refuted("symnp", "matrix handed to inv has shape %s" % (M.shape,), witness_id="inv-shape")
            goals = []
            C, S = {}, {}
            for I in range(6):
                for J in range(6):
                    key = (min(I, J) + 1, max(I, J) + 1)
                    want = cols["c%d%d" % key].elem((r,)) if key in present else z3.RealVal(0)
                    got = M.elem((r, z3.IntVal(I), z3.IntVal(J)))
                    rr = smt.prove(got == want, facts, tier=tier)
                    if rr.status != core.PROVED:
                        rr.detail = "entry (%d,%d) of the matrix handed to inv is %s, specified %s | %s" % (I + 1, J + 1, got, want, rr.detail)
                        rr.witness_id = "assembly(%d,%d)" % (I + 1, J + 1)
                        return rr
                    C[(I + 1, J + 1)] = want
                    S[(I + 1, J + 1)] = INV.elem((r, z3.IntVal(I), z3.IntVal(J)))
            # tensor definitions through voigt.py's own index maps (as in C07): S_ijkl = s_IJ / (f_I f_J)
            f = lambda I: 1 if I <= 3 else 2

            def T(tab, scale):
                out = {}
                for i, j, k, l in itertools.product((1, 2, 3), repeat=4):
                    key = c_(i, j, k, l).voigt
                    a = tab[key]
                    out[(i, j, k, l)] = a / (f(key[0]) * f(key[1])) if scale else a
                return out
            Cn, Sn = T(C, False), T(S, True)
            iijj = lambda X: sum(X[(i, i, j, j)] for i in (1, 2, 3) for j in (1, 2, 3))
            ijij = lambda X: sum(X[(i, j, i, j)] for i in (1, 2, 3) for j in (1, 2, 3))
            KV, GV = iijj(Cn) / 9, (3 * ijij(Cn) - iijj(Cn)) / 30
            KR, GR = 1 / iijj(Sn), 15 / (6 * ijij(Sn) - 2 * iijj(Sn))
            spec = {"bm_V": KV, "bm_R": KR, "bm_VRH": (KV + KR) / 2, "G_V": GV, "G_R": GR, "G_VRH": (GV + GR) / 2}
            for nm, want in spec.items():
                if nm not in df.cols:
                    return core.refuted("callsite", "column %s is not written" % nm, witness_id="missing:" + nm)
                rr = smt.prove(df.cols[nm].elem((r,)) == want, facts, tier=tier)
                if rr.status != core.PROVED:
                    rr.detail = "column %s is not the tensor definition | %s" % (nm, rr.detail[:600])
                    rr.witness_id = "vrh:" + nm
                    return rr
            Kc = rec["K"]
            unit = {"V": cols["V"].elem((r,)) * Kc["ang3"], "F": cols["F"].elem((r,)) * Kc["ev"], "P": cols["P"].elem((r,)) * Kc["gpa"],
                    "density": cols["density"].elem((r,)) * Kc["gcm3"]}
            for nm, want in unit.items():
                rr = smt.prove(df.cols[nm].elem((r,)) == want, facts, tier=tier)
                if rr.status != core.PROVED:
                    rr.detail = "column %s after the unit block is %s, specified: converted exactly once by its own converter | %s" % (nm, df.cols[nm].elem((r,)), rr.detail[:300])
                    rr.witness_id = "unit:" + nm
                    return rr
            for nm in list(present):
                cn = "c%d%d" % nm
                if not df.cols[cn].elem((r,)).eq(cols[cn].elem((r,))):
                    return core.refuted("callsite", "the modulus column %s is modified by the block" % cn, witness_id="frame:" + cn)
            rho = unit["density"]
            vel = {"v_p": spec["bm_VRH"] + 4 * spec["G_VRH"] / 3, "v_s": spec["G_VRH"], "v_phi": spec["bm_VRH"]}
            for nm, mod in vel.items():
                if nm not in df.cols:
                    return core.refuted("callsite", "column %s is not written" % nm, witness_id="missing:" + nm)
                got = df.cols[nm].elem((r,))
                want = Kc["kms"] * symnp.SQRT(mod / rho)
                nz = symnp.SumNormalizer(facts, tier)
                rr = nz.decide(got == want, nz.facts(got == want), nm)
                if rr.status != core.PROVED:
                    rr.detail = "column %s is not TO_KMS(sqrt(modulus / density[g/cm3])) | %s" % (nm, rr.detail[:600])
                    rr.witness_id = "vel:" + nm
                    return rr
            return core.proved("z3", "lines %d-%d of cli/static.py executed on a symbolic table: matrix handed to inv = symmetric assembly of the %d columns "
                                     "(0 elsewhere), six averages = tensor definitions of it and its inverse, V/F/P/density converted once, "
                                     "v = TO_KMS(sqrt(modulus/density))" % (rec["span"][0], rec["span"][1], len(present)),
                               sample="forall rows r: bm_V[r] == C_iijj/9, G_V == (3C_ijij - C_iijj)/30, bm_R == 1/S_iijj, G_R == 15/(6S_ijij - 2S_iijj), "
                                      "v_p == K_kms*sqrt((K_VRH + 4G_VRH/3)/(K_gcm3*rho))")
        s.oblige("C18.vrh_block[%s]" % label, ob, ["cli/static.main (VRH, unit and velocity statements, extracted by AST)"])
    check(full, "all 21 columns")
    check(ortho, "nine orthotropic columns")

    def canary():
        # a table in which c13 is missing but c23 present must not give the same K_V as the full one: perturbed spec (c23 read for c13)
        df, rec, cols, n = run_vrh_block(static, full)
        r = z3.Int("r")
        g = lambda a, b: cols["c%d%d" % (a, b)].elem((r,))
        wrong = (g(1, 1) + g(2, 2) + g(3, 3) + 2 * (g(1, 2) + g(2, 3) + g(2, 3))) / 9
        return smt.prove(df.cols["bm_V"].elem((r,)) == wrong, [r >= 0], tier=tier)
    s.canary("C18.canary.K_V_with_c23_twice", canary)

    def constants():
        import importlib as _il; U = _il.import_module("cij.util.units")
        from oracles import phonon as oracle
        bohr, ry, amu = float(oracle.BOHR_M) if hasattr(oracle, "BOHR_M") else 5.29177210903e-11, float(oracle.RY_J), 1.66053906660e-27
        want = {"_to_ang3": (bohr * 1e10) ** 3, "_to_ev": ry / 1.602176634e-19, "_to_gpa": ry / bohr ** 3 / 1e9,
                "_to_gcm3": amu * 1e3 / (bohr * 1e2) ** 3, "_to_kms": 1.0}
        bad = []
        for nm, w in want.items():
            got = float(getattr(U, nm)(1.0))
            if abs(got - w) > 2e-8 * abs(w):
                bad.append("%s(1) = %r, independent value %r" % (nm, got, w))
            got2 = float(numpy.asarray(getattr(U, nm)(numpy.array([2.0, 3.0])))[1])
            if abs(got2 - 3 * w) > 6e-8 * abs(w):
                bad.append("%s is not linear: %r" % (nm, got2))
        if bad:
            return core.refuted("finite", "; ".join(bad), witness_id="constants", replay={"reproduced": True, "observed": bad})
        return core.proved("finite", "the five converters are multiplications by bohr^3->A^3, Ry->eV, Ry/bohr^3->GPa, amu/bohr^3->g/cm^3, "
                                     "sqrt(GPa/(g/cm^3))->km/s = 1 (CODATA-2018 / exact SI values, 2e-8)")
    s.oblige("C18.unit_constants", constants, ["cij.util.units._to_ang3/_to_ev/_to_gpa/_to_gcm3/_to_kms"], kind="finite")


# ----------------------------------------------------------------------------------------------------------------------
# the EoS / mode / static-table statements of the callback: cut out of main's AST (from the statement that reads the volumes off the table up to, not including, the VRH
# block), compiled UNCHANGED and executed on recording stubs.  Every value is an expression tree (X); the obligations compare trees: which fit / derivative / interpolation
# is applied to what, in each of the three modes, with and without static table, crystal system and cell-mass option.  Dropped by the extraction: file reading and the
# definitions of the two helper closures fit_modulus / v2p1d (recorded as calls; their bodies are exercised by the bounded run), the VRH block (own obligation), sampling, printing.
class X:
    """expression tree with structural equality"""

    def __init__(self, op, *args):
        self.op, self.args = op, args

    def key(self):
        return (self.op,) + tuple(a.key() if isinstance(a, X) else a for a in self.args)

    def __repr__(self):
        return "%s(%s)" % (self.op, ", ".join(repr(a) for a in self.args)) if self.args else str(self.op)

    def _b(self, op, o, swap=False):
        return X(op, o, self) if swap else X(op, self, o)

    def __add__(self, o): return self._b("+", o)
    def __radd__(self, o): return self._b("+", o, True)
    def __sub__(self, o): return self._b("-", o)
    def __rsub__(self, o): return self._b("-", o, True)
    def __mul__(self, o): return self._b("*", o)
    def __rmul__(self, o): return self._b("*", o, True)
    def __truediv__(self, o): return self._b("/", o)
    def __rtruediv__(self, o): return self._b("/", o, True)
    def __neg__(self): return X("neg", self)
    def __call__(self, *a): return X("call", self, *a)
    def to_numpy(self, *a, **k): return self

    truth = None          # option values that are given are non-zero numbers

    def __bool__(self):
        if self.truth is not None:
            return self.truth
        raise core.OutsideSubset("a branch on the value %r" % (self,))

    @property
    def T(self):
        if self.op == "pairs":
            return (X("first", self), X("second", self))
        return X("T", self)

    def __iter__(self):
        raise core.OutsideSubset("iteration over the value %r" % (self,))


def given(name):
    x = X(name)
    x.truth = True
    return x


def same(a, b):
    ka = a.key() if isinstance(a, X) else a
    kb = b.key() if isinstance(b, X) else b
    return ka == kb


def extract_eos_block(static):
    import ast, inspect
    tree = ast.parse(open(inspect.getsourcefile(static)).read())
    main = [n for n in tree.body if isinstance(n, ast.FunctionDef) and n.name == "main"]
    if len(main) != 1:
        raise core.OutsideSubset("cli/static.py: function main not found")
    body = main[0].body

    def assigns(node, col):
        for a in ast.walk(node):
            if isinstance(a, ast.Assign):
                for t in a.targets:
                    if isinstance(t, ast.Subscript) and col in [c.value for c in ast.walk(t.slice) if isinstance(c, ast.Constant)]:
                        return True
        return False
    first = [i for i, st in enumerate(body) if isinstance(st, ast.Assign) and any(isinstance(t, ast.Name) and t.id == "volumes" for t in st.targets)]
    last = [i for i, st in enumerate(body) if isinstance(st, ast.If) and assigns(st, "bm_V")]
    if len(first) != 1 or len(last) != 1 or first[0] >= last[0]:
        raise core.OutsideSubset("cli/static.py: the EoS / mode statements are not where the extraction expects them (between `volumes = ...` and the VRH block)")
    stmts = body[first[0]:last[0]]
    return compile(ast.Module(body=stmts, type_ignores=[]), inspect.getsourcefile(static), "exec"), (stmts[0].lineno, stmts[-1].end_lineno)


def run_eos_block(static, interp, table, system, cellmass):
    import types
    code, span = extract_eos_block(static)
    rec = {"span": span, "fit": [], "fill": [], "frames": []}

    class Loc:
        def __init__(self, df): self.df = df

        def _col(self, k):
            if not (isinstance(k, tuple) and len(k) == 2 and k[0] == slice(None) and isinstance(k[1], str)):
                raise core.OutsideSubset("df.loc[%r]" % (k,))
            return k[1]

        def __getitem__(self, k): return self.df[self._col(k)]
        def __setitem__(self, k, v): self.df[self._col(k)] = v

    class DF:
        def __init__(self, cols, length, name):
            self.cols, self.length, self.name = dict(cols), length, name
            rec["frames"].append(self)
        @property
        def loc(self): return Loc(self)
        @property
        def columns(self): return list(self.cols)
        @property
        def shape(self): return (self.length, len(self.cols))

        def __getitem__(self, k):
            if k not in self.cols:
                raise KeyError(k)
            return self.cols[k]

        def __setitem__(self, k, v):
            self.cols[k] = v
    df0 = DF({"V": X("V_in"), "F": X("F_in")}, X("nv"), "input")

    def DataFrame(index=None, **kw):
        if kw or not (isinstance(index, X) and index.op == "range"):
            raise core.OutsideSubset("pandas.DataFrame(%r, %r)" % (index, kw))
        return DF({}, index.args[0], "grid")
    keys = [k for k in all_keys() if k.voigt in ((1, 1), (1, 2), (4, 4))]
    input02 = None
    if table:
        input02 = types.SimpleNamespace(cellmass=X("cellmass_table"), volumes=[types.SimpleNamespace(volume=X("Vtab", i), static_elastic_modulus={k: X("tab", "c%d%d" % k.voigt, i) for k in keys})
                                                                              for i in range(3)])

    def np_array(x):
        if isinstance(x, list) and x and all(isinstance(t, tuple) and len(t) == 2 for t in x):
            return X("pairs", tuple(t[0].key() for t in x), tuple(t[1].key() for t in x))
        raise core.OutsideSubset("numpy.array(%r)" % (x,))
    npstub = types.SimpleNamespace(linspace=lambda a, b, n: X("linspace", a, b, n), min=lambda a: X("min", a), max=lambda a: X("max", a), gradient=lambda a: X("gradient", a), array=np_array,
                                   zeros=lambda *a, **k: (_ for _ in ()).throw(core.OutsideSubset("numpy.zeros in the EoS block")))

    def fit_modulus(volumes, v_array, moduli, order=2):
        rec["fit"].append((volumes, v_array, moduli, order))
        return X("fit", volumes, v_array, moduli, order)

    def fill_cij(df, system_):
        rec["fill"].append((df, system_, dict(df.cols)))
        return df
    ns = {"numpy": npstub, "pandas": types.SimpleNamespace(DataFrame=DataFrame), "df": df0, "interp": interp, "ntv": X("ntv"), "v_ratio": X("v_ratio"), "p_min": X("p_min"),
          "delta_p": X("delta_p"), "cellmass": (given("cellmass_opt") if cellmass else None), "system": system, "input02": input02, "fit_modulus": fit_modulus,
          "v2p1d": lambda x, p_old, p_new: X("v2p1d", x, p_old, p_new), "InterpolatedUnivariateSpline": lambda x, y: X("spline", x, y), "_from_gpa": lambda a: X("from_gpa", a),
          "fill_cij": fill_cij, "range": lambda n: X("range", n), "logger": types.SimpleNamespace(warning=lambda *a, **k: None, info=lambda *a, **k: None, debug=lambda *a, **k: None)}
    exec(code, ns)
    return ns["df"], rec, keys


def all_keys():
    from cij.util import c_
    return [c_(i, j) for i in range(1, 7) for j in range(i, 7)]


def eos_obligation(static):
    n = 0
    for interp in ("none", "volume", "pressure"):
        for table in (False, True):
            for system in ((None, "cubic") if table else (None,)):
                for cellmass in (False, True):
                    n += 1
                    df, rec, keys = run_eos_block(static, interp, table, system, cellmass)
                    where = "mode %s, %s table, system %s, cell-mass option %s" % (interp, "with" if table else "without", system, "given" if cellmass else "absent")
                    vol, F = X("V_in"), X("F_in")
                    grid = X("linspace", X("min", vol) / X("v_ratio"), X("max", vol) * X("v_ratio"), X("ntv"))
                    f_fit = X("fit", vol, grid, F, 2)
                    p_fit = X("neg", X("gradient", f_fit)) / X("gradient", grid)
                    if interp == "none":
                        want = {"V": vol, "F": F, "P": X("call", X("spline", grid, p_fit), vol)}
                        length = X("nv")
                    elif interp == "volume":
                        want = {"V": grid, "F": f_fit, "P": p_fit}
                        length = X("ntv")
                    else:
                        pg = X("linspace", X("from_gpa", X("p_min")), X("from_gpa", X("p_min") + X("delta_p") * (X("ntv") - 1)), X("ntv"))
                        want = {"V": X("v2p1d", grid, p_fit, pg), "F": X("v2p1d", f_fit, p_fit, pg), "P": pg}
                        length = X("ntv")

                    def bad(msg, wid):
                        return core.refuted("callsite", "%s: %s" % (where, msg), witness_id="eos:%s:%s" % (interp, wid))
                    if not same(df.length, length):
                        return bad("the table has %r rows, specified %r" % (df.length, length), "rows")
                    cols_now = df.cols if not rec["fill"] else rec["fill"][0][2]
                    for c, w in want.items():
                        if c not in cols_now or not same(cols_now[c], w):
                            return bad("column %s is %r, specified %r" % (c, cols_now.get(c), w), c)
                    Vrow = want["V"]
                    if table:
                        tabV = tuple(X("Vtab", i).key() for i in range(3))
                        for k in keys:
                            name = "c%d%d" % k.voigt
                            tabC = tuple(X("tab", name, i).key() for i in range(3))
                            got = cols_now.get(name)
                            ok = isinstance(got, X) and got.op == "fit" and len(got.args) == 4 and same(got.args[1], Vrow) and got.args[3] == 2 and \
                                isinstance(got.args[0], X) and isinstance(got.args[2], X) and got.args[0].op == "first" and got.args[2].op == "second" and \
                                same(got.args[0].args[0], got.args[2].args[0]) and got.args[0].args[0].args == (tabV, tabC)
                            if not ok:
                                return bad("column %s is %r, specified: the finite-strain fit of the table's (volume, %s) pairs evaluated at the rows' volumes" % (name, got, name), name)
                    elif any(c.startswith("c") and c[1:].isdigit() for c in cols_now):
                        return bad("modulus columns without a static table", "spurious")
                    if (system is not None) != bool(rec["fill"]) or (rec["fill"] and rec["fill"][0][1] != system):
                        return bad("symmetry filling called %d time(s) with %r" % (len(rec["fill"]), [f[1] for f in rec["fill"]]), "fill")
                    dens = df.cols.get("density")
                    want_d = (X("cellmass_opt") / Vrow) if cellmass else ((X("cellmass_table") / Vrow) if table else None)
                    if (want_d is None) != (dens is None) or (dens is not None and not same(dens, want_d)):
                        return bad("density column is %r, specified %r (the cell-mass option overrides the table's cell mass)" % (dens, want_d), "density")
    return core.proved("callsite", "%d combinations of mode x table x crystal system x cell-mass option: V / F / P are the fitted energy, -dF/dV and the requested grid (none: "
                                   "spline of the fitted pressure at the input volumes; volume: the expanded grid; pressure: v2p of the VOLUME and of the ENERGY onto linspace(p_min, "
                                   "p_min + delta_p (ntv - 1), ntv)), each modulus column is the fit of the table's own (volume, component) pairs at the rows' volumes, density = "
                                   "(option or table cell mass) / V, the crystal system is handed to fill_cij exactly when given" % n)


def run(s):
    from click.testing import CliRunner
    static = importlib.import_module("cij.cli.static")
    vrh_obligations(s, static)
    s.oblige("C18.eos_and_table_block(call sites, 18 option combinations)", lambda: eos_obligation(static),
             ["cli/static.main (EoS, mode and static-table statements, extracted by AST)"], kind="finite",
             fallback=lambda: {"reproduced": False, "note": "bounded run C18.run_static_table decides"})
    s.assume("A-QHA (least-squares fit, eulerian strain, v2p), A-PANDAS, A-CLICK, scipy spline")
    s.undecided_part("the numerics behind the recorded calls (finite-strain fit, numpy.gradient, spline, v2p), --delta-p-sample and printing: bounded run-time contract on the printed table only")
    rnd = random.Random(s.seed)
    n = 36 if s.tier == "quick" else 360
    fails, evals, distinct = [], 0, 0
    tmp = tempfile.mkdtemp(prefix="c18_")
    try:
        for t in range(n):
            nv = rnd.randint(6, 11)
            order = rnd.choice(["descending", "descending", "ascending", "shuffled"])
            V = numpy.linspace(rnd.uniform(700, 1400), rnd.uniform(450, 650), nv)
            if order == "ascending":
                V = V[::-1].copy()
            elif order == "shuffled":
                V = numpy.array(rnd.sample(list(V), nv))
            Vref = float(rnd.uniform(V.min(), V.max()))
            a0, a1, a2 = rnd.uniform(-40, -5), rnd.uniform(-0.5, 0.5), rnd.uniform(5, 40)
            Efun = lambda v: a0 + a1 * strain(Vref, v) + a2 * strain(Vref, v) ** 2          # exactly quadratic in Eulerian strain (any reference)
            dEdV = lambda v: (a1 + 2 * a2 * strain(Vref, v)) * (-(1.0 / 3.0) * Vref ** (2.0 / 3.0) * v ** (-5.0 / 3.0))
            # option combinations are a covering design: every (mode, table variant) pair within 9 consecutive runs, the cell-mass option with and without a
            # table, the sampling option with and without a crystal system, two expansion ratios
            tv = (t // 3) % 3                        # 0: table + crystal system, 1: table, 2: no table
            use_table = tv != 2
            # crystal systems: cubic, and (every other block of nine) trigonal7 with WEAK normal-shear couplings c14, c15 (a fraction of a GPa next to moduli of
            # hundreds of GPa -- tabulated, non-zero, and therefore reported like every other component, together with what the system derives from them)
            system = ("trigonal7" if (t // 9) % 2 == 1 else "cubic") if tv == 0 else None
            mass_tab = round(rnd.uniform(50, 400), 4)
            cellmass = round(rnd.uniform(50, 400), 3) if (t + t // 3) % 2 == 0 else None
            vr = 1.2 if (t // 9) % 2 == 0 else 1.35
            sample = (3, 5, 7, 6)[(t // 6) % 4] if (t % 3 == 2 and (t // 3) % 2 == 0) else None        # never a power of two: doubling a decimal is exact, tripling is not
            table = None
            mods = {}
            if use_table:
                names = ["c11", "c12", "c44"] if system == "cubic" else ["c11", "c33", "c12", "c13", "c44", "c14", "c15"] if system == "trigonal7" else \
                    ["c11", "c22", "c33", "c12", "c13", "c23", "c44", "c55", "c66"]
                # the table has ITS OWN volumes: the input volumes, the same in another order, or a different number of other volumes (three more rows)
                tvar = (t // 2) % 3
                Vt = V.copy() if tvar == 0 else numpy.array(rnd.sample(list(V), nv)) if tvar == 1 else numpy.linspace(V.max() * 1.02, V.min() * 0.97, nv + 3)
                raw = {}
                for k, nm in enumerate(names):
                    b0 = (300.0 if nm[1] == nm[2] and nm[1] in "123" else 90.0 if nm[1] in "123" and nm[2] in "123" else 70.0) * (1 + 0.05 * k)
                    b1, b2, b3 = rnd.uniform(200, 900), rnd.uniform(-500, 500), rnd.uniform(-4000, 4000)
                    if nm in ("c14", "c15") and system == "trigonal7":
                        weak = 4e-3 if nm == "c14" else -6e-4
                        b0, b1, b2, b3 = b0 * weak, b1 * weak, b2 * weak, b3 * weak
                    # NOT quadratic in strain (cubic term): the reported modulus is the second-order least-squares fit of ALL tabulated rows, evaluated at the row's volume
                    raw[nm] = (lambda v, b0=b0, b1=b1, b2=b2, b3=b3: b0 + b1 * strain(Vref, v) + b2 * strain(Vref, v) ** 2 + b3 * strain(Vref, v) ** 3)
                    vals_t = numpy.array([float("%.10f" % raw[nm](v)) for v in Vt])
                    coef = numpy.polyfit(strain(Vt[0], Vt), vals_t, 2)
                    mods[nm] = (lambda v, coef=coef, v0=Vt[0]: numpy.polyval(coef, strain(v0, v)))
                table = (names, Vt, [[raw[nm](v) for nm in names] for v in Vt])
            write_inputs(tmp, V, [Efun(v) for v in V], table, mass_tab, notation=(t // 4) % 3)
            mode = ["none", "volume", "pressure"][t % 3]
            ntv = rnd.choice([11, 51, 201, 401]) if mode != "none" else rnd.choice([101, 201, 401])
            args = [os.path.join(tmp, "input01")] + ([os.path.join(tmp, "input02")] if use_table else []) + ["-I", mode, "-n", str(ntv)]
            pmin, dp = 0.0, 1.0
            if mode == "pressure":
                pgrid = -numpy.array([dEdV(v) for v in numpy.linspace(V.min(), V.max(), 50)]) * GPA
                lo, hi = max(0.0, float(pgrid.min()) + 1), float(pgrid.max()) - 1
                ntv = rnd.choice([11, 21, 41])
                pmin = round(lo + 0.1 * (hi - lo), 2)
                dp = max(round(0.7 * (hi - lo) / (ntv - 1), 3), 0.001)
                if sample:
                    # the sampling step is a RATIO of two printed decimals: take, in turn, steps whose floating-point quotient falls just below / just above / on
                    # the integer (0.6 / 0.2 = 2.9999999999999996), all of which request every sample-th row
                    kind = (t // 6) % 3
                    for k_ in range(200):
                        cand = round(dp + 0.001 * k_, 3)
                        quo = float(str(round(sample * cand, 6))) / float(str(cand))
                        if (quo < sample, quo > sample, quo == sample)[kind]:
                            dp = cand
                            break
                args = args[:-1] + [str(ntv), "--p-min", str(pmin), "--delta-p", str(dp)]
                if sample:
                    args += ["--delta-p-sample", str(round(sample * dp, 6))]
            if vr != 1.2:
                args += ["--v-ratio", str(vr)]
            if system:
                args += ["-s", system]
            if cellmass:
                args += ["--cellmass", str(cellmass)]
            evals += 1
            distinct += 1
            res = CliRunner().invoke(static.main, args)
            if res.exit_code != 0:
                fails.append({"witness_id": "static-exit:%d" % t, "input": {"args": args[2:], "volume_order": order}, "observed": "exit %s: %r" % (res.exit_code, res.exception),
                              "expected": "a table"})
                break
            df = parse(res.output)
            Vau = df["V"].to_numpy() / ANG3
            msg = None
            h = (V.max() * vr - V.min() / vr) / (ntv - 1)          # the EoS grid has ntv points in every mode
            # P comes out of a central difference of the fitted energy on the EoS grid: its truncation error is h^2 |d3E/dV3| / 6 on the REPORTED volume range (which
            # extends beyond the input volumes by the expansion ratio, where the curvature is largest), not a fraction of the pressure at the input volumes
            fine = numpy.linspace(min(Vau.min(), V.min() / vr), max(Vau.max(), V.max() * vr), 2001)
            d1 = numpy.array([dEdV(v) for v in fine])
            d3 = numpy.gradient(numpy.gradient(d1, fine), fine)
            pin = abs(numpy.array([dEdV(v) for v in V])).max() * GPA
            scaleP = max(abs(d1).max() * GPA, pin)
            tolP = 2e-3 * scaleP + 3.0 * (h ** 2 / 6.0) * abs(d3).max() * GPA + pin * 30 * (h / V.mean()) ** 2
            Pexact = -numpy.array([dEdV(v) for v in Vau]) * GPA
            inner = slice(2, -2) if mode == "volume" else slice(None)
            if mode == "none":
                if len(df) != nv or not numpy.allclose(Vau, V, rtol=1e-6) or not numpy.allclose(df["F"].to_numpy(), numpy.array([Efun(v) for v in V]) * RY_EV, rtol=1e-5, atol=1e-5):
                    msg = "mode none: rows are not the input volumes / energies in A^3 and eV"
            elif mode == "volume":
                want = numpy.linspace(V.min() / vr, V.max() * vr, ntv)
                if len(df) != ntv or not numpy.allclose(Vau, want, rtol=1e-6):
                    msg = "mode volume: volume grid differs from linspace(min/%g, max*%g, %d)" % (vr, vr, ntv)
            else:
                want = (pmin + dp * numpy.arange(ntv))[::(sample or 1)]
                if len(df) != len(want) or not numpy.allclose(df["P"].to_numpy(), want, rtol=1e-6, atol=1e-6):
                    msg = "mode pressure: rows are not at the requested%s pressures" % (" (every %d-th)" % sample if sample else "")
            if not msg and mode != "none" and not numpy.allclose(df["F"].to_numpy()[inner], numpy.array([Efun(v) for v in Vau])[inner] * RY_EV, rtol=0,
                                                                 atol=1e-4 * abs(a0) * RY_EV + (tolP / GPA * RY_EV * 5 * h if mode == "pressure" else 0)):
                msg = "F is not the second-order finite-strain fit of the input energies at the reported V (max dev %.3g eV; volumes listed %s)" % (
                    float(numpy.abs(df["F"].to_numpy() - numpy.array([Efun(v) for v in Vau]) * RY_EV)[inner].max()), order)
            if not msg and not numpy.allclose(df["P"].to_numpy()[inner], Pexact[inner], rtol=0, atol=tolP):
                msg = "P is not -dF_fit/dV at the reported V (max dev %.3g GPa, tolerance %.3g; volumes listed %s)" % (float(numpy.abs(df["P"].to_numpy() - Pexact)[inner].max()), tolP, order)
            if not msg and use_table:
                for nm in table[0]:
                    if nm not in df.columns:
                        msg = "the tabulated component %s (largest tabulated magnitude %.3g GPa) is missing from the reported table" % (
                            nm, max(abs(r[table[0].index(nm)]) for r in table[2]))
                        break
                    got = df[nm].to_numpy()
                    wantm = numpy.array([mods[nm](v) for v in Vau])
                    if not numpy.allclose(got, wantm, rtol=1e-5, atol=1e-4):
                        msg = "%s is not the finite-strain fit of the static table at the row's volume (max dev %.3g GPa; table rows in %s order)" % (
                            nm, float(numpy.abs(got - wantm).max()), "input" if numpy.array_equal(table[1], V) else "another")
                        break
                if not msg and system == "cubic":
                    for a_, b_ in (("c22", "c11"), ("c33", "c11"), ("c13", "c12"), ("c23", "c12"), ("c55", "c44"), ("c66", "c44")):
                        if a_ not in df.columns or not numpy.allclose(df[a_], df[b_], rtol=1e-9):
                            msg = "crystal system option not applied: %s != %s" % (a_, b_)
                            break
                if not msg and system == "trigonal7":
                    for a_, sg, b_ in (("c22", 1, "c11"), ("c23", 1, "c13"), ("c55", 1, "c44"), ("c24", -1, "c14"), ("c56", 1, "c14"), ("c25", -1, "c15"), ("c46", -1, "c15")):
                        if a_ not in df.columns or not numpy.allclose(df[a_], sg * df[b_], rtol=1e-9, atol=1e-9):
                            msg = "crystal system option not applied: %s != %s%s" % (a_, "-" if sg < 0 else "", b_)
                            break
                    if not msg and ("c66" not in df.columns or not numpy.allclose(df["c66"], (df["c11"] - df["c12"]) / 2, rtol=1e-6, atol=1e-4)):
                        msg = "crystal system option not applied: c66 != (c11 - c12)/2"
                if not msg:
                    mass = cellmass if cellmass else mass_tab
                    rho = mass * AMU_G / (Vau * BOHR ** 3 * 1e6)                 # g/cm^3
                    if not numpy.allclose(df["density"].to_numpy(), rho, rtol=1e-5):
                        msg = "density is not (%s cell mass %.4g)/(N_A V) in g/cm^3: printed %.6g, expected %.6g" % ("requested" if cellmass else "table", mass, df["density"].iloc[0], rho[0])
                if not msg:
                    full = [c for c in df.columns if len(c) == 3 and c[0] == "c" and c[1:].isdigit()]
                    for i in (0, len(df) // 2, len(df) - 1):
                        KV, KR, K, GV, GR, G = vrh(df.iloc[i], full)
                        rho = df["density"].iloc[i]
                        want = {"bm_V": KV, "bm_R": KR, "bm_VRH": K, "G_V": GV, "G_R": GR, "G_VRH": G, "v_p": numpy.sqrt((K + 4 * G / 3) / rho), "v_s": numpy.sqrt(G / rho),
                                "v_phi": numpy.sqrt(K / rho)}
                        for kk, vv in want.items():
                            if not numpy.isclose(df[kk].iloc[i], vv, rtol=2e-5, equal_nan=True):
                                msg = "row %d: %s = %.6g, from the row's moduli and density %.6g" % (i, kk, df[kk].iloc[i], vv)
                                break
                        if msg:
                            break
            elif not msg and cellmass:
                rho = cellmass * AMU_G / (Vau * BOHR ** 3 * 1e6)
                if "density" not in df.columns or not numpy.allclose(df["density"].to_numpy(), rho, rtol=1e-5):
                    msg = "cell-mass option without table: density missing or wrong"
            if msg:
                fails.append({"witness_id": "static:%d:%s" % (t, mode), "input": {"mode": mode, "ntv": ntv, "volume_order": order, "table": bool(use_table), "system": system,
                                                                              "cellmass_option": cellmass, "table_cellmass": mass_tab, "args": args[2:]},
                              "observed": msg, "expected": "P = -dF_fit/dV, F = F_fit(V), units A^3/eV/GPa/g cm^-3, moduli = fit at the row's V, VRH and velocities from them"})
                break
    finally:
        shutil.rmtree(tmp, ignore_errors=True)
    s.bounded_standin("C18.run_static_table", "%d synthetic data sets (6-11 volumes listed descending / ascending / shuffled, energies and moduli exactly quadratic in Eulerian strain), "
                      "modes none / volume / pressure in turn, grid sizes 11-401, with/without static table, cubic system option, cell-mass option; seed %d" % (n, s.seed),
                      evals, distinct, fails, ["cli/static.main"])
    # "an optional crystal system is applied": the packaged relation tables are the Laue invariants (C08's obligation on the data files, registered here as well)
    from props import C08
    sub = core.SubSession(s, lambda n: n.replace("C08.", "C18.filling."), lambda n: n.startswith("C08.relations_equal_invariants["))
    sub.__dict__["relations_only"] = True
    sub.run(C08)
    s.min_obligations = 4


MANIFEST = {
    "engine": "symnp", "category": "other",
    "technique": "contract-based deductive verification of the mechanically extracted VRH / unit / velocity statements of the callback (executed unchanged on a "
                 "symbolic table, z3) and of its EoS / mode / static-table statements (executed unchanged on recording stubs, call-site obligations on expression trees over 18 "
                 "option combinations) + finite check of the unit constants; bounded run-time postcondition on the printed table for the rest",
    "text": "Proved for every table length and all values: the statements of `main` from the VRH block to the velocity block (extracted by AST from the current "
            "source, nothing rewritten; everything before and after is dropped and stated as such) hand numpy.linalg.inv the symmetric assembly of the "
            "modulus columns (0 where a column is absent), compute bm_V, bm_R, G_V, G_R as C_iijj/9, 1/S_iijj, (3C_ijij-C_iijj)/30, 15/(6S_ijij-2S_iijj) of "
            "that matrix and its inverse with Hill = mean, convert V, F, P and density exactly once with their own converters, leave the modulus columns "
            "untouched, and report v_p, v_s, v_phi = TO_KMS(sqrt(modulus / density[g/cm^3])); the five converters are linear with CODATA / exact-SI "
            "factors. The statements between reading the volumes off the table and the VRH block are cut out the same way and run on expression trees for every combination of mode x "
            "table x crystal system x cell-mass option: F_fit = fit(V_in, grid, F_in), P = -gradient(F_fit)/gradient(grid) on grid = linspace(min V / ratio, max V * ratio, ntv); mode "
            "none reports a spline of that pressure at the input volumes, mode volume the grid itself, mode pressure v2p of the volume AND of the energy onto linspace(p_min, p_min + "
            "delta_p (ntv - 1), ntv); every modulus column is the fit of the table's own (volume, component) pairs at the rows' volumes; density = (option, else table cell mass) / V; "
            "fill_cij is called exactly when a system is given. Bounded: the real command through click's CliRunner on synthetic inputs exactly quadratic in Eulerian strain -- P = -dF_fit/dV, "
            "F = F_fit(V), units, the three modes, moduli = fit of the table at the row's volume, VRH and velocities, system and cell-mass options.",
    "note": "A-NUMPY (linalg.inv = matrix inverse; zeros / slice assignment as modelled, cross-checked against real numpy), Reuss<=Hill<=Voigt is C07's Lean "
            "lemma on the same formulas. The helper closures fit_modulus / v2p1d, the spline, sampling and printing are recorded calls / bounded only. bounded: 36 (quick) / 360 (thorough) runs "
            "in a covering design of the options; never counted as discharged.",
}
