"""C18 -- run-static reports a consistent static EoS and elasticity table in every mode.

cli/static.py is one click callback whose helpers are closures and whose imports happen inside the body: there is no
function boundary to put a deductive contract on.  The contract is a postcondition on the printed table, evaluated at run
time on the real callback (bounded stand-in).
"""
import importlib, io, itertools, os, random, shutil, tempfile
import numpy
import pandas
from vf import core

LEVEL = "exploration"
EXPLANATION = "bounded stand-in: postcondition on the table printed by the real `run-static` callback for seeded synthetic inputs in all three modes; nothing is proved"
RY_J, BOHR, EV = 2.1798723611030e-18, 5.29177210903e-11, 1.602176634e-19
GPA = RY_J / BOHR ** 3 / 1e9
ANG3 = (BOHR * 1e10) ** 3
RY_EV = RY_J / EV
AMU_G = 1.0 / 6.02214076e23


def strain(v0, v):
    return ((v0 / v) ** (2.0 / 3.0) - 1.0) / 2.0


def write_inputs(tmp, V, E, table=None, mass=250.0):
    from cij.io.traditional import models, qha_input
    nv = len(V)
    vols = [models.VolumeData(0.0, float(V[i]), float(E[i]), [models.QPointData((0.0, 0.0, 0.0), [0.0, 0.0, 0.0])]) for i in range(nv)]
    qha_input.write_energy(os.path.join(tmp, "input01"), models.QHAInputData(nv, 1, 3, 1, 1, [models.QPointWeight((0.0, 0.0, 0.0), 1.0)], vols))
    if table is not None:
        cols, Vt, rows = table
        lines = ["title", "%.6f %d %.4f" % (Vt[0], len(Vt), mass), "V " + " ".join(cols)]
        for i in range(len(Vt)):
            lines.append("%.8f " % Vt[i] + " ".join("%.8f" % x for x in rows[i]))
        with open(os.path.join(tmp, "input02"), "w") as fp:
            fp.write("\n".join(lines) + "\n")


def parse(out):
    return pandas.read_table(io.StringIO(out), sep=r"\s+", index_col=0)


def vrh(row, names):
    C = numpy.zeros((6, 6))
    for n in names:
        i, j = int(n[1]) - 1, int(n[2]) - 1
        C[i, j] = C[j, i] = row[n]
    S = numpy.linalg.inv(C)
    KV = (C[0, 0] + C[1, 1] + C[2, 2] + 2 * (C[0, 1] + C[1, 2] + C[0, 2])) / 9
    GV = (C[0, 0] + C[1, 1] + C[2, 2] - (C[0, 1] + C[1, 2] + C[0, 2]) + 3 * (C[3, 3] + C[4, 4] + C[5, 5])) / 15
    KR = 1 / (S[0, 0] + S[1, 1] + S[2, 2] + 2 * (S[0, 1] + S[1, 2] + S[0, 2]))
    GR = 15 / (4 * (S[0, 0] + S[1, 1] + S[2, 2]) - 4 * (S[0, 1] + S[1, 2] + S[0, 2]) + 3 * (S[3, 3] + S[4, 4] + S[5, 5]))
    return KV, KR, (KV + KR) / 2, GV, GR, (GV + GR) / 2


def run(s):
    from click.testing import CliRunner
    static = importlib.import_module("cij.cli.static")
    s.assume("A-QHA (least-squares fit, eulerian strain, v2p), A-PANDAS, A-CLICK, scipy spline")
    s.undecided_part("everything: the command is a single callback without function boundaries; bounded run-time contract on its printed table only")
    rnd = random.Random(s.seed)
    n = 6 if s.tier == "quick" else 120
    fails, evals, distinct = [], 0, 0
    tmp = tempfile.mkdtemp(prefix="c18_")
    try:
        for t in range(n):
            nv = rnd.randint(6, 11)
            order = rnd.choice(["descending", "descending", "ascending", "shuffled"])
            V = numpy.linspace(rnd.uniform(700, 1400), rnd.uniform(450, 650), nv)
            if order == "ascending":
                V = V[::-1].copy()
            elif order == "shuffled":
                V = numpy.array(rnd.sample(list(V), nv))
            Vref = float(rnd.uniform(V.min(), V.max()))
            a0, a1, a2 = rnd.uniform(-40, -5), rnd.uniform(-0.5, 0.5), rnd.uniform(5, 40)
            Efun = lambda v: a0 + a1 * strain(Vref, v) + a2 * strain(Vref, v) ** 2          # exactly quadratic in Eulerian strain (any reference)
            dEdV = lambda v: (a1 + 2 * a2 * strain(Vref, v)) * (-(1.0 / 3.0) * Vref ** (2.0 / 3.0) * v ** (-5.0 / 3.0))
            use_table = (t % 4 != 3)                 # option combinations are cycled so that every tier covers table x cell-mass x mode
            system = rnd.choice([None, "cubic"]) if use_table else None
            mass_tab = round(rnd.uniform(50, 400), 4)
            cellmass = round(rnd.uniform(50, 400), 3) if t % 2 == 0 else None
            table = None
            mods = {}
            if use_table:
                names = ["c11", "c12", "c44"] if system == "cubic" else ["c11", "c22", "c33", "c12", "c13", "c23", "c44", "c55", "c66"]
                Vt = V.copy() if rnd.random() < 0.5 else numpy.array(rnd.sample(list(V), nv))
                for k, nm in enumerate(names):
                    b0 = (300.0 if nm[1] == nm[2] and nm[1] in "123" else 90.0 if nm[1] in "123" and nm[2] in "123" else 70.0) * (1 + 0.05 * k)
                    b1, b2 = rnd.uniform(200, 900), rnd.uniform(-500, 500)
                    mods[nm] = (lambda v, b0=b0, b1=b1, b2=b2: b0 + b1 * strain(Vref, v) + b2 * strain(Vref, v) ** 2)
                table = (names, Vt, [[mods[nm](v) for nm in names] for v in Vt])
            write_inputs(tmp, V, [Efun(v) for v in V], table, mass_tab)
            mode = ["none", "volume", "pressure"][t % 3]
            ntv = rnd.choice([11, 51, 201, 401]) if mode != "none" else rnd.choice([101, 201, 401])
            args = [os.path.join(tmp, "input01")] + ([os.path.join(tmp, "input02")] if use_table else []) + ["-I", mode, "-n", str(ntv)]
            pmin, dp = 0.0, 1.0
            if mode == "pressure":
                pgrid = -numpy.array([dEdV(v) for v in numpy.linspace(V.min(), V.max(), 50)]) * GPA
                lo, hi = max(0.0, float(pgrid.min()) + 1), float(pgrid.max()) - 1
                ntv = rnd.choice([11, 21, 41])
                pmin = round(lo + 0.1 * (hi - lo), 2)
                dp = round(0.7 * (hi - lo) / (ntv - 1), 3)
                args = args[:-1] + [str(ntv), "--p-min", str(pmin), "--delta-p", str(dp)]
            if system:
                args += ["-s", system]
            if cellmass:
                args += ["--cellmass", str(cellmass)]
            evals += 1
            distinct += 1
            res = CliRunner().invoke(static.main, args)
            if res.exit_code != 0:
                fails.append({"witness_id": "static-exit:%d" % t, "input": {"args": args[2:], "volume_order": order}, "observed": "exit %s: %r" % (res.exit_code, res.exception),
                              "expected": "a table"})
                break
            df = parse(res.output)
            Vau = df["V"].to_numpy() / ANG3
            msg = None
            h = (V.max() * 1.2 - V.min() / 1.2) / (ntv - 1)          # the EoS grid has ntv points in every mode
            scaleP = abs(numpy.array([dEdV(v) for v in V])).max() * GPA
            tolP = scaleP * (2e-3 + 30 * (h / V.mean()) ** 2)
            Pexact = -numpy.array([dEdV(v) for v in Vau]) * GPA
            inner = slice(2, -2) if mode == "volume" else slice(None)
            if mode == "none":
                if len(df) != nv or not numpy.allclose(Vau, V, rtol=1e-6) or not numpy.allclose(df["F"].to_numpy(), numpy.array([Efun(v) for v in V]) * RY_EV, rtol=1e-5, atol=1e-5):
                    msg = "mode none: rows are not the input volumes / energies in A^3 and eV"
            elif mode == "volume":
                want = numpy.linspace(V.min() / 1.2, V.max() * 1.2, ntv)
                if len(df) != ntv or not numpy.allclose(Vau, want, rtol=1e-6):
                    msg = "mode volume: volume grid differs from linspace(min/1.2, max*1.2, %d)" % ntv
            else:
                want = pmin + dp * numpy.arange(ntv)
                if len(df) != ntv or not numpy.allclose(df["P"].to_numpy(), want, rtol=1e-6, atol=1e-6):
                    msg = "mode pressure: rows are not at the requested pressures"
            if not msg and mode != "none" and not numpy.allclose(df["F"].to_numpy()[inner], numpy.array([Efun(v) for v in Vau])[inner] * RY_EV, rtol=0,
                                                                 atol=1e-4 * abs(a0) * RY_EV + (tolP / GPA * RY_EV * 5 * h if mode == "pressure" else 0)):
                msg = "F is not the second-order finite-strain fit of the input energies at the reported V (max dev %.3g eV; volumes listed %s)" % (
                    float(numpy.abs(df["F"].to_numpy() - numpy.array([Efun(v) for v in Vau]) * RY_EV)[inner].max()), order)
            if not msg and not numpy.allclose(df["P"].to_numpy()[inner], Pexact[inner], rtol=0, atol=tolP):
                msg = "P is not -dF_fit/dV at the reported V (max dev %.3g GPa, tolerance %.3g; volumes listed %s)" % (float(numpy.abs(df["P"].to_numpy() - Pexact)[inner].max()), tolP, order)
            if not msg and use_table:
                for nm in table[0]:
                    got = df[nm].to_numpy()
                    wantm = numpy.array([mods[nm](v) for v in Vau])
                    if not numpy.allclose(got, wantm, rtol=1e-5, atol=1e-4):
                        msg = "%s is not the finite-strain fit of the static table at the row's volume (max dev %.3g GPa; table rows in %s order)" % (
                            nm, float(numpy.abs(got - wantm).max()), "input" if numpy.array_equal(table[1], V) else "another")
                        break
                if not msg and system == "cubic":
                    for a_, b_ in (("c22", "c11"), ("c33", "c11"), ("c13", "c12"), ("c23", "c12"), ("c55", "c44"), ("c66", "c44")):
                        if a_ not in df.columns or not numpy.allclose(df[a_], df[b_], rtol=1e-9):
                            msg = "crystal system option not applied: %s != %s" % (a_, b_)
                            break
                if not msg:
                    mass = cellmass if cellmass else mass_tab
                    rho = mass * AMU_G / (Vau * BOHR ** 3 * 1e6)                 # g/cm^3
                    if not numpy.allclose(df["density"].to_numpy(), rho, rtol=1e-5):
                        msg = "density is not (%s cell mass %.4g)/(N_A V) in g/cm^3: printed %.6g, expected %.6g" % ("requested" if cellmass else "table", mass, df["density"].iloc[0], rho[0])
                if not msg:
                    full = [c for c in df.columns if len(c) == 3 and c[0] == "c" and c[1:].isdigit()]
                    for i in (0, len(df) // 2, len(df) - 1):
                        KV, KR, K, GV, GR, G = vrh(df.iloc[i], full)
                        rho = df["density"].iloc[i]
                        want = {"bm_V": KV, "bm_R": KR, "bm_VRH": K, "G_V": GV, "G_R": GR, "G_VRH": G, "v_p": numpy.sqrt((K + 4 * G / 3) / rho), "v_s": numpy.sqrt(G / rho),
                                "v_phi": numpy.sqrt(K / rho)}
                        for kk, vv in want.items():
                            if not numpy.isclose(df[kk].iloc[i], vv, rtol=2e-5, equal_nan=True):
                                msg = "row %d: %s = %.6g, from the row's moduli and density %.6g" % (i, kk, df[kk].iloc[i], vv)
                                break
                        if msg:
                            break
            elif not msg and cellmass:
                rho = cellmass * AMU_G / (Vau * BOHR ** 3 * 1e6)
                if "density" not in df.columns or not numpy.allclose(df["density"].to_numpy(), rho, rtol=1e-5):
                    msg = "cell-mass option without table: density missing or wrong"
            if msg:
                fails.append({"witness_id": "static:%d:%s" % (t, mode), "input": {"mode": mode, "ntv": ntv, "volume_order": order, "table": bool(use_table), "system": system,
                                                                              "cellmass_option": cellmass, "table_cellmass": mass_tab, "args": args[2:]},
                              "observed": msg, "expected": "P = -dF_fit/dV, F = F_fit(V), units A^3/eV/GPa/g cm^-3, moduli = fit at the row's V, VRH and velocities from them"})
                break
    finally:
        shutil.rmtree(tmp, ignore_errors=True)
    s.bounded_standin("C18.run_static_table", "%d synthetic data sets (6-11 volumes listed descending / ascending / shuffled, energies and moduli exactly quadratic in Eulerian strain), "
                      "modes none / volume / pressure in turn, grid sizes 11-401, with/without static table, cubic system option, cell-mass option; seed %d" % (n, s.seed),
                      evals, distinct, fails, ["cli/static.main"])
    s.min_obligations = 0


MANIFEST = {
    "engine": "rtc", "category": "exploration",
    "technique": "bounded stand-in: run-time postcondition on the table printed by the real run-static callback (no deductive obligation)",
    "text": "Not decided deductively (a single click callback with closure helpers and in-body imports: no function boundary for a contract). The real "
            "command is run through click's CliRunner on seeded synthetic inputs whose energies and moduli are exactly quadratic in Eulerian strain, "
            "and its printed table is checked against the property: P = -dF_fit/dV and F = F_fit(V) at the reported V, units A^3 / eV / GPa / g cm^-3, "
            "input volumes (none) / linspace grid (volume) / requested pressures (pressure), moduli = fit of the table at the row's volume, VRH "
            "averages and v_p, v_s, v_phi from the row's moduli and density, crystal-system and cell-mass options applied.",
    "note": "bounded: 6 (quick) / 120 (thorough) data sets; numerical-derivative tolerances scale with the grid step; never counted as discharged.",
}
