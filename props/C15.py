"""C15 -- output files carry the in-memory results on the requested grids, units and names."""
import importlib, io, itertools, os, shutil, tempfile, types, warnings
import numpy
import pandas
from vf import core
from contracts.nonshear_env import patched, duck_of

LEVEL = "other"
EXPLANATION = ("registry and writer paths of results_writer.py and the table call-sites of calculator.py decided by complete enumeration over "
               "the packaged rules x both bases with recording base objects (values tagged arrays, unit factors compared with independent "
               "constants); file round trip through the real writers on synthetic bases is a bounded stand-in")
RW = "results_writer."
RY_J, BOHR = 2.1798723611030e-18, 5.29177210903e-11
GPA_IND = RY_J / BOHR ** 3 / 1e9      # 1 Ry/bohr^3 in GPa, from CODATA-2018 values (independent of pint)
ANG3_IND = (BOHR * 1e10) ** 3         # 1 bohr^3 in A^3


def _pint_factor(a, b):
    from cij.util import convert_unit
    return float(convert_unit(a, b, 1.0))


# the factors the package's unit registry uses; compared with the independent values at 1e-7 (CODATA revisions differ at ~2e-9)
GPA = _pint_factor("rydberg / bohr ** 3", "GPa")
ANG3 = _pint_factor("bohr ** 3", "angstrom ** 3")

# specification table, from the property statement + documented keywords: keyword set -> (attribute, internal unit -> output factor, file pattern, kind)
SPEC = [
    ({"cij", "cij_s", "adiabatic_elastic_moduli"}, "modulus_adiabatic", GPA, "c{ij}s_{base}_gpa.txt", "ij"),
    ({"cij_t", "isothermal_elastic_moduli"}, "modulus_isothermal", GPA, "c{ij}t_{base}_gpa.txt", "ij"),
    ({"B_V", "Bm_V", "bm_V", "bulk_modulus_voigt"}, "bulk_modulus_voigt", GPA, "bm_V_{base}_gpa.txt", "value"),
    ({"B_R", "Bm_R", "bm_R", "bulk_modulus_reuss"}, "bulk_modulus_reuss", GPA, "bm_R_{base}_gpa.txt", "value"),
    ({"B_VRH", "Bm_VRH", "bm_VRH", "bulk_modulus_voigt_reuss_hill"}, "bulk_modulus_voigt_reuss_hill", GPA, "bm_VRH_{base}_gpa.txt", "value"),
    ({"G_V", "shear_modulus_voigt"}, "shear_modulus_voigt", GPA, "G_V_{base}_gpa.txt", "value"),
    ({"G_R", "shear_modulus_reuss"}, "shear_modulus_reuss", GPA, "G_R_{base}_gpa.txt", "value"),
    ({"G_VRH", "shear_modulus_voigt_reuss_hill"}, "shear_modulus_voigt_reuss_hill", GPA, "G_VRH_{base}_gpa.txt", "value"),
    ({"v_p", "vp", "primary_velocities"}, "primary_velocities", 1.0, "v_p_{base}_km_s.txt", "value"),
    ({"v_s", "vs", "secondary_velocities"}, "secondary_velocities", 1.0, "v_s_{base}_km_s.txt", "value"),
    ({"v", "V", "volumes"}, "volumes", ANG3, "v_{base}_ang3.txt", "value"),
    ({"p", "P", "pressures"}, "pressures", GPA, "p_{base}_gpa.txt", "value"),
]


def keys3():
    from cij.util import c_
    return [c_(1, 1), c_(1, 2), c_(4, 4), c_(1, 5)]


class RecBase:
    """recording base object: every property is a tagged array"""

    def __init__(self, name):
        self._base_name = name
        self.written = []
        n = 0
        for _, attr, _, _, kind in SPEC:
            n += 1
            if kind == "ij":
                # magnitudes of the internal units (Ry/bohr^3): 0.02 is 294 GPa; the last component is small but legitimate (-0.6 GPa), every available one is tabulated
                setattr(self, attr, {k: numpy.full((3, 2), (0.02, 0.004, 0.0007, -4.0e-5)[i] * (1.0 + 0.01 * n)) for i, k in enumerate(keys3())})
            else:
                setattr(self, attr, numpy.full((3, 2), 0.01 * n))

    def write_table(self, fname, value):
        self.written.append((fname, numpy.array(value, dtype=float)))


def run(s):
    rw = importlib.import_module("cij.io.output.results_writer")
    cal = importlib.import_module("cij.core.calculator")
    tier = s.tier
    s.trust("pint (conversion factors compared with exact-SI/CODATA constants)", "qha.basic_io.out.save_x_tv/save_x_tp, pandas (external)")
    s.assume("A-QHA: save_x_tv / save_x_tp write the given array with the given row/column labels, dropping the last four guard temperatures",
             "A-PINT/A-CONST", "A-PANDAS")
    s.undecided_part("byte-level formatting of the tables (pandas to_string): the bounded round trip re-reads the files")

    # ---------------- 1. registry [F over the packaged rules]
    def registry():
        if abs(GPA / GPA_IND - 1) > 1e-7 or abs(ANG3 / ANG3_IND - 1) > 1e-7:
            return core.refuted("finite", "unit registry: 1 Ry/bohr^3 = %r GPa (independent %r), 1 bohr^3 = %r A^3 (independent %r)" % (GPA, GPA_IND, ANG3, ANG3_IND),
                                witness_id="unit-constants", replay={"reproduced": True})
        w = rw.ResultsWriter(RecBase("tv"))
        reg = w.registry
        allkw = set().union(*[kw for kw, *_ in SPEC])
        if set(reg) != allkw:
            return core.refuted("finite", "keywords differ from the documented table: extra %s missing %s" % (sorted(set(reg) - allkw), sorted(allkw - set(reg))),
                                witness_id="registry-keys", replay={"reproduced": True})
        for kws, attr, factor, pattern, kind in SPEC:
            rules = {id(reg[k]) for k in kws}
            if len(rules) != 1:
                return core.refuted("finite", "aliases %s map to different rules" % sorted(kws), witness_id="registry-alias:" + attr, replay={"reproduced": True})
            r = reg[next(iter(kws))]
            from cij.util import convert_unit
            f = float(convert_unit(r.unit_internal, r.unit, 1.0))
            if r.prop != attr or r.fname_pattern != pattern or r.var_type != ("ij_value" if kind == "ij" else "value") or abs(f - factor) > 1e-9 * factor:
                return core.refuted("finite", "rule for %s: prop=%r pattern=%r type=%r factor=%r; specified %r %r %r %r" % (sorted(kws), r.prop, r.fname_pattern, r.var_type, f,
                                                                                                                      attr, pattern, kind, factor),
                                    witness_id="registry-rule:" + attr, replay={"reproduced": True})
        return core.proved("finite", "%d keywords / 12 rules: aliases share one rule; attribute, file pattern, kind and unit factor (GPa, A^3, km/s) equal the documented table" % len(reg))
    s.oblige("C15.registry", registry, [RW + "ResultsWriter._init_rules", RW + "DEFAULT_WRITER_RULES", "writer_rules.yml"], kind="finite")

    # ---------------- 2. writer paths, every keyword x both bases x {plain, fname override, unit override}
    def writer_paths():
        n = 0
        for base_name in ("tv", "tp"):
            for kws, attr, factor, pattern, kind in SPEC:
                for kw in sorted(kws):
                    for cfg in (kw, {"keyword": kw}, {"keyword": kw, "fname": "user_name.txt"}, {"keyword": kw, "unit": None}):
                        if isinstance(cfg, dict) and "unit" in cfg:
                            # a unit override of the right dimension on EVERY rule: moduli and pressures in kbar, volumes in nm^3, velocities in m/s
                            alt, mult = ("kbar", 10.0) if factor == GPA else ("nm^3", 1e-3) if factor == ANG3 else ("m/s", 1e3)
                            cfg = {"keyword": kw, "unit": alt}
                            fac = factor * mult
                        else:
                            fac = factor
                        base = RecBase(base_name)
                        try:
                            rw.ResultsWriter(base).write(cfg)
                        except Exception as e:
                            return core.refuted("finite", "write(%r) on the %s base raises %r" % (cfg, base_name, e), witness_id="writer-raise:%s" % kw, replay={"reproduced": True})
                        n += 1
                        src = getattr(base, attr)
                        if kind == "ij":
                            want = [((cfg["fname"] if isinstance(cfg, dict) and "fname" in cfg else pattern.format(base=base_name, ij="%d%d" % k.voigt)), src[k] * fac) for k in keys3()]
                        else:
                            want = [((cfg["fname"] if isinstance(cfg, dict) and "fname" in cfg else pattern.format(base=base_name)), src * fac)]
                        got = base.written
                        if len(got) != len(want) or any(g[0] != w[0] or not numpy.allclose(g[1], w[1], rtol=1e-9) for g, w in zip(got, want)):
                            return core.refuted("finite", "write(%r) on the %s base writes %s; specified %s" % (cfg, base_name, [(g[0], float(g[1].ravel()[0])) for g in got],
                                                                                                                 [(w[0], float(w[1].ravel()[0])) for w in want]),
                                                witness_id="writer:%s:%s" % (kw, base_name), replay={"reproduced": True})
        return core.proved("finite", "%d (keyword/alias, base, configuration) cases: one table per value rule / per available component for ij rules, documented file name "
                                     "or the user's, in-memory array times the unit factor, unit override honoured" % n)
    s.oblige("C15.writer_paths", writer_paths, [RW + "ResultsWriterRule.write", RW + "ResultsWriterRule.write_variable", RW + "ResultsWriterRule.write_ij_variable",
                                                 RW + "ResultsWriterRule._format_ij", RW + "ResultsWriter.write"], kind="finite")

    # ---------------- 3. table call-sites and write_output
    def table_callsites():
        calls = []
        t, v, p = numpy.arange(7.0) * 100, numpy.array([900.0, 800.0, 700.0]), numpy.array([0.0, 0.001, 0.002])
        tsample = numpy.array([0.0, 300.0])
        qha = types.SimpleNamespace(volume_base=types.SimpleNamespace(v_array=v, t_array=t, t_sample_array=tsample),
                                    pressure_base=types.SimpleNamespace(p_array=p, t_array=t, t_sample_array=tsample))
        calc = types.SimpleNamespace(qha_calculator=qha)
        val = numpy.arange(21.0).reshape(7, 3)
        with patched(cal, save_x_tv=lambda *a: calls.append(("tv",) + a), save_x_tp=lambda *a: calls.append(("tp",) + a)):
            cal.CijVolumeBaseInterface(calc).write_table("f_tv.txt", val)
            cal.CijPressureBaseInterface(calc).write_table("f_tp.txt", val)
        if len(calls) != 2:
            return core.refuted("callsite", "%d table writes" % len(calls), witness_id="table-calls", replay={"reproduced": True})
        a, b = calls
        ok_tv = a[0] == "tv" and a[1] is val and numpy.array_equal(a[2], t) and numpy.allclose(a[3], v * ANG3, rtol=1e-9) and numpy.array_equal(a[4], t) and a[5] == "f_tv.txt"
        ok_tp = b[0] == "tp" and b[1] is val and numpy.array_equal(b[2], t) and numpy.allclose(b[3], p * GPA, rtol=1e-9) and numpy.allclose(b[4], p * GPA, rtol=1e-9) and b[5] == "f_tp.txt"
        if not ok_tv:
            return core.refuted("callsite", "volume-base table: save_x_tv called with rows %s, columns %s, row filter %s" % (a[2], a[3], a[4]), witness_id="table-tv", replay=native_table(cal, "tv"))
        if not ok_tp:
            return core.refuted("callsite", "pressure-base table: save_x_tp called with rows %s, columns %s, column filter %s" % (b[2], b[3], b[4]), witness_id="table-tp",
                                replay=native_table(cal, "tp"))
        # write_output: configured bases with configured variable lists, in order
        log = []
        me = duck_of(cal.Calculator, config={"output": {"pressure_base": ["a", "b"], "volume_base": ["c"]}},
                                   pressure_base=types.SimpleNamespace(write_variables=lambda v: log.append(("tp", v))),
                                   volume_base=types.SimpleNamespace(write_variables=lambda v: log.append(("tv", v))))
        cal.Calculator.write_output(me)
        me2 = duck_of(cal.Calculator, config={"output": {"volume_base": ["c"]}}, pressure_base=types.SimpleNamespace(write_variables=lambda v: log.append(("tp2", v))),
                                    volume_base=types.SimpleNamespace(write_variables=lambda v: log.append(("tv2", v))))
        cal.Calculator.write_output(me2)
        if log != [("tp", ["a", "b"]), ("tv", ["c"]), ("tv2", ["c"])]:
            return core.refuted("callsite", "write_output: %r" % (log,), witness_id="write-output", replay={"reproduced": True})
        seen = []
        with patched(cal, ResultsWriter=lambda base: types.SimpleNamespace(write=lambda c: seen.append((base, c)))):
            vb = cal.CijVolumeBaseInterface(calc)
            vb.write_variables(["x", {"keyword": "y"}])
        if [c for _, c in seen] != ["x", {"keyword": "y"}] or any(bse is not vb for bse, _ in seen):
            return core.refuted("callsite", "write_variables: %r" % (seen,), witness_id="write-variables", replay={"reproduced": True})
        return core.proved("callsite", "volume base -> save_x_tv(value, T, V in A^3, T, name); pressure base -> save_x_tp(value, T, P in GPa, P in GPa, name); write_output writes "
                                       "exactly the configured bases/variables in order")
    s.oblige("C15.table_callsites", table_callsites, ["calculator.CijVolumeBaseInterface.write_table", "calculator.CijPressureBaseInterface.write_table",
                                                       "calculator.Calculator.write_output", "calculator.CijVolumeBaseInterface.write_variables"])
    # ---------------- 5. file round trip, bounded
    if s.__dict__.get("_p"):          # a sub-session registers the registry / writer-path obligations only
        return
    round_trip(s, cal)
    # column labels P_MIN + j DELTA_P (j < NTV): the pressure grid the tables are written on comes from the QHA layer (qha_adapter.py); C06's obligation is registered here as well
    if not s.__dict__.get("_p"):          # not when this check itself runs as a sub-session of another property
        from props import C06
        core.SubSession(s, lambda n: n.replace("C06.", "C15.grid."), lambda n: n == "C06.pressure_grid_is_the_requested_one").run(C06)
    s.min_obligations = 3


def native_table(cal, which):
    tmp = tempfile.mkdtemp(prefix="c15n_")
    try:
        t = numpy.arange(9.0) * 10 + 5           # DT = 10, NT = 5 (+4 guard rows)
        v, p = numpy.array([900.0, 800.0, 700.0]), numpy.array([0.0, 0.001, 0.002])
        qha = types.SimpleNamespace(volume_base=types.SimpleNamespace(v_array=v, t_array=t, t_sample_array=t[::3]),
                                    pressure_base=types.SimpleNamespace(p_array=p, t_array=t, t_sample_array=t[::3]))
        calc = types.SimpleNamespace(qha_calculator=qha)
        val = numpy.arange(27.0).reshape(9, 3)
        f = os.path.join(tmp, "x.txt")
        (cal.CijVolumeBaseInterface if which == "tv" else cal.CijPressureBaseInterface)(calc).write_table(f, val)
        df = pandas.read_table(f, sep=r"\s+", index_col=0)
        rows = [float(x) for x in df.index]
        bad = rows != t[:-4].tolist() or not numpy.allclose(df.to_numpy(), val[:-4])
        return {"reproduced": bool(bad), "rows_written": rows, "rows_expected": t[:-4].tolist()}
    except Exception as e:
        return {"reproduced": True, "raised": repr(e)}
    finally:
        shutil.rmtree(tmp, ignore_errors=True)


def synthetic_calculator(rnd, nt, ntv, npres, tmin, dt, pmin, dp, dts_factor=1):
    """a calculator-like object with real numeric fields: smooth SPD stiffness, P(T,V) monotonic"""
    import qha.v2p
    from cij.util import c_
    cal = importlib.import_module("cij.core.calculator")
    t = tmin + dt * numpy.arange(nt + 4)
    V = numpy.linspace(1000.0, 500.0, ntv)
    p_gpa = pmin + dp * numpy.arange(npres)
    Ptv = (0.0009 * (1000 - V)[None, :] + 2.0e-7 * (1000 - V)[None, :] ** 2 + 1e-6 * t[:, None]) - 0.02        # Ry/bohr^3
    p_au = p_gpa / GPA
    keys = [c_(i, j) for i in range(1, 7) for j in range(i, 7) if (i <= 3 and j <= 3) or i == j or (i, j) in ((1, 5), (4, 6))]
    mod_s, mod_t = {}, {}
    for k in keys:
        I, J = k.voigt
        base = (0.02 if I == J else 0.004 if (I <= 3 and J <= 3) else 0.0007 if (I, J) == (1, 5) else -4.0e-5) * (1 + 0.1 * I + 0.01 * J)          # c46: small but legitimate (-0.8 GPa)
        f = base * (1 + 0.0012 * (1000 - V)[None, :]) * (1 - 2e-5 * t[:, None])
        mod_s[k] = f
        mod_t[k] = f * (1 - 0.01 * (t[:, None] / (t.max() + 1)))
    import qha.v2p as qv
    Vtp = qv.v2p(numpy.broadcast_to(V, Ptv.shape).copy(), Ptv, p_au)
    tsample = t[::dts_factor]
    qhac = types.SimpleNamespace(volume_base=types.SimpleNamespace(v_array=V, t_array=t, pressures=Ptv, t_sample_array=tsample),
                                 pressure_base=types.SimpleNamespace(p_array=p_au, t_array=t, volumes=Vtp, t_sample_array=tsample),
                                 t_array=t, v_array=V)
    calc = types.SimpleNamespace(qha_calculator=qhac, modulus_keys=keys, modulus_adiabatic=mod_s, modulus_isothermal=mod_t,
                                 elast_data=types.SimpleNamespace(cellmass=float(rnd.uniform(50, 300))), dims=(nt + 4, ntv), config={})
    cal.Calculator._calculate_compliances(calc)
    calc.volume_base = calc.volume_based_result = cal.CijVolumeBaseInterface(calc)
    calc.pressure_base = calc.pressure_based_result = cal.CijPressureBaseInterface(calc)
    return calc, t, V, p_gpa


def round_trip(s, cal):
    import qha.v2p
    rnd = numpy.random.RandomState(s.seed)
    n = 3 if s.tier == "quick" else 40
    fails, evals, distinct = [], 0, 0
    cwd = os.getcwd()
    for trial in range(n):
        nt, ntv, npres = int(rnd.randint(3, 9)), int(rnd.randint(12, 25)), int(rnd.randint(3, 9))
        # size coincidences an axis-by-length shortcut could key on: as many pressures as temperature rows (with and without qha's four extra rows), a square (T,V) grid
        if trial % 3 == 0:
            npres = nt + 4
        elif trial % 3 == 1:
            nt, ntv = 8, 12
        else:
            npres = nt
        tmin, dt = float(rnd.choice([0.0, 50.0, 300.0])), float(rnd.choice([10.0, 100.0, 250.0]))
        if trial % 3 == 2:
            tmin, dt = 298.15, 12.25          # grid points that need two decimals
        pmin, dp = float(rnd.choice([0.0, 5.0])), float(rnd.choice([1.0, 2.5]))
        dts = int(rnd.choice([1, 1, 2]))
        calc, t, V, p_gpa = synthetic_calculator(rnd, nt, ntv, npres, tmin, dt, pmin, dp, dts)
        tmp = tempfile.mkdtemp(prefix="c15_")
        try:
            os.chdir(tmp)
            # both keyword families, in both orders on alternating trials; aliases; a user file name; a unit override
            tp_vars = ["cij_t", "cij", "bm_VRH", "G_V", "vp", "v", {"keyword": "G_R", "fname": "my_gr.txt"}, {"keyword": "B_R", "unit": "kbar", "fname": "br_kbar.txt"}]
            if trial % 2:
                tp_vars = ["adiabatic_elastic_moduli", "isothermal_elastic_moduli"] + tp_vars[2:]
            tv_vars = ["p", "cij_s", "shear_modulus_voigt_reuss_hill", "vs"]
            calc.config = {"output": {"pressure_base": tp_vars, "volume_base": tv_vars}}
            with warnings.catch_warnings():
                warnings.simplefilter("ignore")
                cal.Calculator.write_output(calc)
            # aliases written separately must give identical content
            msg = None
            files = sorted(os.listdir(tmp))

            def expect(fname, arr, cols, base):
                nonlocal msg, evals
                evals += 1
                if fname not in files:
                    msg = "file %s was not written (files: %s)" % (fname, files[:8])
                    return
                df = pandas.read_table(fname, sep=r"\s+", index_col=0)
                rows = numpy.array([float(x) for x in df.index])
                colv = numpy.array([float(c) for c in df.columns])
                if len(rows) != nt or not numpy.allclose(rows, tmin + dt * numpy.arange(nt), rtol=0, atol=1e-9):
                    msg = "%s: row labels %s, requested temperatures %s" % (fname, rows.tolist(), (tmin + dt * numpy.arange(nt)).tolist())
                elif len(colv) != len(cols) or not numpy.allclose(colv, cols, rtol=1e-5, atol=1e-9):
                    msg = "%s: column labels differ from the requested %s grid" % (fname, "pressure" if base == "tp" else "volume")
                elif not numpy.allclose(df.to_numpy(), arr[:nt], rtol=1e-13, atol=0):
                    msg = "%s: re-read content differs from the in-memory result (max rel %.3g)" % (fname, numpy.nanmax(numpy.abs(df.to_numpy() / arr[:nt] - 1)))
            pb, vb = calc.pressure_base, calc.volume_base
            v2p = lambda f: qha.v2p.v2p(f, calc.qha_calculator.volume_base.pressures, calc.qha_calculator.pressure_base.p_array)
            for k in calc.modulus_keys:
                ij = "%d%d" % k.voigt
                if msg is None:
                    expect("c%ss_tp_gpa.txt" % ij, v2p(calc.modulus_adiabatic[k]) * GPA, p_gpa, "tp")
                if msg is None:
                    expect("c%st_tp_gpa.txt" % ij, v2p(calc.modulus_isothermal[k]) * GPA, p_gpa, "tp")
                if msg is None:
                    expect("c%ss_tv_gpa.txt" % ij, calc.modulus_adiabatic[k] * GPA, V * ANG3, "tv")
            for fname, arr, cols, base in (("bm_VRH_tp_gpa.txt", v2p(vb.bulk_modulus_voigt_reuss_hill) * GPA, p_gpa, "tp"), ("G_V_tp_gpa.txt", v2p(vb.shear_modulus_voigt) * GPA, p_gpa, "tp"),
                                           ("v_p_tp_km_s.txt", v2p(vb.primary_velocities), p_gpa, "tp"), ("v_tp_ang3.txt", calc.qha_calculator.pressure_base.volumes * ANG3, p_gpa, "tp"),
                                           ("my_gr.txt", v2p(vb.shear_modulus_reuss) * GPA, p_gpa, "tp"), ("br_kbar.txt", v2p(vb.bulk_modulus_reuss) * GPA * 10, p_gpa, "tp"),
                                           ("p_tv_gpa.txt", calc.qha_calculator.volume_base.pressures * GPA, V * ANG3, "tv"),
                                           ("G_VRH_tv_gpa.txt", vb.shear_modulus_voigt_reuss_hill * GPA, V * ANG3, "tv"), ("v_s_tv_km_s.txt", vb.secondary_velocities, V * ANG3, "tv")):
                if msg is None:
                    expect(fname, numpy.asarray(arr), cols, base)
            distinct += 1
            if msg:
                fails.append({"witness_id": "roundtrip:%d" % trial, "input": {"NT": nt, "NTV": npres, "T_MIN": tmin, "DT": dt, "DT_SAMPLE": dt * dts, "P_MIN": pmin, "DELTA_P": dp,
                                                                              "pressure_base": [str(x) for x in tp_vars], "volume_base": tv_vars},
                              "observed": msg, "expected": "file = in-memory result in the documented unit on the requested grid"})
                break
        except Exception as e:
            fails.append({"witness_id": "roundtrip-raise:%d" % trial, "input": {"NT": nt, "DT": dt}, "observed": "raises %r" % (e,), "expected": "files written"})
            break
        finally:
            os.chdir(cwd)
            shutil.rmtree(tmp, ignore_errors=True)
    s.bounded_standin("C15.file_round_trip", "%d synthetic calculators (NT 3-8, NTV 3-8 pressures, T_MIN in {0,50,300}, DT in {10,100,250}, DT_SAMPLE in {DT, 2 DT}, P_MIN in {0,5}, "
                      "DELTA_P in {1,2.5}); both tensor keyword families in both orders, aliases, user file name, unit override; re-read with pandas at 1e-13; seed %d" % (n, s.seed),
                      evals, distinct, fails, ["calculator.Calculator.write_output", RW + "ResultsWriter"])


MANIFEST = {
    "engine": "symnp", "category": "other",
    "technique": "contract-based verification by complete enumeration over the writer rules x bases with recording base objects and call-site "
                 "obligations on the table writers; bounded file round trip through the real writers",
    "text": "Enumerated completely on the real code: the keyword registry equals the documented table (31 keywords, 12 rules, aliases share one rule "
            "object, attribute / file pattern / kind / unit factor vs independent constants); for every keyword and alias x both bases x {plain, "
            "dict, user file name, unit override} the writer calls base.write_table once per value rule or once per available component with the "
            "documented name and the in-memory array times the unit factor; the table writers call save_x_tv/save_x_tp with T rows, A^3 / GPa "
            "columns and the full temperature list as row filter; write_output writes the configured bases and variables in order. Bounded: files "
            "written by write_output on synthetic calculators are re-read and compared with the in-memory results and requested grids.",
    "note": "qha's save_x_* and pandas formatting are external; the round trip is bounded (3 quick / 40 thorough synthetic calculators).",
}
