"""C08 -- symmetry relations equal the Laue-class invariants; fill returns the invariant."""
import fractions, importlib, itertools, os, types
import numpy
import pandas
import sympy as sp
import z3
from vf import core, smt, symnp
from vf.symnp import Sc
from contracts import fill_env
from contracts.fill_env import NAMES, SYSTEMS, RANK
from specs import laue

LEVEL = "proof"
EXPLANATION = ("relation rows captured from the real fill_cij (arguments of numpy.linalg.lstsq) compared with the Laue invariants by "
               "two validity queries per system over 21 reals (sqrt 3 algebraic), sympy exact rank as second back end; write-back / "
               "drop / table application by symbolic runs of the real code with lstsq as a contract stub")
F = "fill.fill_cij"


def q(x):
    return z3.RealVal(str(fractions.Fraction(float(x)).limit_denominator(10 ** 9)))


def run(s):
    tier = s.tier
    fill = fill_env.fill_module()
    s.trust("z3 5.1 (QF_NRA with s*s=3)", "sympy exact rank over Q(sqrt 3) (second back end)", "numpy.linalg.lstsq (A-LSQ)",
            "sympy.parse_expr / linear_eq_to_matrix inside fill_cij (their OUTPUT is what is verified)")
    s.assume("A-LSQ: lstsq returns a least-squares minimiser, the matrix rank and (full rank) squared residual norms; if a x = b is solvable "
             "and a has full column rank, x is that solution", "A-PANDAS", "generators of the nine Laue classes in the standard setting "
             "(specs/laue.py, from the property statement)")
    cs = [z3.Real(n) for n in NAMES]
    sq3 = z3.Real("sqrt3")
    alg = [sq3 * sq3 == 3, sq3 > 0]

    def to_z3(e):
        e = sp.expand(e)
        a = e.subs(laue.S3, 0)
        b = sp.simplify((e - a) / laue.S3)
        if not (a.is_Rational and b.is_Rational):
            raise core.OutsideSubset("coefficient %s outside Q(sqrt 3)" % e)
        return z3.RealVal(str(a)) + z3.RealVal(str(b)) * sq3

    def dot(row, conv):
        tot = z3.RealVal(0)
        for coef, c in zip(row, cs):
            if coef != 0:
                tot = tot + conv(coef) * c
        return tot

    # ---------------- 1. relations == invariants, nine systems
    for system in SYSTEMS:
        def ob(system=system):
            R, rb = fill_env.relation_matrix(system)
            if R.shape[1] != 21 or numpy.any(rb != 0):
                return core.refuted("finite", "relation block has shape %s / non-zero right-hand side" % (R.shape,), witness_id="relshape:" + system)
            inv = laue.invariance_rows(system)
            rel = [dot(row, q) == 0 for row in R]
            invz = [dot(row, to_z3) == 0 for row in inv]
            r1 = smt.prove(z3.And(*invz) if invz else z3.BoolVal(True), alg + rel, tier=tier, name="rel=>inv:" + system)
            if r1.status != core.PROVED:
                r1.detail = "%s: a tensor satisfying the packaged relations is not invariant under the Laue class | %s" % (system, r1.detail)
                r1.replay, r1.witness_id = native_tensor(system, r1.model, "relations hold but invariance fails"), "rel=>inv:" + system
                return r1
            r2 = smt.prove(z3.And(*rel) if rel else z3.BoolVal(True), alg + invz, tier=tier, name="inv=>rel:" + system)
            if r2.status != core.PROVED:
                r2.detail = "%s: an invariant tensor violates the packaged relations | %s" % (system, r2.detail)
                r2.replay, r2.witness_id = native_tensor(system, r2.model, "invariant tensor rejected/changed"), "inv=>rel:" + system
                return r2
            # second back end: exact ranks
            Rq = [[sp.Rational(str(fractions.Fraction(float(x)).limit_denominator(10 ** 9))) for x in row] for row in R]
            rR, rI, rB = laue.exact_rank(Rq), laue.exact_rank(inv), laue.exact_rank(Rq + inv)
            if not (rR == rI == rB == 21 - laue.EXPECTED_DIM[system]):
                return core.Result(core.ERROR, "sympy", "back ends disagree: z3 proved equality, exact ranks %d/%d/%d" % (rR, rI, rB))
            r1.time_s += r2.time_s
            r1.backend = "z3+sympy"
            r1.detail = "%s: solution space of the %d captured relation rows = invariant subspace (dimension %d)" % (system, len(R), 21 - rR)
            return r1
        s.oblige("C08.relations_equal_invariants[%s]" % system, ob, [F, "cij/data/constraints/" + system])
    if s.__dict__.get("relations_only"):          # another property registers only the relation obligations (core.SubSession): the rest of this check is not its business
        return
    s.canary("C08.canary.trigonal7_without_c66_relation", lambda: canary_rel(alg, cs, dot, to_z3, tier))

    # ---------------- 2. captured system: unit rows for supplied columns (case-insensitive), rhs = column, relations rhs 0
    def captured(system, columns, nvol, order=None):
        res = fill_env.symbolic_run(system, columns, nvol=nvol, order=order, ignore_rank=True, ignore_residuals=True)
        R, _ = fill_env.relation_matrix(system)
        for r in res:
            call = r["proxy"].calls[0]
            a, b = call["a"], call["b"]
            cols = [c for c in r["df_in"].columns]
            n = len(cols)
            if a.shape != (n + len(R), 21) or b.shape != (n + len(R), nvol):
                return "lstsq called with shapes %s %s" % (a.shape, b.shape)
            for i, c in enumerate(cols):
                unit = numpy.zeros(21)
                unit[NAMES.index(c.lower())] = 1
                if not numpy.array_equal(numpy.asarray(a[i], dtype=float), unit):
                    return "row %d for column %r is not the unit row of %s" % (i, c, c.lower())
                for v in range(nvol):
                    if not (isinstance(b[i][v], Sc) and b[i][v].z.eq(r["df_in"][c].to_numpy()[v].z)):
                        return "right-hand side of column %r at volume %d is %r" % (c, v, b[i][v])
            if not numpy.array_equal(numpy.asarray(a[n:], dtype=float), R):
                return "relation rows depend on the supplied columns"
            for row in b[n:]:
                for x in row:
                    if not (not isinstance(x, Sc) and float(x) == 0.0):
                        return "relation right-hand side %r is not 0" % (x,)
        return None

    def rows_ob():
        n = 0
        for system in SYSTEMS:
            if system == "triclinic":
                continue
            for columns, order in ((["c11", "c12", "c44"], None), (["C11", "c33", "C44", "c12", "c13"], None),
                                   (["c66", "c11"], ["c11", "c66"]), (NAMES[:], None)):
                for nvol in ((1, 2, 3) if system in ("cubic", "trigonal7") else (2,)):
                    n += 1
                    msg = captured(system, columns, nvol, order)
                    if msg:
                        return core.refuted("symnp", "%s, columns %s, %d volume rows: %s" % (system, columns, nvol, msg), witness_id="rows:" + system,
                                            replay={"reproduced": True, "system": system, "columns": columns})
        return core.proved("symnp", "%d symbolic tables: supplied rows are unit rows at the lower-cased name's position with the column as right-hand "
                                    "side (values symbolic), relation rows identical and with right-hand side 0 for every volume" % n)
    s.oblige("C08.lstsq_system_rows", rows_ob, [F])

    # ---------------- 4. write-back and drop on symbolic tables
    def writeback():
        n = 0
        for system in ("cubic", "trigonal7", "monoclinic"):
            for columns, dropped in ((["c11", "C12", "c44"], ()), (["C11", "c12", "c44", "c14"], ("c15", "c16")), (NAMES[:], ("c45",)),
                                     (["c11", "c12", "C44"], ("c44", "c55"))):
                for nvol in (1, 2):
                    res = fill_env.symbolic_run(system, columns, nvol=nvol, dropped=dropped, extra=["V"], ignore_rank=True, ignore_residuals=True)
                    for r in res:
                        n += 1
                        if r["kind"] != "return":
                            return core.refuted("symnp", "raises with both ignore flags set: %r" % (r["value"],), witness_id="wb-raise", replay={"reproduced": True})
                        out = r["value"]
                        lower = {}
                        for c in out.columns:
                            lower.setdefault(str(c).lower(), []).append(c)
                        if any(len(v) > 1 for v in lower.values()):
                            return core.refuted("symnp", "duplicate columns up to letter case: %s" % {k: v for k, v in lower.items() if len(v) > 1}, witness_id="wb-dup",
                                                replay={"reproduced": True})
                        for k, name in enumerate(NAMES):
                            want_col = next((c for c in columns if c.lower() == name), name)
                            if name in dropped:
                                if want_col in out.columns:
                                    return core.refuted("symnp", "column %s vanishes at every volume but is kept" % name, witness_id="wb-keep", replay={"reproduced": True})
                                continue
                            if want_col not in out.columns:
                                return core.refuted("symnp", "component %s (column %r) is missing from the result" % (name, want_col), witness_id="wb-missing:" + name,
                                                    replay=native_writeback(fill))
                            got = out[want_col].to_numpy()
                            for v in range(nvol):
                                if not (isinstance(got[v], Sc) and got[v].z.eq(r["X"][k][v].z)):
                                    return core.refuted("symnp", "column %r receives %r instead of the solved value of %s" % (want_col, got[v], name),
                                                        witness_id="wb-value:" + name, replay=native_writeback(fill))
                        vcol = out["V"].to_numpy() if "V" in out.columns else None
                        if vcol is None or any(not vcol[v].z.eq(r["df_in"]["V"].to_numpy()[v].z) for v in range(nvol)):
                            return core.refuted("symnp", "the non-modulus column V does not pass through untouched", witness_id="wb-V", replay=native_writeback(fill))
                        # the vanishing test looks at the column it is about to drop, with the caller's tolerance
                        for c in r["proxy"].allclose_calls:
                            if c["atol"] != 1e-8 or not (numpy.ndim(c["b"]) == 0 and float(c["b"]) == 0.0):
                                return core.refuted("callsite", "vanishing test called with b=%r atol=%r" % (c["b"], c["atol"]), witness_id="wb-atol", replay={"reproduced": True})
                            if numpy.asarray(c["a"], dtype=object).ravel().size != nvol:
                                return core.refuted("callsite", "vanishing test looks at %d values, the table has %d volumes" % (numpy.asarray(c["a"]).size, nvol),
                                                    witness_id="wb-allvolumes", replay=native_writeback(fill))
        return core.proved("symnp", "%d symbolic paths: each of the 21 symbols is written to the caller's (case-insensitively matching) column or a new "
                                    "lower-case one, with the solved value at every volume; V untouched; a column is omitted iff the vanishing test on "
                                    "all its volumes answers true" % n)
    s.oblige("C08.write_back_and_drop", writeback, [F])

    def drop_tolerance():
        res = fill_env.symbolic_run("cubic", ["c11", "c12", "c44"], nvol=1, ignore_rank=True, ignore_residuals=True, drop_atol=0.25)
        for r in res:
            if not r["proxy"].allclose_calls or any(c["atol"] != 0.25 for c in r["proxy"].allclose_calls):
                return core.refuted("callsite", "drop_atol is not the tolerance of the vanishing test", witness_id="drop-atol", replay={"reproduced": True})
        return core.proved("callsite", "drop_atol reaches the vanishing test")
    s.oblige("C08.drop_tolerance_callsite", drop_tolerance, [F])

    # ---------------- apply_symetry_on_elast_data stores exactly the returned columns under canonical keys
    s.oblige("C08.apply_symmetry_on_table", lambda: apply_table(), ["elast_dat.apply_symetry_on_elast_data"])
    # ---------------- the calculation route: Calculator hands the table and the configured symmetry settings to apply_symetry_on_elast_data for every system other than
    # none / triclinic, whatever the switches say (they govern refusals, not the filling), and the packaged defaults are fill_cij's own defaults
    s.oblige("C08.calculator_applies_symmetry(call site)", calculator_callsite, ["calculator.Calculator._apply_elastic_constants_symmetry"], kind="finite")
    s.oblige("C08.packaged_symmetry_defaults_are_fill_defaults", lambda: packaged_defaults(fill), ["cij/data/default/settings.yaml", "fill.fill_cij"], kind="finite")
    # ---------------- bounded: fill returns the invariant tensor on consistent sufficient tables (real numerics)
    bounded_fill(s, fill)
    s.min_obligations = 13


def canary_rel(alg, cs, dot, to_z3, tier):
    R, _ = fill_env.relation_matrix("trigonal7")
    inv = laue.invariance_rows("trigonal7")
    rel = [dot(row, q) == 0 for row in R if not (abs(row[NAMES.index("c66")]) > 0)]
    invz = [dot(row, to_z3) == 0 for row in inv]
    return smt.prove(z3.And(*invz), alg + rel, tier=tier)


def model_tensor(model):
    vals = []
    for n in NAMES:
        raw = (model or {}).get(n, "0")
        try:
            vals.append(float(fractions.Fraction(raw)))
        except Exception:
            try:
                vals.append(float(raw.rstrip("?")))
            except Exception:
                vals.append(0.0)
    return vals


def native_tensor(system, model, what):
    """replay of a counter-model tensor through the real fill_cij: fully supplied table"""
    vals = model_tensor(model)
    inv_rows = [[float(sp.N(x)) for x in row] for row in laue.invariance_rows(system)]
    invariant = all(abs(sum(a * b for a, b in zip(row, vals))) < 1e-9 for row in inv_rows)
    df = pandas.DataFrame({n: [v] for n, v in zip(NAMES, vals)})
    try:
        out = fill_env.fill_module().fill_cij(df.copy(), system)
        accepted = True
        moved = any(abs(float(out[n].iloc[0]) - v) > 1e-6 for n, v in zip(NAMES, vals) if n in out.columns) or \
            any(abs(v) > 1e-6 for n, v in zip(NAMES, vals) if n not in out.columns)
    except Warning:
        accepted, moved = False, False
    bad = (invariant and (not accepted or moved)) or (not invariant and accepted and not moved)
    return {"reproduced": bool(bad), "tensor": dict(zip(NAMES, vals)), "invariant_under_laue_class": invariant, "accepted": accepted, "changed": moved, "note": what}


def native_writeback(fill):
    df = pandas.DataFrame({"V": [500.0, 450.0], "C11": [300.0, 320.0], "c12": [100.0, 110.0], "c44": [80.0, 0.0]})
    try:
        out = fill.fill_cij(df.copy(), "cubic")
    except Exception as e:
        return {"reproduced": True, "raised": repr(e)}
    want = {"V": [500.0, 450.0], "C11": [300.0, 320.0], "c12": [100.0, 110.0], "c44": [80.0, 0.0], "c22": [300.0, 320.0], "c33": [300.0, 320.0],
            "c13": [100.0, 110.0], "c23": [100.0, 110.0], "c55": [80.0, 0.0], "c66": [80.0, 0.0]}
    bad = set(out.columns) != set(want) or any(not numpy.allclose(out[c].to_numpy(dtype=float), want[c]) for c in want if c in out.columns)
    return {"reproduced": bool(bad), "observed_columns": list(map(str, out.columns)), "observed": {str(c): out[c].tolist() for c in out.columns}}


def apply_table():
    ed = importlib.import_module("cij.io.traditional.elast_dat")
    fill = fill_env.fill_module()
    from cij.util import c_
    seen = {}

    import inspect
    real_sig = inspect.signature(fill.fill_cij)
    defaults = {k: p.default for k, p in real_sig.parameters.items() if p.default is not inspect.Parameter.empty}

    def fake_fill(*a, **kw):
        # however the call is spelled (keywords, positional arguments), what counts is the value every parameter of the REAL fill_cij receives
        ba = real_sig.bind(*a, **kw)
        first = list(real_sig.parameters)[0]
        df = ba.arguments[first]
        seen["df"] = df.copy()
        seen["kw"] = dict(defaults, **{k: v for k, v in ba.arguments.items() if k != first})
        out = df.copy()
        out["c22"] = [7.0 + i for i in range(len(df))]
        out["c12"] = out["c12"] + 0.5          # the solve may move a tabulated component (soft least squares)
        out = out.drop("c44", axis=1)
        return out
    from contracts.nonshear_env import patched
    for sym in ({"system": "cubic", "ignore_rank": True, "drop_atol": 1e-3}, {"system": "hexagonal", "residual_atol": 0.25},
                {"system": "trigonal7", "ignore_residuals": True, "drop_atol": 1e-5, "residual_atol": 2.0}, {"system": "cubic"}):
        data = ed.ElastData(100.0, 3, 50.0, [ed.ElastVolumeData(10.0 * i, {c_(1, 1): 1.0 + i, c_(1, 2): 2.0 + i, c_(4, 4): 3.0 + i}) for i in range(3)], [])
        seen.clear()
        try:
            with patched(fill, fill_cij=fake_fill):          # also redirects a module-level `from cij.util.fill import fill_cij` elsewhere
                ed.apply_symetry_on_elast_data(data, dict(sym))
        except TypeError as e:
            return core.refuted("callsite", "apply_symetry_on_elast_data calls fill_cij in a way its signature does not accept (%s)" % e, witness_id="apply-call", replay={"reproduced": True})
        if seen.get("kw") != dict(defaults, **sym):
            diff = {k: (seen.get("kw", {}).get(k), v) for k, v in dict(defaults, **sym).items() if seen.get("kw", {}).get(k) != v}
            return core.refuted("callsite", "with the symmetry settings %r fill_cij receives %r (parameter: (received, configured))" % (sym, diff), witness_id="apply-kw",
                                replay={"reproduced": True, "settings": sym})
    if list(seen["df"].columns) != ["c11", "c12", "c44"] or seen["df"]["c12"].tolist() != [2.0, 3.0, 4.0]:
        return core.refuted("callsite", "table handed to fill_cij: %r" % (seen["df"],), witness_id="apply-df", replay={"reproduced": True})
    for i, v in enumerate(data.volumes):
        want = {c_(1, 1): 1.0 + i, c_(1, 2): 2.5 + i, c_(2, 2): 7.0 + i}
        if v.volume != 10.0 * i or dict(v.static_elastic_modulus) != want:
            return core.refuted("callsite", "volume row %d stores %r" % (i, dict(v.static_elastic_modulus)), witness_id="apply-store", replay={"reproduced": True})
    return core.proved("callsite", "apply_symetry_on_elast_data passes the settings unchanged, builds cIJ columns from canonical keys and stores exactly "
                                   "the returned columns for every volume row")


def calculator_callsite():
    import itertools
    cal = importlib.import_module("cij.core.calculator")
    from contracts.nonshear_env import patched
    import inspect
    real_sig = inspect.signature(cal.apply_symetry_on_elast_data)
    n = 0
    for system in [None, "triclinic"] + [x for x in SYSTEMS if x != "triclinic"]:
        for ig_res, ig_rank in itertools.product((False, True), repeat=2):
            sym = {"ignore_residuals": ig_res, "ignore_rank": ig_rank, "drop_atol": 1e-8, "residual_atol": 0.1}
            if system is not None:
                sym["system"] = system
            me = types.SimpleNamespace(config={"elast": {"settings": {"symmetry": dict(sym)}}}, elast_data=object())
            calls = []
            with patched(cal, apply_symetry_on_elast_data=lambda *a, **k: calls.append((a, k))):
                cal.Calculator._apply_elastic_constants_symmetry(me)
            n += 1
            if system in (None, "triclinic"):
                if calls and system is None:
                    return core.refuted("callsite", "without a crystal system the table is handed to the symmetry filling", witness_id="calc-sym-none", replay={"reproduced": True})
                continue
            ok = False
            if len(calls) == 1:
                try:          # however the call is spelled: what each parameter of the real function receives
                    got = list(real_sig.bind(*calls[0][0], **calls[0][1]).arguments.values())
                    ok = len(got) == 2 and got[0] is me.elast_data and dict(got[1]) == sym
                except TypeError:
                    ok = False
            if not ok:
                return core.refuted("callsite", "system %s, ignore_residuals=%s, ignore_rank=%s: apply_symetry_on_elast_data is called %d time(s)%s" % (
                    system, ig_res, ig_rank, len(calls), (" with %r" % (calls[0],)) if calls else " (the table is used as read: dependent components are never generated)"),
                    witness_id="calc-sym:%s:%s:%s" % (system, ig_res, ig_rank), replay={"reproduced": True, "settings": sym})
    return core.proved("callsite", "%d (system, switches) combinations: exactly one call with the calculator's own table and the configured settings for every system but none / triclinic" % n)


def packaged_defaults(fill):
    import inspect, yaml
    with open(os.path.join(core.REPO, "cij/data/default/settings.yaml")) as fp:
        sym = yaml.safe_load(fp)["elast"]["settings"]["symmetry"]
    sig = inspect.signature(fill.fill_cij)
    for name, par in sig.parameters.items():
        if par.default is inspect.Parameter.empty or name == "system":
            continue
        if name in sym and not (sym[name] == par.default and type(sym[name]) is type(par.default) or (isinstance(par.default, float) and float(sym[name]) == par.default)):
            return core.refuted("finite", "packaged default %s = %r, fill_cij's own default is %r: a calculation that does not spell the setting out fills (drops / refuses) differently from "
                                          "fill_cij and the fill command" % (name, sym[name], par.default), witness_id="default:%s" % name, replay={"reproduced": True})
    extra = [k for k in sym if k not in sig.parameters]
    if extra:
        return core.refuted("finite", "packaged symmetry settings %s are not parameters of fill_cij" % extra, witness_id="default-extra", replay={"reproduced": True})
    return core.proved("finite", "every packaged symmetry default equals the default of the same fill_cij parameter")


def bounded_fill(s, fill):
    """run-time contract on the real numerics: a consistent table that supplies a sufficient subset comes back as the
    invariant tensor at every volume (supplied values unchanged, dependents generated, vanishing omitted)"""
    rnd = numpy.random.RandomState(s.seed)
    n_per = 6 if s.tier == "quick" else 200
    fails, evals, distinct = [], 0, 0
    for system in SYSTEMS:
        basis = numpy.array([[float(sp.N(x)) for x in v] for v in laue.invariant_basis(system)])
        for trial in range(n_per):
            nvol = int(rnd.randint(1, 6))
            coef = rnd.uniform(20, 400, size=(nvol, len(basis))) * rnd.choice([1, 1, -0.3], size=(nvol, len(basis)))
            if nvol > 1 and rnd.rand() < 0.5:                     # a component that vanishes at one volume only
                coef[int(rnd.randint(0, nvol)), int(rnd.randint(0, len(basis)))] = 0.0
            if trial % 3 == 2 and len(basis) > 1:                 # an independent (symmetry-FREE) constant that happens to vanish at every volume: the supplied zeros pin it
                coef[:, int(rnd.randint(0, len(basis)))] = 0.0
            whole = (trial % 5 == 4)
            if whole:
                # a table of WHOLE numbers (kbar tables are printed that way; pandas types such columns int64): integer multiples of the basis's common denominator
                den = 1
                for v_ in laue.invariant_basis(system):
                    for x_ in v_:
                        den = int(sp.ilcm(den, sp.Rational(x_).q))
                coef = den * rnd.randint(5, 1500, size=(nvol, len(basis))).astype(float) * rnd.choice([1, 1, -1], size=(nvol, len(basis)))
            tens = coef @ basis                                   # (nvol, 21) invariant tensors
            if whole:
                tens = numpy.rint(tens)
            # a sufficient subset: greedily pick columns until the restricted basis has full rank
            order = rnd.permutation(21)
            chosen = []
            for k in order:
                if numpy.linalg.matrix_rank(basis[:, chosen + [k]], tol=1e-9) > len(chosen) and True:
                    chosen.append(int(k))
                if len(chosen) == len(basis):
                    break
            extra = [int(k) for k in order if k not in chosen][: int(rnd.randint(0, 4))]
            cols = chosen + extra
            rnd.shuffle(cols)
            df = pandas.DataFrame({"V": numpy.linspace(600, 400, nvol)})
            for k in cols:
                name = NAMES[k].upper() if rnd.rand() < 0.3 else NAMES[k]
                df[name] = tens[:, k].astype("int64") if whole else tens[:, k]
            # row labels are not part of the data: tables that were sorted, filtered, concatenated or re-labelled before filling (any pandas index)
            how = trial % 4
            if how == 1 and nvol > 1:
                df.index = list(rnd.permutation(nvol))
            elif how == 2:
                df.index = [10 * (i + 1) for i in range(nvol)]
            elif how == 3:
                df.index = ["v%d" % i for i in range(nvol)][::-1]
            index0 = list(df.index)
            evals += 1
            distinct += 1
            try:
                out = fill.fill_cij(df.copy(), system)
            except Exception as e:
                fails.append({"witness_id": "fill:%s:%d" % (system, trial), "input": {"system": system, "table": df.to_dict("list")},
                              "observed": "raises %r" % (e,), "expected": "the invariant tensor"})
                break
            msg = None
            scale = numpy.abs(tens).max()
            for k, name in enumerate(NAMES):
                col = next((c for c in out.columns if str(c).lower() == name), None)
                zero = numpy.all(numpy.abs(tens[:, k]) <= 1e-8)
                if col is None:
                    if not numpy.all(numpy.abs(tens[:, k]) <= 1e-6):
                        msg = "component %s omitted but equals %s" % (name, tens[:, k].tolist())
                        break
                    continue
                forced = bool(numpy.all(numpy.abs(basis[:, k]) <= 1e-12)) if len(basis) else False
                if zero and forced and col is not None and numpy.all(numpy.abs(out[col].to_numpy(dtype=float)) <= 1e-8):
                    msg = "component %s, which the symmetry forces to vanish, is kept" % name       # a FREE constant that happens to vanish may be listed as zeros or omitted
                    break
                if not numpy.allclose(out[col].to_numpy(dtype=float), tens[:, k], rtol=0, atol=1e-8 * scale):
                    msg = "component %s returned %s, invariant tensor has %s" % (name, out[col].tolist(), tens[:, k].tolist())
                    break
            if msg is None and not numpy.array_equal(out["V"].to_numpy(dtype=float), df["V"].to_numpy(dtype=float)):
                msg = "V column changed"
            if msg is None and list(out.index) != index0:
                msg = "row labels changed from %s to %s" % (index0, list(out.index))
            if msg is None and how == 0 and trial % 8 == 0:
                # a second table with the SAME components listed in another column order, filled in the same process (no state may survive the first call)
                cols2 = list(df.columns)
                rnd.shuffle(cols2)
                tens2 = (coef * rnd.uniform(0.5, 1.5, size=coef.shape)) @ basis
                df2 = pandas.DataFrame({c: (df[c].to_numpy() if c == "V" else tens2[:, NAMES.index(str(c).lower())]) for c in cols2})
                evals += 1
                try:
                    out2 = fill.fill_cij(df2.copy(), system)
                    for k, name in enumerate(NAMES):
                        col = next((c for c in out2.columns if str(c).lower() == name), None)
                        if col is not None and not numpy.allclose(out2[col].to_numpy(dtype=float), tens2[:, k], rtol=0, atol=1e-8 * numpy.abs(tens2).max()):
                            msg = "second table of the process (same components, columns %s): component %s returned %s, invariant tensor has %s" % (cols2, name, out2[col].tolist(), tens2[:, k].tolist())
                            break
                except Exception as e:
                    msg = "second table of the process (same components, columns %s) raises %r" % (cols2, e)
            if msg:
                fails.append({"witness_id": "fill:%s:%d" % (system, trial), "input": {"system": system, "table": df.to_dict("list")},
                              "observed": msg, "expected": "the unique invariant tensor with the supplied values"})
                break
        if fails:
            break
    s.bounded_standin("C08.fill_returns_invariant(real numerics)", "%d random consistent tables per system (1-5 volume rows, random sufficient subset + up to 3 redundant "
                      "columns, random order and letter case; default / permuted / spaced / string row labels; every eighth table followed in the same process by one with the "
                      "same components in another column order), seed %d" % (n_per, s.seed), evals, distinct, fails, [F])


MANIFEST = {
    "engine": "symnp", "category": "proof",
    "technique": "contract-based deductive verification: relation rows captured from the real fill_cij vs Laue invariants (z3 QF_NRA, sympy "
                 "exact rank), symbolic runs of fill_cij with lstsq as contract stub; bounded run-time contract on real numerics",
    "text": "For each of the nine systems the relation rows the real code hands to numpy.linalg.lstsq are captured and both inclusions "
            "'relations => invariant under every generator of the Laue class' and 'invariant => relations' are proved over all 21-component "
            "tensors (z3, sqrt 3 algebraic; exact ranks as second back end, dimensions 21/13/9/7/6/7/6/5/3). Symbolic runs of the real "
            "fill_cij (values symbolic, 1-3 volume rows) prove the supplied rows are unit rows at the lower-cased name with the column as "
            "right-hand side, relation rows have right-hand side 0, every symbol is written back to the caller's column or a new lower-case "
            "one, V passes through, and a column is omitted iff the vanishing test over all its volumes is true; the table wrapper stores "
            "exactly the returned columns. With A-LSQ this gives: a consistent sufficient table comes back as the unique invariant tensor.",
    "note": "A-LSQ (numpy.linalg.lstsq) and pandas are trusted; the 'unique invariant tensor' conclusion rests on the stated least-squares "
            "lemma and is additionally exercised as a bounded run-time contract (6 quick / 200 thorough random tables per system). Numbers "
            "of volume rows in the symbolic runs are 1-3 (size-bounded, value-unbounded).",
}
